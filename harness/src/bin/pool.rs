//! C08 conformance harness for humphrey::thread::pool::ThreadPool (spec/pool/ThreadPool.tla).
//!
//! The pool reports its linearization points through `humphrey::verif::point` (cfg humphrey_verif);
//! the callback installed here appends (seq, thread, point, a, b) to a log under one mutex and
//!   * in `random` mode (binding C) perturbs the calling thread (yield / spin / short sleep) so that
//!     real runs explore different schedules; the logs are validated by TLC with Trace_ThreadPool;
//!   * in `gated` mode (binding D) parks the calling thread until the controller, which walks a
//!     behaviour produced by TLC from ThreadPool.tla, releases exactly the thread whose action is
//!     next.  "The expected event does not arrive within 1 s + 4 s + 15 s" means the real code blocks
//!     where the model says it cannot.
//! Task bodies are supplied by the harness and log Task_Start / Task_End themselves.  Worker threads are
//! recognised by their name (the pool names them "0", "1", ...); whether they are still alive is read
//! from /proc/self/task/*/comm, not from the hooks.  A hang never hangs the harness: the caller runs on
//! its own thread and the process leaves with std::process::exit.
//!
//!   pool random <runs> <out.ndjson> [maxN] [maxTasks] [scale]     summary on stdout
//!   pool gated  <out.ndjson>   < behaviours.jsonl         one result line per behaviour + summary
use humphrey::monitor::event::{Event, EventType};
use humphrey::monitor::MonitorConfig;
use humphrey::thread::pool::ThreadPool;
use hv::util::{fnv64, out_line, quiet_panics, seed_from_env, stdin_lines, Rng};
use serde_json::{json, Value};
use std::collections::{HashMap, VecDeque};
use std::io::Write;
use std::sync::atomic::{AtomicU32, Ordering};
use std::sync::mpsc::{channel, Sender};
use std::sync::{Arc, Condvar, Mutex, MutexGuard, OnceLock};
use std::time::{Duration, Instant};

const WAITS: [u64; 3] = [1, 4, 15]; // escalating waits, seconds
const MAX_EVENTS: usize = 400_000; // per run; the largest legitimate run (200 tasks, all panicking) has < 4000
const CALLER: i64 = -1;
const RECOVERY: i64 = -2;
const DRIVER: i64 = -9;

#[derive(Clone, Debug)]
struct Ev {
    seq: u64,
    th: i64,
    /// generation: which start() created the task channel this thread works on (caller: starts so far)
    g: i64,
    ev: &'static str,
    a: i64,
    b: i64,
}

impl Ev {
    fn json(&self) -> Value {
        json!({"seq": self.seq, "th": self.th, "g": self.g, "ev": self.ev, "a": self.a, "b": self.b})
    }
}

#[derive(Default)]
struct St {
    gated: bool,
    events: Vec<Ev>,
    seq: u64,
    cur_task: i64,
    /// identity of a task channel (address of its Arc, reported by Pool_Chan) -> generation
    chan_gen: HashMap<i64, i64>,
    thread_gen: HashMap<std::thread::ThreadId, i64>,
    /// which worker id (or RECOVERY) an OS thread is, learned from its Worker_Spawned / Rec_Chan point - the
    /// NAME of a pool thread is an implementation detail and is only a fallback
    thread_role: HashMap<std::thread::ThreadId, i64>,
    cur_gen: i64,
    pending: HashMap<i64, VecDeque<usize>>,
    parked: HashMap<i64, usize>,
    permits: HashMap<i64, u32>,
    cret: u64,
    perturb_seed: u64,
    perturb_pct: u64,
    /// the caller has begun to drop the pool (tasks of kind 9 / 10 run until then) / number of start() calls begun
    /// (tasks of kind 7 / 8 wait for the next one).  Set by the caller thread itself just BEFORE the call, so that a
    /// task never waits for something that may in turn be waiting for the task.
    drop_called: bool,
    starts_called: i64,
    /// more than MAX_EVENTS points reported in one run: some thread is spinning (livelock); recording stops
    flood: bool,
}

struct H {
    m: Mutex<St>,
    cv: Condvar,
}

static HH: OnceLock<H> = OnceLock::new();

fn hh() -> &'static H {
    HH.get_or_init(|| H { m: Mutex::new(St::default()), cv: Condvar::new() })
}

fn lock() -> MutexGuard<'static, St> {
    hh().m.lock().unwrap_or_else(|e| e.into_inner())
}

fn thread_key() -> i64 {
    match std::thread::current().name() {
        Some("hv-caller") => CALLER,
        Some(n) => n.parse::<i64>().unwrap_or(-3),
        None => RECOVERY,
    }
}

/// Points at which a thread waits for the controller in gated mode.  The others are passed: they are
/// either reported while a lock is held that the model releases in the same step (Worker_Recv), or
/// reported just before a channel operation that must really happen for the model's next steps to be
/// possible (Marker_Send, Pool_Execute, Pool_Stop), or mark no state change.
fn parks(name: &str, b: i64) -> bool {
    matches!(name, "Worker_Loop" | "Task_Start" | "Task_End" | "Rec_Wake" | "Rec_Recv" | "Rec_Joined" | "Pool_DropBegin" | "Pool_DropEnd")
        || (name == "Worker_Lock" && b == 0)
}

fn mix(a: u64, b: u64) -> u64 {
    let mut z = a ^ b.wrapping_mul(0x9E3779B97F4A7C15);
    z = (z ^ (z >> 30)).wrapping_mul(0xBF58476D1CE4E5B9);
    z = (z ^ (z >> 27)).wrapping_mul(0x94D049BB133111EB);
    z ^ (z >> 31)
}

fn spin(n: u64) {
    let mut x = 1u64;
    for i in 0..n {
        x = std::hint::black_box(x.wrapping_mul(6364136223846793005).wrapping_add(i));
    }
    std::hint::black_box(x);
}

/// The callback: runs on the thread that reached the point. Must never panic (it is also called
/// from PanicMarker::drop during unwinding).
/// Key of a thread in the gate tables: the caller is one thread; workers and recovery threads are told apart
/// by generation (worker ids repeat after a restart).
fn key(th: i64, g: i64) -> i64 {
    if th == CALLER {
        CALLER
    } else {
        g * 1000 + th
    }
}

fn record(name: &'static str, a: i64, b: i64) {
    let th = thread_key();
    let tid = std::thread::current().id();
    let h = hh();
    let mut st = lock();
    // points that only say which task channel (= which start()) a thread belongs to; not logged
    match name {
        "Pool_Chan" => {
            st.cur_gen += 1;
            let g = st.cur_gen;
            st.chan_gen.insert(a, g);
            h.cv.notify_all();
            return;
        }
        "Worker_Spawned" => {
            let g = st.chan_gen.get(&b).copied().unwrap_or(0);
            st.thread_gen.insert(tid, g);
            st.thread_role.insert(tid, a);
            return;
        }
        "Rec_Chan" => {
            let g = st.chan_gen.get(&a).copied().unwrap_or(0);
            st.thread_gen.insert(tid, g);
            st.thread_role.insert(tid, RECOVERY);
            return;
        }
        _ => {}
    }
    let th = if th == CALLER { CALLER } else { st.thread_role.get(&tid).copied().unwrap_or(th) };
    let g = if th == CALLER { st.cur_gen } else { st.thread_gen.get(&tid).copied().unwrap_or(0) };
    let k = key(th, g);
    if st.events.len() >= MAX_EVENTS {
        st.flood = true;
        h.cv.notify_all();
        drop(st);
        std::thread::sleep(Duration::from_millis(1));
        return;
    }
    let a = if name == "Pool_Execute" { st.cur_task } else { a };
    st.seq += 1;
    let seq = st.seq;
    let idx = st.events.len();
    st.events.push(Ev { seq, th, g, ev: name, a, b });
    if st.gated {
        st.pending.entry(k).or_default().push_back(idx);
        h.cv.notify_all();
        if parks(name, b) {
            st.parked.insert(k, idx);
            loop {
                if !st.gated {
                    break;
                }
                let p = st.permits.entry(k).or_insert(0);
                if *p > 0 {
                    *p -= 1;
                    break;
                }
                st = h.cv.wait(st).unwrap_or_else(|e| e.into_inner());
            }
            st.parked.remove(&k);
        }
    } else {
        let r = mix(st.perturb_seed, seq);
        let pct = st.perturb_pct;
        drop(st);
        if r % 100 < pct {
            match (r >> 8) % 4 {
                0 | 1 => std::thread::yield_now(),
                2 => spin(50 + (r >> 16) % 3000),
                _ => std::thread::sleep(Duration::from_micros(10 + (r >> 16) % 150)),
            }
        }
    }
}

fn driver_event(name: &'static str, a: i64, b: i64) {
    let mut st = lock();
    st.seq += 1;
    let seq = st.seq;
    let g = st.cur_gen;
    st.events.push(Ev { seq, th: DRIVER, g, ev: name, a, b });
}

/// Records written by the caller thread itself around every call of the pool's API (a = 0 new, 1 start,
/// 2 execute, 3 stop, 4 drop; b = argument).  They do not depend on any hook inside the pool: the
/// property-level judge (Trace_PoolProp) works from these, the task bodies' own records and the driver's.
fn caller_event(name: &'static str, a: i64, b: i64) {
    let mut st = lock();
    st.seq += 1;
    let seq = st.seq;
    let g = st.cur_gen;
    st.events.push(Ev { seq, th: CALLER, g, ev: name, a, b });
}

fn live_workers() -> usize {
    let mut n = 0;
    if let Ok(rd) = std::fs::read_dir("/proc/self/task") {
        for e in rd.flatten() {
            if let Ok(s) = std::fs::read_to_string(e.path().join("comm")) {
                let s = s.trim();
                if !s.is_empty() && s.bytes().all(|c| c.is_ascii_digit()) {
                    n += 1;
                }
            }
        }
    }
    n
}

/// Number of OS threads of this process.  Ground truth for "every worker thread has exited": after a run
/// only the main thread and the (never ending, detached) recovery threads of the pools started so far
/// may be left.  (The `comm` of a thread that has not run yet is still its creator's, so counting
/// names alone would miss workers that were spawned but not yet scheduled.)
fn total_threads() -> usize {
    std::fs::read_dir("/proc/self/task").map(|rd| rd.flatten().count()).unwrap_or(usize::MAX)
}

// ------------------------------------------------------------------------------------------------
// tasks and the caller thread
// ------------------------------------------------------------------------------------------------

/// kind: 0 return, 1 panic, 2 spin, 3 sleep, 4 spin then panic, 5 sleep then panic,
/// 6 barrier: wait until `barrier` task bodies are running at the same time (a pool with that many threads must
/// get there: "up to N tasks run at the same time"); gives up after the escalating waits and reports
/// Barrier_Timeout, which no action of the model explains,
/// 7 / 8: wait until start() has been called `work` times (a task that spans a restart), then panic / return,
/// 9 / 10: keep running until the caller has begun drop() and a little longer (so stop() is called and drop() begins
/// while this task runs and the ones behind it are queued), then return / panic (10: a panic that arrives while or
/// after Drop takes the handles).  The task does NOT wait for drop() to return: the statement allows a drop() that
/// waits for running tasks, it only forbids blocking for ever.
fn panics(kind: u8) -> bool {
    matches!(kind, 1 | 4 | 5 | 7 | 10)
}

struct Counters {
    ran: Vec<AtomicU32>,
    done: Vec<AtomicU32>,
    arrived: AtomicU32,
    barrier: AtomicU32,
}

impl Counters {
    fn new(n: usize) -> Arc<Self> {
        Arc::new(Counters {
            ran: (0..=n).map(|_| AtomicU32::new(0)).collect(),
            done: (0..=n).map(|_| AtomicU32::new(0)).collect(),
            arrived: AtomicU32::new(0),
            barrier: AtomicU32::new(0),
        })
    }
    fn ran(&self, t: usize) -> u32 {
        self.ran[t].load(Ordering::SeqCst)
    }
    fn done(&self, t: usize) -> u32 {
        self.done[t].load(Ordering::SeqCst)
    }
}

fn make_task(t: i64, kind: u8, work: u64, c: Arc<Counters>) -> impl FnOnce() + Send + 'static {
    move || {
        c.ran[t as usize].fetch_add(1, Ordering::SeqCst);
        record("Task_Start", t, kind as i64);
        match kind {
            2 | 4 => spin(work * 20),
            3 | 5 => std::thread::sleep(Duration::from_micros(work)),
            6 => {
                let want = c.barrier.load(Ordering::SeqCst);
                c.arrived.fetch_add(1, Ordering::SeqCst);
                let t0 = Instant::now();
                let total: u64 = WAITS.iter().sum();
                while c.arrived.load(Ordering::SeqCst) < want {
                    if t0.elapsed() > Duration::from_secs(total) {
                        record("Barrier_Timeout", t, c.arrived.load(Ordering::SeqCst) as i64);
                        break;
                    }
                    std::thread::sleep(Duration::from_micros(50));
                }
            }
            7 | 8 => {
                let t0 = Instant::now();
                let total: u64 = WAITS.iter().sum();
                while lock().starts_called < work as i64 && t0.elapsed() < Duration::from_secs(total) {
                    std::thread::sleep(Duration::from_micros(50));
                }
                std::thread::sleep(Duration::from_micros(300)); // let the restart get under way
            }
            9 | 10 => {
                let t0 = Instant::now();
                let total: u64 = WAITS.iter().sum();
                while !lock().drop_called && t0.elapsed() < Duration::from_secs(total) {
                    std::thread::sleep(Duration::from_micros(50));
                }
                std::thread::sleep(Duration::from_micros(500)); // drop() is under way (it may or may not wait for us)
            }
            _ => {}
        }
        if panics(kind) {
            // every kind of panic payload a task can produce (a recovery path that formats the payload must cope with all
            // of them; added after the seeded change `C08-r5-recovery-thread-keeps-panic-message` - expect() on a
            // non-string payload inside the recovery thread - was missed: all tasks panicked with a formatted String)
            #[derive(Debug)]
            struct TaskError(#[allow(dead_code)] i64);
            match t.rem_euclid(6) {
                0 => panic!("task {} panics", t),
                1 => panic!("task panics"),
                2 => std::panic::panic_any(TaskError(t)),
                3 => std::panic::panic_any(404u16),
                4 => std::panic::resume_unwind(Box::new(TaskError(t))),
                _ => { let r: Result<(), TaskError> = Err(TaskError(t)); r.unwrap(); }
            }
        }
        c.done[t as usize].fetch_add(1, Ordering::SeqCst);
        record("Task_End", t, 0);
    }
}

enum Cmd {
    New(usize, Option<MonitorConfig>),
    Start,
    Exec(i64, u8, u64),
    Stop,
    Drop,
    Pause(u64),
    Yield,
    /// wait (bounded) until every one of the first k tasks has been entered and, unless it panics, returned
    WaitTasks(usize),
}

fn spawn_caller(c: Arc<Counters>, kinds: Arc<Vec<u8>>) -> (Sender<Cmd>, std::thread::JoinHandle<()>) {
    let (tx, rx) = channel::<Cmd>();
    let h = std::thread::Builder::new()
        .name("hv-caller".into())
        .spawn(move || {
            let mut pool: Option<ThreadPool> = None;
            for cmd in rx {
                match cmd {
                    Cmd::New(n, monitor) => {
                        let mut p = ThreadPool::new(n);
                        if let Some(m) = monitor {
                            p.register_monitor(m);
                        }
                        pool = Some(p);
                    }
                    Cmd::Start => {
                        lock().starts_called += 1;
                        caller_event("C_Call", 1, 0);
                        pool.as_mut().unwrap().start();
                        caller_event("C_Ret", 1, 0);
                    }
                    Cmd::Exec(t, kind, work) => {
                        lock().cur_task = t;
                        caller_event("C_Call", 2, t);
                        pool.as_ref().unwrap().execute(make_task(t, kind, work, c.clone()));
                        caller_event("C_Ret", 2, t);
                    }
                    Cmd::Stop => {
                        caller_event("C_Call", 3, 0);
                        pool.as_mut().unwrap().stop();
                        caller_event("C_Ret", 3, 0);
                    }
                    Cmd::Drop => {
                        lock().drop_called = true;
                        caller_event("C_Call", 4, 0);
                        drop(pool.take());
                        caller_event("C_Ret", 4, 0);
                    }
                    Cmd::Pause(us) => std::thread::sleep(Duration::from_micros(us)),
                    Cmd::Yield => std::thread::yield_now(),
                    Cmd::WaitTasks(k) => {
                        let t0 = Instant::now();
                        while t0.elapsed() < Duration::from_secs(20) {
                            let ok = (1..=k).all(|t| c.ran(t) >= 1 && (panics(kinds[t]) || c.done(t) >= 1));
                            if ok {
                                break;
                            }
                            std::thread::sleep(Duration::from_micros(100));
                        }
                    }
                }
                let mut st = lock();
                st.cret += 1;
                hh().cv.notify_all();
            }
        })
        .expect("spawn caller");
    (tx, h)
}

/// Waits until `pred` holds, for at most 1 s + 4 s + 15 s. Returns the seconds waited on failure.
fn wait_until<F: FnMut(&mut St) -> bool>(mut pred: F) -> Result<(), u64> {
    let h = hh();
    let mut st = lock();
    let t0 = Instant::now();
    for w in WAITS {
        let phase_end = Instant::now() + Duration::from_secs(w);
        loop {
            if pred(&mut st) {
                return Ok(());
            }
            if st.flood {
                return Err(t0.elapsed().as_secs());
            }
            let now = Instant::now();
            if now >= phase_end {
                break;
            }
            let (g, _) = h.cv.wait_timeout(st, phase_end - now).unwrap_or_else(|e| e.into_inner());
            st = g;
        }
    }
    Err(t0.elapsed().as_secs())
}

/// After drop has returned and the caller thread has been joined: wait until every submitted task has been
/// entered (the bodies count that themselves) and at most the `allowed` threads are left in /proc (main + one
/// service thread per start(): the recovery threads, which are not worker threads and may stay or go).  That is
/// the property's own criterion and uses no hook.  In addition - only to keep the hook log of this run complete,
/// and only for a bounded time - wait until every reported panic has been followed by a reported respawn whose
/// new thread has shown up (Rec_Respawn is reported just before the thread is created).
fn wait_quiescent(allowed: usize, submitted: usize, c: &Counters) -> Result<(), (usize, u64)> {
    let t0 = Instant::now();
    let total: u64 = WAITS.iter().sum();
    let mut stable = 0;
    let mut settled_at: Option<Instant> = None;
    loop {
        let recovered = {
            let st = lock();
            if st.flood {
                return Err((total_threads().saturating_sub(allowed), t0.elapsed().as_secs()));
            }
            let markers = st.events.iter().filter(|e| e.ev == "Marker_Send").count();
            let respawns = st.events.iter().filter(|e| e.ev == "Rec_Respawn").count();
            markers == respawns
                && st.events.iter().enumerate().filter(|(_, e)| e.ev == "Rec_Respawn").all(|(i, e)| st.events[i + 1..].iter().any(|f| f.th == e.a && f.g == e.g && f.ev == "Worker_Loop"))
        };
        let entered = (1..=submitted).all(|t| c.ran(t) >= 1);
        let threads = total_threads();
        if threads <= allowed && entered {
            let since = *settled_at.get_or_insert_with(Instant::now);
            if recovered || since.elapsed() > Duration::from_secs(3) {
                stable += 1;
                if stable >= 2 {
                    return Ok(());
                }
            }
        } else {
            stable = 0;
            settled_at = None;
        }
        if t0.elapsed() > Duration::from_secs(total) {
            return Err((threads.saturating_sub(allowed), t0.elapsed().as_secs()));
        }
        std::thread::sleep(Duration::from_micros(100));
    }
}

fn reset_state(gated: bool, perturb_seed: u64, perturb_pct: u64) {
    let mut st = lock();
    st.gated = gated;
    st.events.clear();
    st.pending.clear();
    st.parked.clear();
    st.permits.clear();
    st.cret = 0;
    st.cur_task = 0;
    st.chan_gen.clear();
    st.thread_gen.clear();
    st.thread_role.clear();
    st.cur_gen = 0;
    st.perturb_seed = perturb_seed;
    st.perturb_pct = perturb_pct;
    st.flood = false;
    st.drop_called = false;
    st.starts_called = 0;
}

fn flush_run(out: &mut std::fs::File, n: usize, tasks: usize, pan: &[i64]) {
    let st = lock();
    let mut buf = String::new();
    buf.push_str(&json!({"seq": 0, "th": DRIVER, "g": 0, "ev": "Reset", "a": n, "b": tasks, "p": pan}).to_string());
    buf.push('\n');
    let keep = if st.flood { 3000 } else { st.events.len() };
    let last = st.events.len().saturating_sub(1);
    for (i, e) in st.events.iter().enumerate() {
        if i < keep || i == last {
            buf.push_str(&e.json().to_string());
            buf.push('\n');
        }
    }
    out.write_all(buf.as_bytes()).expect("write trace");
}

// ------------------------------------------------------------------------------------------------
// random mode (binding C)
// ------------------------------------------------------------------------------------------------

fn random_mode(args: &[String]) {
    let runs: usize = args[0].parse().expect("runs");
    let mut out = std::fs::File::create(&args[1]).expect("create trace file");
    let max_n: usize = args.get(2).map(|s| s.parse().unwrap()).unwrap_or(8);
    let max_t: usize = args.get(3).map(|s| s.parse().unwrap()).unwrap_or(200);
    // "scale": every run uses many threads and hundreds of tasks (exact counts under real concurrency)
    let scale = args.get(4).map(|s| s == "scale").unwrap_or(false);
    let mut rng = Rng::from_env();
    let mut total_events = 0usize;
    let mut total_tasks = 0usize;
    let mut total_panics = 0usize;
    let mut shapes: HashMap<String, usize> = HashMap::new();
    let mut samples: Vec<Value> = Vec::new();
    let mut hang: Option<Value> = None;
    let mut runs_done = 0usize;
    let mut recovery_threads = 0usize;
    let mut fingerprints: Vec<String> = Vec::new();
    let mut monitored_runs = 0usize;
    let mut barrier_runs = 0usize;
    let mut restart_runs = 0usize;
    let mut outliving_runs = 0usize;
    for run in 0..runs {
        let n = if rng.chance(1, 2) { rng.range(1, 3.min(max_n)) } else { rng.range(1, max_n) };
        let n = if scale { rng.range((max_n / 2).max(1), max_n) } else { n };
        let started = scale || !rng.chance(1, 25);
        // one started run in three restarts the pool: (start execute* [stop]) two or three times, then drop
        let segments = if !started {
            0
        } else if !scale && rng.chance(1, 3) {
            rng.range(2, 3)
        } else {
            1
        };
        let tasks = if !started {
            0
        } else if scale {
            rng.range((max_t / 2).max(1), max_t)
        } else if segments > 1 {
            rng.range(1, 24.min(max_t))
        } else {
            match rng.below(10) {
                0 => 0,
                1..=5 => rng.range(1, 8.min(max_t)),
                6..=8 => rng.range(1, 40.min(max_t)),
                _ => rng.range(1, max_t),
            }
        };
        // one run in eight: exactly n tasks that all wait for each other - only n-fold parallelism gets them through
        let barrier_run = segments == 1 && !scale && rng.chance(1, 8);
        // half of them first submit up to n panicking tasks: the barrier then also shows that the pool is back
        // to n usable workers after the panics (without looking at any hook)
        let barrier_prefix = if barrier_run && rng.chance(1, 2) { rng.range(1, n) } else { 0 };
        let tasks = if barrier_run { barrier_prefix + n } else { tasks };
        let panic_pct = *rng.pick(&[0usize, 0, 10, 25, 50, 100]);
        let mut kinds: Vec<u8> = vec![0; tasks + 1];
        let mut works: Vec<u64> = vec![0; tasks + 1];
        for t in 1..=tasks {
            let p = rng.below(100) < panic_pct;
            let body = rng.below(3);
            kinds[t] = match (p, body) {
                (false, 0) => 0,
                (false, 1) => 2,
                (false, _) => 3,
                (true, 0) => 1,
                (true, 1) => 4,
                (true, _) => 5,
            };
            works[t] = rng.range(1, 300) as u64;
            if barrier_run {
                kinds[t] = if t <= barrier_prefix { 1 } else { 6 };
            }
        }
        // which segment each task is submitted in (non-decreasing); in a segment that is followed by another
        // start, up to two tasks SPAN the restart: they wait for the next start() and then panic (7) or return (8)
        let mut seg_of: Vec<usize> = vec![1; tasks + 1];
        let mut spanning = vec![false; segments + 1];
        if segments > 1 {
            let mut cuts: Vec<usize> = (1..segments).map(|_| rng.range(0, tasks)).collect();
            cuts.sort();
            for t in 1..=tasks {
                seg_of[t] = 1 + cuts.iter().filter(|c| **c < t).count();
            }
            for sg in 1..segments {
                let mine: Vec<usize> = (1..=tasks).filter(|t| seg_of[*t] == sg).collect();
                if mine.is_empty() || rng.chance(1, 4) {
                    continue;
                }
                for k in 0..rng.range(1, 2.min(mine.len())) {
                    let t = mine[k];
                    kinds[t] = if rng.chance(2, 3) { 7 } else { 8 };
                    works[t] = (sg + 1) as u64;
                    spanning[sg] = true;
                }
            }
        }
        // one run in five: the first one or two tasks of the last segment outlive stop() and drop()
        let outliving = segments >= 1 && !barrier_run && tasks > 0 && rng.chance(1, 5);
        if outliving {
            let mine: Vec<usize> = (1..=tasks).filter(|t| seg_of[*t] == segments).collect();
            if !mine.is_empty() {
                for k in 0..rng.range(1, 2.min(mine.len())) {
                    kinds[mine[k]] = if rng.chance(1, 2) { 9 } else { 10 };
                }
                spanning[segments] = true;
                outliving_runs += 1;
            }
        }
        let pan: Vec<i64> = (1..=tasks).filter(|t| panics(kinds[*t])).map(|t| t as i64).collect();
        let stops: Vec<bool> = (0..=segments).map(|_| rng.chance(1, 2)).collect();
        let double_stop: Vec<bool> = (0..=segments).map(|_| rng.chance(1, 6)).collect();
        let stop = segments > 0 && stops[segments];
        let wait_before = rng.below(3); // 0: none, 1: all tasks done, 2: short pause
        let pause_mid = rng.below(3);
        let perturb_pct = *rng.pick(&[0u64, 5, 20, 50]);
        reset_state(false, rng.next_u64(), perturb_pct);
        let counters = Counters::new(tasks);
        if barrier_run {
            counters.barrier.store(n as u32, Ordering::SeqCst);
            barrier_runs += 1;
        }
        if segments > 1 {
            restart_runs += 1;
        }
        let kinds_a = Arc::new(kinds.clone());
        let (tx, caller) = spawn_caller(counters.clone(), kinds_a);
        recovery_threads += segments;
        // a third of the runs without restart also listens to Humphrey's own monitor stream (hook-free second
        // source): the number of ThreadRestarted events per worker id must equal the model's incarnation counter
        let monitored = segments == 1 && rng.chance(1, 3);
        let (mon_tx, mon_rx) = channel::<Event>();
        let monitor = if monitored {
            Some(MonitorConfig::new(mon_tx).with_subscription_to(EventType::ThreadRestarted))
        } else {
            drop(mon_tx);
            None
        };
        let mut cmds: Vec<Cmd> = vec![Cmd::New(n, monitor)];
        let mut script = String::new();
        for sg in 1..=segments {
            cmds.push(Cmd::Start);
            script.push_str("start ");
            let mut any = false;
            for t in (1..=tasks).filter(|t| seg_of[*t] == sg) {
                any = true;
                cmds.push(Cmd::Exec(t as i64, kinds[t], works[t]));
                match rng.below(8) {
                    0 => cmds.push(Cmd::Yield),
                    1 => cmds.push(Cmd::Pause(rng.range(1, 200) as u64)),
                    _ => {}
                }
            }
            if any {
                script.push_str("execute* ");
            }
            let last_of_seg = (1..=tasks).filter(|t| seg_of[*t] <= sg).count();
            match wait_before {
                1 if !spanning[sg] => cmds.push(Cmd::WaitTasks(last_of_seg)),
                2 => cmds.push(Cmd::Pause(rng.range(1, 2000) as u64)),
                _ => {}
            }
            if stops[sg] {
                cmds.push(Cmd::Stop);
                script.push_str("stop ");
                if double_stop[sg] {
                    cmds.push(Cmd::Stop);
                    script.push_str("stop ");
                }
                match pause_mid {
                    1 => cmds.push(Cmd::Pause(rng.range(1, 2000) as u64)),
                    2 => cmds.push(Cmd::Yield),
                    _ => {}
                }
            }
        }
        cmds.push(Cmd::Drop);
        script.push_str("drop");
        let ncmds = cmds.len() as u64;
        let drop_index = ncmds - 1;
        for c in cmds {
            tx.send(c).ok();
        }
        let shape = format!("n={} {} wait={} panics={} span={}", n.min(4), script, wait_before,
                            if pan.is_empty() { 0 } else if pan.len() == tasks { 2 } else { 1 }, spanning.iter().filter(|x| **x).count());
        // the caller must get through its script, in particular through drop
        if let Err(waited) = wait_until(|st| st.cret >= ncmds) {
            let cret = lock().cret;
            driver_event("C_Hang", if cret >= drop_index { 1 } else { 3 }, cret as i64);
            flush_run(&mut out, n, tasks, &pan);
            hang = Some(json!({"run": run, "what": if cret >= drop_index { "drop() did not return" } else { "caller blocked before drop" },
                               "n": n, "tasks": tasks, "stop": stop, "started": started, "waited_s": waited, "script": script, "event_flood": lock().flood}));
            break;
        }
        drop(tx);
        caller.join().ok();
        // every worker thread must end, every submitted task must have been entered
        match wait_quiescent(1 + recovery_threads, tasks, &counters) {
            Ok(()) => {}
            Err((live, waited)) => {
                driver_event("C_Hang", 2, live as i64);
                flush_run(&mut out, n, tasks, &pan);
                hang = Some(json!({"run": run, "what": "after drop() returned: worker threads still alive, a panicked worker not replaced, or a submitted task never entered", "live": live,
                                   "n": n, "tasks": tasks, "stop": stop, "started": started, "waited_s": waited, "script": script, "event_flood": lock().flood}));
                break;
            }
        }
        if monitored {
            let respawns = lock().events.iter().filter(|e| e.ev == "Rec_Respawn").count();
            let mut restarted = vec![0i64; n];
            let mut seen = 0usize;
            let t0 = Instant::now();
            while seen < respawns && t0.elapsed() < Duration::from_secs(5) {
                if let Ok(ev) = mon_rx.recv_timeout(Duration::from_millis(20)) {
                    if ev.kind == EventType::ThreadRestarted {
                        let id = ev.info.as_deref().and_then(|i| i.split_whitespace().nth(1)).and_then(|x| x.parse::<usize>().ok());
                        if let Some(id) = id {
                            if id < n {
                                restarted[id] += 1;
                            }
                        }
                        seen += 1;
                    }
                }
            }
            while let Ok(ev) = mon_rx.try_recv() {
                if ev.kind == EventType::ThreadRestarted {
                    seen += 1; // more restarts than respawns: reported below through the count of worker 0
                    restarted[0] += 1;
                }
            }
            for (w, c) in restarted.iter().enumerate() {
                driver_event("Mon_Restarted", w as i64, *c);
            }
            monitored_runs += 1;
        }
        // exact counts from the task bodies themselves: entered exactly once, returned exactly once unless it panics
        let entered = (1..=tasks).filter(|t| counters.ran(*t) == 1 && counters.done(*t) == if panics(kinds[*t]) { 0 } else { 1 }).count();
        driver_event("Quiesced", entered as i64, total_threads().saturating_sub(1 + recovery_threads) as i64);
        flush_run(&mut out, n, tasks, &pan);
        let nev = lock().events.len();
        if tasks > 0 {
            // fingerprint of the interleaving (who reported what, in which order) - counted by the driver
            let st = lock();
            let mut bytes = Vec::with_capacity(st.events.len() * 8);
            for e in &st.events {
                bytes.extend_from_slice(format!("{}.{}:{}:{}:{};", e.g, e.th, e.ev, e.a, e.b).as_bytes());
            }
            fingerprints.push(format!("{:016x}", fnv64(&bytes)));
        }
        total_events += nev;
        total_tasks += tasks;
        total_panics += pan.len();
        *shapes.entry(shape).or_insert(0) += 1;
        if samples.len() < 3 {
            let st = lock();
            samples.push(json!({"n": n, "tasks": tasks, "panicking": pan, "script": script,
                                "first_events": st.events.iter().take(14).map(|e| format!("{}:{}({},{})", e.th, e.ev, e.a, e.b)).collect::<Vec<_>>()}));
        }
        runs_done += 1;
    }
    out_line(&json!({"summary": true, "mode": "random", "runs": runs_done, "events": total_events, "tasks": total_tasks,
                     "panicking_tasks": total_panics, "distinct_shapes": shapes.len(), "hang": hang, "samples": samples, "fingerprints": fingerprints,
                     "monitored_runs": monitored_runs, "barrier_runs": barrier_runs, "restart_runs": restart_runs, "outliving_runs": outliving_runs}));
    std::process::exit(0);
}

// ------------------------------------------------------------------------------------------------
// gated mode (binding D)
// ------------------------------------------------------------------------------------------------

fn grant(st: &mut St, th: i64) {
    *st.permits.entry(th).or_insert(0) += 1;
    hh().cv.notify_all();
}

/// Next not yet consumed event of thread `th`.  A thread parked at an already consumed event is released
/// (once).  `Worker_Loop` marks no model step: unless asked for, it is consumed and the thread released.
fn await_event(th: i64, want: &str, auto_release: bool) -> Result<Ev, u64> {
    let h = hh();
    let mut st = lock();
    let t0 = Instant::now();
    let mut released_at: Option<usize> = None;
    let mut phase = 0;
    let mut phase_end = Instant::now() + Duration::from_secs(WAITS[0]);
    loop {
        if let Some(idx) = st.pending.get_mut(&th).and_then(|q| q.pop_front()) {
            let e = st.events[idx].clone();
            if e.ev == "Worker_Loop" && want != "Worker_Loop" {
                grant(&mut st, th);
                released_at = Some(idx);
                continue;
            }
            return Ok(e);
        }
        if st.flood {
            return Err(t0.elapsed().as_secs());
        }
        if auto_release {
            if let Some(&idx) = st.parked.get(&th) {
                if released_at != Some(idx) {
                    grant(&mut st, th);
                    released_at = Some(idx);
                    continue;
                }
            }
        }
        let now = Instant::now();
        if now >= phase_end {
            phase += 1;
            if phase >= WAITS.len() {
                return Err(t0.elapsed().as_secs());
            }
            phase_end = now + Duration::from_secs(WAITS[phase]);
            continue;
        }
        let (g, _) = h.cv.wait_timeout(st, phase_end - now).unwrap_or_else(|e| e.into_inner());
        st = g;
    }
}

fn release_if_parked(th: i64) {
    let mut st = lock();
    if st.parked.contains_key(&th) {
        grant(&mut st, th);
    }
}

/// Events that may be present without the model having taken the corresponding step yet: each follows a
/// point that is passed without waiting (or a thread start / a blocking receive that has become possible).
fn may_be_early(name: &str) -> bool {
    matches!(name, "Worker_Loop" | "Task_Start" | "Worker_Exit" | "Rec_Wake" | "Pool_DropEnd")
}

struct Proj {
    cpc: String,
    wpc: Vec<Vec<String>>, // [generation - 1][worker]
    ran: Vec<i64>,
    done: Vec<i64>,
}

fn run_behaviour(id: i64, b: &Value, out: &mut std::fs::File, div: &mut std::fs::File, recovery_threads: &mut usize) -> Value {
    let n = b["n"].as_u64().unwrap() as usize;
    let tasks = b["tasks"].as_u64().unwrap() as usize;
    let pan_flags: Vec<bool> = b["pan"].as_array().unwrap().iter().map(|x| x.as_bool().unwrap()).collect();
    let pan: Vec<i64> = (1..=tasks).filter(|t| pan_flags[*t - 1]).map(|t| t as i64).collect();
    let complete = b["complete"].as_bool().unwrap_or(false);
    let gens = b["gens"].as_u64().unwrap_or(1) as usize;
    let steps = b["steps"].as_array().unwrap();
    let mut kinds = vec![0u8; tasks + 1];
    for t in 1..=tasks {
        kinds[t] = if pan_flags[t - 1] { 1 } else { 0 };
    }
    reset_state(true, 0, 0);
    let counters = Counters::new(tasks);
    let (tx, caller) = spawn_caller(counters.clone(), Arc::new(kinds.clone()));
    let mut caller = Some(caller);
    let mut sent: u64 = 0;
    let send = |c: Cmd, sent: &mut u64| {
        tx.send(c).ok();
        *sent += 1;
    };
    send(Cmd::New(n, None), &mut sent);
    let mut proj = Proj { cpc: "new".into(), wpc: vec![vec!["absent".into(); n]; gens], ran: vec![0; tasks], done: vec![0; tasks] };
    let mut fail: Option<Value> = None;
    let mut done_steps = 0usize;
    let mut last_cpc = String::from("new");

    'steps: for (i, s) in steps.iter().enumerate() {
        let a = s["a"].as_str().unwrap();
        let w = s["w"].as_i64().unwrap();
        let x = s["x"].as_i64().unwrap();
        let g = s["g"].as_i64().unwrap_or(1);
        let gi = (g.max(1) - 1) as usize;
        let wk = key(w, g);
        let rk = key(RECOVERY, g);
        macro_rules! fail {
            ($kind:expr, $detail:expr) => {{
                fail = Some(json!({"kind": $kind, "step": i, "action": a, "w": w, "x": x, "detail": $detail}));
                break 'steps;
            }};
        }
        macro_rules! expect {
            ($th:expr, $name:expr, $auto:expr, $ea:expr, $eb:expr) => {{
                match await_event($th, $name, $auto) {
                    Err(waited) => fail!("hang", format!("no {} from thread {} after {} s: the real code blocks where the model does not", $name, $th, waited)),
                    Ok(e) => {
                        let ea: Option<i64> = $ea;
                        let eb: Option<i64> = $eb;
                        if e.ev != $name || ea.map_or(false, |v| v != e.a) || eb.map_or(false, |v| v != e.b) {
                            fail!("mismatch", format!("expected {}({:?},{:?}) from thread {}, the code reported {}({},{})", $name, ea, eb, $th, e.ev, e.a, e.b));
                        }
                        e
                    }
                }
            }};
        }
        macro_rules! caller_returns {
            () => {{
                let target = sent;
                if let Err(waited) = wait_until(|st| st.cret >= target) {
                    fail!("hang", format!("the caller did not return from {} after {} s", a, waited));
                }
            }};
        }
        match a {
            "Pool_Start" => {
                *recovery_threads += 1;
                send(Cmd::Start, &mut sent);
                expect!(CALLER, "Pool_Start", false, Some(x), None);
                caller_returns!();
                for k in 0..n {
                    proj.wpc[gi][k] = "idle".into();
                }
                proj.cpc = "started".into();
            }
            "Pool_Execute" => {
                send(Cmd::Exec(x, kinds[x as usize], 0), &mut sent);
                expect!(CALLER, "Pool_Execute", false, Some(x), None);
                caller_returns!();
            }
            "Pool_Stop" => {
                send(Cmd::Stop, &mut sent);
                expect!(CALLER, "Pool_Stop", false, None, None);
                caller_returns!();
                proj.cpc = "stopped".into();
            }
            "Pool_DropBegin" => {
                send(Cmd::Drop, &mut sent);
                expect!(CALLER, "Pool_DropBegin", false, Some(x), None);
                proj.cpc = "dropping".into();
            }
            "Pool_DropHandles" => {
                release_if_parked(CALLER);
                for k in 0..x {
                    expect!(CALLER, "Pool_DropHandle", false, Some(k), None);
                }
                proj.cpc = "dropped".into();
            }
            "Pool_DropEnd" => {
                expect!(CALLER, "Pool_DropEnd", false, None, None);
                release_if_parked(CALLER);
                caller_returns!();
                proj.cpc = "done".into();
            }
            "Worker_Lock" => {
                expect!(wk, "Worker_Lock", true, Some(w), Some(x));
                proj.wpc[gi][w as usize] = if x == 0 { "recv".into() } else { "exited".into() };
            }
            "Worker_Recv" => {
                expect!(wk, "Worker_Recv", true, Some(w), Some(x));
                proj.wpc[gi][w as usize] = if x == 0 { "got".into() } else { "exited".into() };
            }
            "Worker_Run" => {
                expect!(wk, "Task_Start", true, Some(x), None);
                proj.wpc[gi][w as usize] = "run".into();
                proj.ran[x as usize - 1] += 1;
            }
            "Worker_Finish" => {
                expect!(wk, "Task_End", true, Some(x), None);
                proj.wpc[gi][w as usize] = "idle".into();
                proj.done[x as usize - 1] += 1;
            }
            "Worker_Panic" => {
                expect!(wk, "Marker_Send", true, Some(w), None);
                // the send itself happens between the two points: wait for it, so that the order of the
                // recovery channel is the order of the model's Worker_Panic steps
                expect!(wk, "Marker_Sent", false, Some(w), None);
                proj.wpc[gi][w as usize] = "unwinding".into();
            }
            "Worker_Die" => {}
            "Rec_Wake" => {
                expect!(rk, "Rec_Wake", true, Some(w), None);
            }
            "Rec_Recv" => {
                expect!(rk, "Rec_Recv", true, Some(w), None);
            }
            "Rec_Join" => {
                expect!(rk, "Rec_Joined", true, Some(w), Some(x));
            }
            "Rec_Respawn" => {
                expect!(rk, "Rec_Respawn", true, Some(w), None);
                proj.wpc[gi][w as usize] = "idle".into();
            }
            other => fail!("harness", format!("unknown action {}", other)),
        }
        // nothing else may have happened: every unconsumed event is one that can legitimately be early
        let unexpected: Option<String> = {
            let st = lock();
            let mut found = None;
            for (th, qd) in st.pending.iter() {
                for idx in qd {
                    let e = &st.events[*idx];
                    if !may_be_early(e.ev) && found.is_none() {
                        found = Some(format!("thread {} reported {}({},{}) although the model has not taken that step", th, e.ev, e.a, e.b));
                    }
                }
            }
            found
        };
        if let Some(d) = unexpected {
            fail!("unexpected", d);
        }
        // projected state after the step
        if let Some(ms) = s.get("s") {
            let mw: Vec<Vec<String>> = ms["wpc"].as_array().unwrap().iter()
                .map(|gv| gv.as_array().unwrap().iter().map(|v| v.as_str().unwrap().replace("dead", "unwinding")).collect()).collect();
            let mr: Vec<i64> = ms["ran"].as_array().unwrap().iter().map(|v| v.as_i64().unwrap()).collect();
            let md: Vec<i64> = ms["done"].as_array().unwrap().iter().map(|v| v.as_i64().unwrap()).collect();
            let mc = ms["cpc"].as_str().unwrap();
            if mw != proj.wpc || mr != proj.ran || md != proj.done || mc != proj.cpc {
                fail!("state", format!("model {} {:?} ran {:?} done {:?}; code {} {:?} ran {:?} done {:?}", mc, mw, mr, md, proj.cpc, proj.wpc, proj.ran, proj.done));
            }
            last_cpc = mc.to_string();
        } else {
            last_cpc = proj.cpc.clone();
        }
        done_steps = i + 1;
    }

    // Leave gated mode: every parked thread goes on by itself.  This is also done when the real code did not
    // follow the model's schedule (a divergence): the rest of the lifecycle is then run freely, and whether the
    // run as a whole satisfies the property is decided from its log by the property-level judge.
    let diverged = fail.take();
    {
        let mut st = lock();
        st.gated = false;
        hh().cv.notify_all();
    }
    let mut drop_sent = steps.iter().take(done_steps + if diverged.is_some() { 1 } else { 0 }).any(|s| s["a"] == "Pool_DropBegin");
    if diverged.is_some() {
        for s in steps.iter().skip(done_steps + 1) {
            let x = s["x"].as_i64().unwrap_or(0);
            match s["a"].as_str().unwrap_or("") {
                "Pool_Start" => {
                    *recovery_threads += 1;
                    send(Cmd::Start, &mut sent);
                }
                "Pool_Execute" => send(Cmd::Exec(x, kinds[x as usize], 0), &mut sent),
                "Pool_Stop" => send(Cmd::Stop, &mut sent),
                "Pool_DropBegin" => {
                    send(Cmd::Drop, &mut sent);
                    drop_sent = true;
                }
                _ => {}
            }
        }
        if !drop_sent {
            send(Cmd::Drop, &mut sent);
        }
    } else if !complete {
        // finish the lifecycle freely; the rest of the run is judged by the trace validation
        match last_cpc.as_str() {
            "new" | "stopped" => send(Cmd::Drop, &mut sent),
            "started" => {
                let with_stop = match b["finish"].as_str() {
                    Some("stop") => true,
                    Some("drop") => false,
                    _ => id % 2 == 0,
                };
                if with_stop {
                    send(Cmd::Stop, &mut sent);
                }
                send(Cmd::Drop, &mut sent);
            }
            _ => {}
        }
    }
    let target = sent;
    let mut hang: Option<Value> = None;
    if let Err(waited) = wait_until(|st| st.cret >= target) {
        let cret = lock().cret as i64;
        driver_event("C_Hang", 1, cret);
        hang = Some(json!({"kind": "hang", "step": done_steps, "action": "finish", "detail": format!("the caller did not get through stop()/drop() after {} s", waited)}));
    } else if let Err((live, waited)) = {
        drop(tx);
        caller.take().map(|c| c.join().ok());
        let submitted = lock().events.iter().filter(|e| e.ev == "C_Call" && e.a == 2).count();
        wait_quiescent(1 + *recovery_threads, submitted, &counters)
    } {
        driver_event("C_Hang", 2, live as i64);
        hang = Some(json!({"kind": "hang", "step": done_steps, "action": "exit",
                           "detail": format!("{} s after drop() returned: {} thread(s) too many, or a submitted task never entered", waited, live)}));
    } else {
        // exact counts from the task bodies themselves; judged by TLC (Quiesced.a must equal the number of submitted tasks)
        let entered = (1..=tasks).filter(|t| counters.ran(*t) == 1 && counters.done(*t) == if pan_flags[*t - 1] { 0 } else { 1 }).count();
        driver_event("Quiesced", entered as i64, total_threads().saturating_sub(1 + *recovery_threads) as i64);
    }
    if diverged.is_some() || hang.is_some() {
        flush_run(div, n, tasks, &pan);
    } else {
        flush_run(out, n, tasks, &pan);
    }
    let nev = lock().events.len();
    let st = lock();
    let tail: Vec<String> = st.events.iter().rev().take(12).rev().map(|e| format!("{}.{}:{}({},{})", e.g, e.th, e.ev, e.a, e.b)).collect();
    match (diverged, hang) {
        (None, None) => json!({"id": id, "ok": true, "steps": done_steps, "events": nev}),
        (d, h) => json!({"id": id, "ok": false, "steps": done_steps, "events": nev, "diverged": d, "hang": h,
                         "completed": h.is_none(), "last_events": tail}),
    }
}

fn gated_mode(args: &[String]) {
    let mut out = std::fs::File::create(&args[0]).expect("create trace file");
    // logs of runs that left the model's schedule (or hung): judged separately, at the level of the property
    let mut div = std::fs::File::create(format!("{}.div", args[0])).expect("create trace file");
    let mut ok = 0usize;
    let mut failed = 0usize;
    let mut steps = 0usize;
    let mut read = 0usize;
    let mut recovery_threads = 0usize;
    for line in stdin_lines() {
        let line = line.trim().to_string();
        if !line.starts_with('{') {
            continue;
        }
        let b: Value = serde_json::from_str(&line).expect("behaviour json");
        let id = b["id"].as_i64().unwrap_or(read as i64);
        read += 1;
        let r = run_behaviour(id, &b, &mut out, &mut div, &mut recovery_threads);
        steps += r["steps"].as_u64().unwrap() as usize;
        let good = r["ok"].as_bool().unwrap();
        if !good {
            failed += 1;
            out_line(&r);
            // a run that did not complete leaves threads blocked inside the pool: do not reuse the process;
            // three divergences are enough (each may have cost the full escalating wait)
            if !r["completed"].as_bool().unwrap_or(false) || failed >= 3 {
                break;
            }
            continue;
        }
        ok += 1;
        out_line(&json!({"id": id, "ok": true})); // progress: tells the driver where a crash happened
    }
    out_line(&json!({"summary": true, "mode": "gated", "behaviours": read, "ok": ok, "failed": failed, "steps": steps}));
    std::process::exit(0);
}

fn main() {
    quiet_panics();
    let _ = seed_from_env();
    humphrey::verif::set_hook(Some(Arc::new(record)));
    let args: Vec<String> = std::env::args().skip(1).collect();
    match args.first().map(|s| s.as_str()) {
        Some("random") => random_mode(&args[1..]),
        Some("gated") => gated_mode(&args[1..]),
        _ => {
            eprintln!("usage: pool random <runs> <out.ndjson> [maxN] [maxTasks] | pool gated <out.ndjson> < behaviours.jsonl");
            std::process::exit(2);
        }
    }
}
