//! C20 conformance harness, threaded runtime: the real `humphrey::App` with a shutdown receiver
//! (`App::with_shutdown`), run in a thread of this process, driven by scenario scripts (see common.rs).
//!
//!   shutdown matrix <n>   n seeded random scenarios of the property's traffic-state matrix
//!   shutdown races        the gated races of DESIGN C20 (method D)
//!   shutdown replay       stdin: behaviours printed by TLC (Gen_Shutdown), replayed step by step with gates
//! Output: one JSON line per scenario with the event log (validated by TLC, Trace_Shutdown.tla).
mod util_reexport {
    pub use hv::util::*;
}
mod common;
use common::*;

use humphrey::http::{Request, Response, StatusCode};
use humphrey::stream::Stream;
use humphrey::App;
use std::io::Read;
use std::sync::mpsc;
use std::sync::Arc;

struct St(Arc<Ctx>);

fn handler(req: Request, st: Arc<St>) -> Response {
    let (c, m) = parse_query(&req.query);
    let th = format!("hdl{}", c);
    st.0.record("H_Read", &th, c, 0, "");
    if m == "l" || m == "L" {
        st.0.wait_finish(c);
    }
    let body = body_for(c, &m);
    st.0.record("H_Finish", &th, c, 0, "");
    Response::new(StatusCode::OK, body)
}

fn ws_handler(req: Request, mut stream: Stream, st: Arc<St>) {
    let (c, _) = parse_query(&req.query);
    st.0.record("H_Read", &format!("hdl{}", c), c, 0, "ws");
    let mut buf = [0u8; 256];
    loop {
        match stream.read(&mut buf) {
            Ok(0) | Err(_) => break,
            Ok(_) => {}
        }
    }
}

fn start(cfg: &Cfg, ctx: Arc<Ctx>, port: u16) -> Server {
    let (tx, rx) = mpsc::channel::<()>();
    let app: App<St> = App::new_with_config(cfg.nw, St(ctx.clone()))
        .with_shutdown(rx)
        .with_route("/h", handler)
        .with_websocket_route("/w", ws_handler);
    let addr = if cfg.bind.contains(':') { format!("[{}]:{}", cfg.bind, port) } else { format!("{}:{}", cfg.bind, port) };
    let ctx2 = ctx.clone();
    let bind = cfg.bind.clone();
    std::thread::spawn(move || {
        let r = std::panic::catch_unwind(std::panic::AssertUnwindSafe(move || app.run(addr).is_ok()));
        // Run_Return, then the same address is bound again at once
        after_return(&ctx2, &bind, port, matches!(r, Ok(true)));
    });
    let drop_it = cfg.sigkind == "drop";
    let mut tx = Some(tx);
    Server {
        signal: Box::new(move || {
            if drop_it {
                tx.take();
            } else if let Some(t) = tx.as_ref() {
                // a second signal finds the receiver gone once run has consumed the first: the error is ignored
                let _ = t.send(());
            }
        }),
    }
}

fn main() {
    main_with("threaded", start);
}
