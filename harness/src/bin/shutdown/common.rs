//! C20 conformance, runtime-independent part (shared by harness/src/bin/shutdown/main.rs - threaded - and
//! harness-tokio/src/bin/shutdown.rs - tokio): event log, gates, reference clients, scenario scripts,
//! the scenario executor and the scenario generators.
//!
//! A scenario is a configuration (runtime, pool size, bind address, number of connections) plus a script
//! of steps.  The executor runs the REAL `App::run` in a thread of this process, performs the steps,
//! always finishes with the same epilogue (signal if not yet sent -> wait for run to return with
//! escalating waits 1 s / 4 s / 15 s -> listener gone? -> re-bind the port -> let every handler finish ->
//! read every outstanding response to completion -> close) and prints the event log.  The log is
//! validated by TLC (Trace_Shutdown.tla); this program takes no decision about the property.
#![allow(dead_code)]
use serde_json::{json, Value};
use std::collections::{HashMap, HashSet};
use std::io::{Read, Write};
use std::net::{SocketAddr, TcpListener, TcpStream};
use std::sync::atomic::{AtomicUsize, Ordering};
use std::sync::{Arc, Condvar, Mutex};
use std::time::{Duration, Instant};

pub const WAITS_MS: [u64; 3] = [1000, 4000, 15000];
pub const BIG_BODY: usize = 24 << 20;

// ------------------------------------------------------------------------------------------- log
#[derive(Clone, Debug)]
pub struct Ev {
    pub ev: String,
    pub th: String,
    pub c: i64,
    pub v: i64,
    pub k: String,
}

#[derive(Clone, Copy, PartialEq, Debug)]
pub enum Mode {
    Free,
    StepAll,
    HoldAt(&'static str),
}

pub struct Gates {
    pub mode: HashMap<&'static str, Mode>,
    pub tokens: HashMap<&'static str, usize>,
    pub parked: HashMap<&'static str, bool>,
}

pub struct Ctx {
    pub log: Mutex<Vec<Ev>>,
    pub log_cv: Condvar,
    pub gates: Mutex<Gates>,
    pub gates_cv: Condvar,
    pub fin: Mutex<(bool, HashSet<i64>)>,
    pub fin_cv: Condvar,
    pub wait_level: AtomicUsize,
    // descriptor exhaustion ("accept fails while the signal arrives")
    pub acc_errs: AtomicUsize,              // failed accepts reported by the Accept_Return hook (a = -1)
    pub acc_err_state: AtomicUsize,         // 0 none pending, 1 pending and logged, 2 pending and not logged (accept thread only)
    pub fillers: Mutex<(Vec<i32>, Option<libc::rlimit>)>, // dummy descriptors that fill the table; the limit to restore
}

/// hook points of C20 (app.rs / tokio/app.rs `run`); points of other subsystems are ignored
pub const MY_POINTS: [&str; 9] = ["Accept_Return", "Flag_Read", "Dispatch", "Loop_Exit", "Acc_PoolStopped", "Pool_Stop",
    "Sig_Recv", "Flag_Set", "Wake_Connect"];

pub fn class_of(name: &str) -> &'static str {
    match name {
        "Accept_Return" | "Flag_Read" | "Dispatch" | "Loop_Exit" | "Acc_PoolStopped" | "Pool_Stop" => "acc",
        "Sig_Recv" | "Flag_Set" | "Wake_Connect" | "Run_Return" => "main",
        _ => "drv",
    }
}

impl Ctx {
    pub fn new() -> Arc<Ctx> {
        let mut mode = HashMap::new();
        let mut tokens = HashMap::new();
        let mut parked = HashMap::new();
        for c in ["acc", "main"] {
            mode.insert(c, Mode::Free);
            tokens.insert(c, 0usize);
            parked.insert(c, false);
        }
        Arc::new(Ctx {
            log: Mutex::new(Vec::new()),
            log_cv: Condvar::new(),
            gates: Mutex::new(Gates { mode, tokens, parked }),
            gates_cv: Condvar::new(),
            fin: Mutex::new((false, HashSet::new())),
            fin_cv: Condvar::new(),
            wait_level: AtomicUsize::new(0),
            acc_errs: AtomicUsize::new(0),
            acc_err_state: AtomicUsize::new(0),
            fillers: Mutex::new((Vec::new(), None)),
        })
    }

    pub fn record(&self, ev: &str, th: &str, c: i64, v: i64, k: &str) -> usize {
        let mut l = self.log.lock().unwrap();
        l.push(Ev { ev: ev.to_string(), th: th.to_string(), c, v, k: k.to_string() });
        let n = l.len();
        drop(l);
        self.log_cv.notify_all();
        n
    }

    /// Called from humphrey::verif::point on the thread that reached the point: record, then park if gated.
    pub fn hook(&self, name: &'static str, a: i64, _b: i64) {
        // the pool's own "Pool_Stop" point (thread/pool.rs) is not ours; ours is Acc_PoolStopped, logged as Pool_Stop
        if name == "Pool_Stop" || !MY_POINTS.contains(&name) {
            return;
        }
        let name: &'static str = if name == "Acc_PoolStopped" { "Pool_Stop" } else { name };
        let class = class_of(name);
        // accept() returned an error (no peer).  While the descriptor table is full the loop of the unchanged code
        // spins (millions of rounds): only the first failed accept of a scenario is logged (as Accept_Error, with the
        // Flag_Read that follows it) and the one after which Flag_Read reports the flag set; the others are counted.
        if name == "Accept_Return" && a < 0 {
            let n = self.acc_errs.fetch_add(1, Ordering::SeqCst);
            if n == 0 {
                self.acc_err_state.store(1, Ordering::SeqCst);
                self.record("Accept_Error", class, -1, 0, "");
            } else {
                self.acc_err_state.store(2, Ordering::SeqCst);
            }
            return;
        }
        if name == "Flag_Read" && self.acc_err_state.swap(0, Ordering::SeqCst) == 2 {
            if a == 0 {
                return;
            }
            self.record("Accept_Error", class, -1, 0, "");
        }
        self.record(name, class, -1, a, "");
        let mut g = self.gates.lock().unwrap();
        loop {
            let m = *g.mode.get(class).unwrap_or(&Mode::Free);
            let gated = match m {
                Mode::Free => false,
                Mode::StepAll => true,
                Mode::HoldAt(p) => p == name,
            };
            if !gated {
                break;
            }
            let t = g.tokens.get_mut(class).unwrap();
            if *t > 0 {
                *t -= 1;
                break;
            }
            g.parked.insert(class, true);
            self.gates_cv.notify_all();
            g = self.gates_cv.wait(g).unwrap();
        }
        g.parked.insert(class, false);
    }

    pub fn set_mode(&self, class: &'static str, m: Mode) {
        let mut g = self.gates.lock().unwrap();
        g.mode.insert(class, m);
        drop(g);
        self.gates_cv.notify_all();
    }
    pub fn grant(&self, class: &'static str) {
        let mut g = self.gates.lock().unwrap();
        *g.tokens.get_mut(class).unwrap() += 1;
        drop(g);
        self.gates_cv.notify_all();
    }
    pub fn is_parked(&self, class: &'static str) -> bool {
        *self.gates.lock().unwrap().parked.get(class).unwrap_or(&false)
    }
    pub fn free_all(&self) {
        self.set_mode("acc", Mode::Free);
        self.set_mode("main", Mode::Free);
    }

    // handler gates ---------------------------------------------------------------------------
    pub fn finish(&self, c: i64) {
        self.fin.lock().unwrap().1.insert(c);
        self.fin_cv.notify_all();
    }
    pub fn finish_all(&self) {
        self.fin.lock().unwrap().0 = true;
        self.fin_cv.notify_all();
    }
    pub fn may_finish(&self, c: i64) -> bool {
        let f = self.fin.lock().unwrap();
        f.0 || f.1.contains(&c)
    }
    /// blocking wait (threaded handlers, and deliberately blocking tokio handlers)
    pub fn wait_finish(&self, c: i64) {
        let mut f = self.fin.lock().unwrap();
        while !(f.0 || f.1.contains(&c)) {
            f = self.fin_cv.wait(f).unwrap();
        }
    }

    // waiting with escalation -------------------------------------------------------------------
    /// Waits until an event at index >= from satisfies pred; escalating waits; None = did not happen.
    pub fn wait_event<F: Fn(&Ev) -> bool>(&self, from: usize, pred: F) -> Option<usize> {
        let start = Instant::now();
        let mut l = self.log.lock().unwrap();
        let mut level = 0usize;
        let mut deadline = start + Duration::from_millis(WAITS_MS[0]);
        loop {
            if let Some(i) = l.iter().enumerate().skip(from).find(|(_, e)| pred(e)).map(|(i, _)| i) {
                self.wait_level.fetch_max(level, Ordering::SeqCst);
                return Some(i);
            }
            let now = Instant::now();
            if now >= deadline {
                level += 1;
                if level >= WAITS_MS.len() {
                    self.wait_level.fetch_max(level, Ordering::SeqCst);
                    return None;
                }
                deadline = now + Duration::from_millis(WAITS_MS[level]);
                continue;
            }
            let (g, _) = self.log_cv.wait_timeout(l, deadline - now).unwrap();
            l = g;
        }
    }
    pub fn log_len(&self) -> usize {
        self.log.lock().unwrap().len()
    }
    pub fn has_event(&self, name: &str) -> bool {
        self.log.lock().unwrap().iter().any(|e| e.ev == name)
    }
}

/// escalating wait on an arbitrary condition (polling)
pub fn wait_cond<F: FnMut() -> bool>(ctx: &Ctx, mut f: F) -> bool {
    let mut level = 0;
    let mut deadline = Instant::now() + Duration::from_millis(WAITS_MS[0]);
    loop {
        if f() {
            ctx.wait_level.fetch_max(level, Ordering::SeqCst);
            return true;
        }
        if Instant::now() >= deadline {
            level += 1;
            if level >= WAITS_MS.len() {
                ctx.wait_level.fetch_max(level, Ordering::SeqCst);
                return false;
            }
            deadline = Instant::now() + Duration::from_millis(WAITS_MS[level]);
        }
        std::thread::sleep(Duration::from_millis(2));
    }
}

// -------------------------------------------------------------------------- /proc/net listener
/// Is there a socket in LISTEN state on `port` (IPv4 or IPv6)?  Non-intrusive observation of the listener.
pub fn listening(port: u16) -> bool {
    for f in ["/proc/net/tcp", "/proc/net/tcp6"] {
        if let Ok(s) = std::fs::read_to_string(f) {
            for line in s.lines().skip(1) {
                let mut it = line.split_whitespace();
                let _sl = it.next();
                let local = it.next().unwrap_or("");
                let _rem = it.next();
                let st = it.next().unwrap_or("");
                if st == "0A" {
                    if let Some(p) = local.rsplit(':').next() {
                        if u16::from_str_radix(p, 16).ok() == Some(port) {
                            return true;
                        }
                    }
                }
            }
        }
    }
    false
}

/// Port for one scenario: below the ephemeral range, chosen from a per-process stream (the port is not part
/// of the case; two harness processes with the same VERIF_SEED must not pick the same ports).
pub fn pick_port(_rng: &mut hvutil::Rng) -> u16 {
    static PORT_RNG: Mutex<Option<hvutil::Rng>> = Mutex::new(None);
    let mut g = PORT_RNG.lock().unwrap();
    if g.is_none() {
        let t = std::time::SystemTime::now().duration_since(std::time::UNIX_EPOCH).map(|d| d.subsec_nanos() as u64).unwrap_or(0);
        *g = Some(hvutil::Rng::new(((std::process::id() as u64) << 32) ^ t));
    }
    let rng = g.as_mut().unwrap();
    for _ in 0..400 {
        let p = 10240 + (rng.below(21000) as u16);
        if listening(p) {
            continue;
        }
        if let Ok(l) = TcpListener::bind(("127.0.0.1", p)) {
            drop(l);
            if let Ok(l6) = TcpListener::bind(("::", p)) {
                drop(l6);
                return p;
            }
        }
    }
    panic!("no free port found");
}


// ---------------------------------------------------------------------- the port after run returned
/// inodes of the sockets in LISTEN state on `port`
fn listen_inodes(port: u16) -> Vec<String> {
    let mut v = vec![];
    for f in ["/proc/net/tcp", "/proc/net/tcp6"] {
        if let Ok(s) = std::fs::read_to_string(f) {
            for line in s.lines().skip(1) {
                let cols: Vec<&str> = line.split_whitespace().collect();
                if cols.len() > 9 && cols[3] == "0A" {
                    if let Some(p) = cols[1].rsplit(':').next() {
                        if u16::from_str_radix(p, 16).ok() == Some(port) {
                            v.push(cols[9].to_string());
                        }
                    }
                }
            }
        }
    }
    v
}

fn own_socket(inode: &str) -> bool {
    let want = format!("socket:[{}]", inode);
    if let Ok(rd) = std::fs::read_dir("/proc/self/fd") {
        for e in rd.flatten() {
            if let Ok(t) = std::fs::read_link(e.path()) {
                if t.to_string_lossy() == want {
                    return true;
                }
            }
        }
    }
    false
}

pub fn bind_addr(bind: &str, port: u16) -> SocketAddr {
    if bind.contains(':') { format!("[{}]:{}", bind, port) } else { format!("{}:{}", bind, port) }.parse().unwrap()
}

/// Called by the thread that called `run`, as its very next statements: records Run_Return and binds the same
/// address again AT ONCE (no wait, no retry).  A failed bind is a fact about this process when the socket
/// listening on the port is our own (or nobody listens); when another process has taken the port in the
/// meantime nothing is recorded.
pub fn after_return(ctx: &Ctx, bind: &str, port: u16, ok: bool) {
    ctx.record("Run_Return", "main", -1, if ok { 1 } else { 0 }, "");
    // run has returned: the descriptor fault of the scenario (if any) ends here, BEFORE the port is bound again -
    // binding needs a descriptor of this process, and "no descriptor" says nothing about the port
    release_fds(ctx);
    if !ok {
        return;
    }
    let r = TcpListener::bind(bind_addr(bind, port));
    match r {
        Ok(l) => {
            ctx.record("Rebind", "main", -1, 1, "");
            drop(l);
        }
        Err(_) => {
            let ino = listen_inodes(port);
            if ino.is_empty() || ino.iter().any(|i| own_socket(i)) {
                ctx.record("Rebind", "main", -1, 0, "");
            }
        }
    }
}

// ------------------------------------------------------------------- descriptor exhaustion
fn highest_fd() -> u64 {
    std::fs::read_dir("/proc/self/fd").ok()
        .and_then(|rd| rd.filter_map(|e| e.ok()?.file_name().to_str()?.parse::<u64>().ok()).max())
        .unwrap_or(256)
}

/// Fills the descriptor table of this process with duplicates of one /dev/null descriptor and leaves exactly `free`
/// slots.  The soft RLIMIT_NOFILE is first lowered to just above the highest descriptor in use, so that a few dozen
/// duplicates are enough.  Returns false when the table could not be filled (nothing is held then).
pub fn fill_fds(ctx: &Ctx, free: usize) -> bool {
    let mut g = ctx.fillers.lock().unwrap();
    if !g.0.is_empty() {
        return true;
    }
    unsafe {
        let mut old: libc::rlimit = std::mem::zeroed();
        if libc::getrlimit(libc::RLIMIT_NOFILE, &mut old) != 0 {
            return false;
        }
        let want = (highest_fd() + 1 + 48).min(old.rlim_cur);
        let low = libc::rlimit { rlim_cur: want, rlim_max: old.rlim_max };
        if libc::setrlimit(libc::RLIMIT_NOFILE, &low) != 0 {
            return false;
        }
        g.1 = Some(old);
        let base = libc::open(b"/dev/null\0".as_ptr() as *const libc::c_char, libc::O_RDONLY | libc::O_CLOEXEC);
        if base < 0 {
            libc::setrlimit(libc::RLIMIT_NOFILE, &old);
            g.1 = None;
            return false;
        }
        g.0.push(base);
        let mut full = false;
        for _ in 0..100_000 {
            let d = libc::fcntl(base, libc::F_DUPFD_CLOEXEC, 0);
            if d < 0 {
                full = true;
                break;
            }
            g.0.push(d);
        }
        if !full || g.0.len() <= free {
            drop(g);
            release_fds(ctx);
            return false;
        }
        for _ in 0..free {
            let d = g.0.pop().unwrap();
            libc::close(d);
        }
    }
    true
}

/// Is the table full right now (own attempt to get one more descriptor fails)?
pub fn fds_full(ctx: &Ctx) -> bool {
    let g = ctx.fillers.lock().unwrap();
    match g.0.first() {
        None => false,
        Some(&base) => unsafe {
            let d = libc::fcntl(base, libc::F_DUPFD_CLOEXEC, 0);
            if d >= 0 {
                libc::close(d);
                false
            } else {
                true
            }
        },
    }
}

/// Ends the fault: closes the dummy descriptors and restores the limit (idempotent; logs Fd_Recover once).
pub fn release_fds(ctx: &Ctx) {
    let mut g = ctx.fillers.lock().unwrap();
    let had = !g.0.is_empty();
    for d in g.0.drain(..) {
        unsafe { libc::close(d); }
    }
    if let Some(old) = g.1.take() {
        unsafe { libc::setrlimit(libc::RLIMIT_NOFILE, &old); }
    }
    drop(g);
    if had {
        ctx.record("Fd_Recover", "drv", -1, 0, "");
    }
}

// ------------------------------------------------------------------------------------- scenario
#[derive(Clone, Debug)]
pub struct Cfg {
    pub id: String,
    pub rt: String,   // "threaded" | "tokio"
    pub nw: usize,    // pool threads / runtime worker threads
    pub bind: String, // "127.0.0.1" | "0.0.0.0" | "::"
    pub nc: usize,    // client connections 1..=nc
    pub sigkind: String, // "send" | "drop" (threaded: Sender dropped instead of a message) | "twice" (signalled twice)
    pub flavor: String,  // tokio runtime flavour: "multi" (worker_threads = nw) | "current" (current_thread)
    pub restart: bool,   // after the shutdown a second App is run on the same address and port
    pub steps: Vec<Value>,
    pub expect: Value, // model's final per-connection outcome for TLC-generated behaviours (or null)
}

pub struct Server {
    /// sends the shutdown signal (consumed on first use)
    pub signal: Box<dyn FnMut() + Send>,
}

/// Body of the long / big responses: deterministic pattern so that the client can verify every byte.
pub fn body_for(c: i64, m: &str) -> Vec<u8> {
    if m == "b" {
        let mut v = vec![0u8; BIG_BODY];
        let mut x = (c as u32).wrapping_mul(2654435761).wrapping_add(12345);
        for b in v.iter_mut() {
            x ^= x << 13;
            x ^= x >> 17;
            x ^= x << 5;
            *b = (x & 0xff) as u8;
        }
        v
    } else {
        format!("ok-{}-{}", c, m).into_bytes()
    }
}

pub fn parse_query(q: &str) -> (i64, String) {
    let mut c = -1;
    let mut m = "s".to_string();
    for kv in q.split('&') {
        let mut it = kv.splitn(2, '=');
        match (it.next(), it.next()) {
            (Some("c"), Some(v)) => c = v.parse().unwrap_or(-1),
            (Some("m"), Some(v)) => m = v.to_string(),
            _ => {}
        }
    }
    (c, m)
}

// -------------------------------------------------------------------------------------- clients
pub struct Cli {
    pub sock: Option<TcpStream>,
    pub port: u16,
    pub outstanding: bool, // a complete request has been sent and its response not yet fully read
    pub mode: String,      // handler kind of the outstanding request: s l L b
    pub kind: String,      // close keep ws
    pub rbuf: Vec<u8>,
    pub closed: bool, // we closed
    pub ended: bool,  // EOF / reset observed
    pub resp: i64,
}

impl Cli {
    fn new() -> Cli {
        Cli { sock: None, port: 0, outstanding: false, mode: "s".into(), kind: "close".into(), rbuf: vec![], closed: false, ended: false, resp: 0 }
    }
}

pub enum ReadOutcome {
    Pending,
    Complete,
    Eof { partial: bool },
    Corrupt(String),
}

/// Tries to make progress reading one response on a non-blocking socket.
fn pump(cl: &mut Cli, c: i64, limit: Option<usize>) -> ReadOutcome {
    let sock = match cl.sock.as_mut() {
        Some(s) => s,
        None => return ReadOutcome::Eof { partial: false },
    };
    let mut buf = vec![0u8; 1 << 16];
    let mut eof = false;
    loop {
        if let Some(lim) = limit {
            if cl.rbuf.len() >= lim {
                break;
            }
        }
        match sock.read(&mut buf) {
            Ok(0) => {
                eof = true;
                break;
            }
            Ok(n) => cl.rbuf.extend_from_slice(&buf[..n]),
            Err(e) if e.kind() == std::io::ErrorKind::WouldBlock || e.kind() == std::io::ErrorKind::TimedOut => break,
            Err(e) if e.kind() == std::io::ErrorKind::Interrupted => continue,
            Err(_) => {
                eof = true; // reset
                break;
            }
        }
    }
    // strip CRLFs left over from the previous response (From<Response> appends one after a body: C01/C07 finding)
    while cl.rbuf.first().map_or(false, |b| *b == b'\r' || *b == b'\n') && !cl.rbuf.starts_with(b"HTTP") {
        cl.rbuf.remove(0);
    }
    if let Some(pos) = cl.rbuf.windows(4).position(|w| w == b"\r\n\r\n") {
        let head = String::from_utf8_lossy(&cl.rbuf[..pos]).to_string();
        let mut clen: Option<usize> = None;
        for line in head.split("\r\n").skip(1) {
            let mut it = line.splitn(2, ':');
            if let (Some(n), Some(v)) = (it.next(), it.next()) {
                if n.eq_ignore_ascii_case("content-length") {
                    clen = v.trim().parse().ok();
                }
            }
        }
        let clen = match clen {
            Some(x) => x,
            None => return ReadOutcome::Corrupt("no content-length".into()),
        };
        let have = cl.rbuf.len() - (pos + 4);
        if have >= clen {
            let body = &cl.rbuf[pos + 4..pos + 4 + clen];
            let ok = head.starts_with("HTTP/1.1 200") && body == &body_for(c, &cl.mode)[..];
            cl.rbuf.drain(..pos + 4 + clen);
            return if ok { ReadOutcome::Complete } else { ReadOutcome::Corrupt(head.lines().next().unwrap_or("").to_string()) };
        }
    }
    if eof {
        let partial = !cl.rbuf.is_empty();
        return ReadOutcome::Eof { partial };
    }
    ReadOutcome::Pending
}

pub struct Driver {
    pub ctx: Arc<Ctx>,
    pub cfg: Cfg,
    pub port: u16,
    pub target: SocketAddr,
    pub clis: HashMap<i64, Cli>,
    pub server: Server,
    pub sig_sent: bool,
    pub problems: Vec<String>,
    pub hang: bool,
    pub grants: HashMap<&'static str, usize>,
    pub seen: HashMap<&'static str, usize>,
    pub diverged: bool,
    pub return_timed_out: bool,
    pub sig_thread: Option<std::thread::JoinHandle<Box<dyn FnMut() + Send>>>,
    pub fd_fault: String, // "" (not a descriptor scenario) | "hook" | "probe" | "not-provoked"
}

fn th_cli(c: i64) -> String {
    format!("cli{}", c)
}

impl Driver {
    pub fn connect(&mut self, c: i64) {
        if self.clis.contains_key(&c) {
            return;
        }
        let mut cl = Cli::new();
        match TcpStream::connect_timeout(&self.target, Duration::from_secs(5)) {
            Ok(s) => {
                cl.port = s.local_addr().map(|a| a.port()).unwrap_or(0);
                let _ = s.set_nodelay(true);
                let _ = s.set_nonblocking(true);
                cl.sock = Some(s);
                self.ctx.record("Cli_Connect", &th_cli(c), c, 1, "");
            }
            Err(e) => {
                cl.ended = true;
                // refused, or accepted by the kernel and reset by the closing listener before connect() returned
                let refused = e.kind() == std::io::ErrorKind::ConnectionRefused || e.kind() == std::io::ErrorKind::ConnectionReset;
                if !refused {
                    self.problems.push(format!("connect {} failed: {}", c, e));
                }
                self.ctx.record("Cli_Connect", &th_cli(c), c, 0, "");
            }
        }
        self.clis.insert(c, cl);
    }

    fn write_all_nb(sock: &mut TcpStream, mut data: &[u8]) -> bool {
        let t0 = Instant::now();
        while !data.is_empty() {
            match sock.write(data) {
                Ok(0) => return false,
                Ok(n) => data = &data[n..],
                Err(e) if e.kind() == std::io::ErrorKind::WouldBlock => {
                    if t0.elapsed() > Duration::from_secs(5) {
                        return false;
                    }
                    std::thread::sleep(Duration::from_millis(1));
                }
                Err(_) => return false,
            }
        }
        true
    }

    /// finishes reading the previous response before a new request is started on a keep-alive connection
    fn settle_before_send(&mut self, c: i64) {
        if self.clis.get(&c).map_or(false, |x| x.outstanding) {
            self.recv_blocking(c);
        }
    }

    pub fn send_half(&mut self, c: i64, m: &str) {
        self.settle_before_send(c);
        let ctx = self.ctx.clone();
        if let Some(cl) = self.clis.get_mut(&c) {
            if cl.sock.is_none() || cl.closed {
                return;
            }
            cl.mode = m.to_string();
            ctx.record("Cli_SendHalf", &th_cli(c), c, 0, "");
            // the first half is only the method: the target depends on the kind chosen with the second half
            let _ = Self::write_all_nb(cl.sock.as_mut().unwrap(), b"GET ");
        }
    }

    pub fn send_rest(&mut self, c: i64, kind: &str) {
        let ctx = self.ctx.clone();
        if let Some(cl) = self.clis.get_mut(&c) {
            if cl.sock.is_none() || cl.closed {
                return;
            }
            cl.kind = kind.to_string();
            cl.outstanding = kind != "ws";
            ctx.record("Cli_SendRest", &th_cli(c), c, 0, kind);
            let path = if kind == "ws" { "/w" } else { "/h" };
            let conn = match kind {
                "keep" => "Connection: keep-alive\r\n\r\n",
                "ws" => "Upgrade: websocket\r\nConnection: Upgrade\r\n\r\n",
                _ => "Connection: close\r\n\r\n",
            };
            let tail = format!("{}?c={}&m={} HTTP/1.1\r\nHost: c20.test\r\n{}", path, c, cl.mode, conn);
            let _ = Self::write_all_nb(cl.sock.as_mut().unwrap(), tail.as_bytes());
        }
    }

    pub fn close(&mut self, c: i64) {
        // the model lets a client close only when no answer is outstanding: read it first
        if self.clis.get(&c).map_or(false, |x| x.outstanding && x.sock.is_some() && !x.closed) {
            self.recv_blocking(c);
        }
        let ctx = self.ctx.clone();
        if let Some(cl) = self.clis.get_mut(&c) {
            if cl.sock.is_none() || cl.closed {
                return;
            }
            ctx.record("Cli_Close", &th_cli(c), c, 0, "");
            cl.closed = true;
            cl.sock = None;
        }
    }

    /// one non-blocking attempt; returns true when the outstanding response was resolved (event logged)
    fn try_recv(&mut self, c: i64) -> bool {
        let ctx = self.ctx.clone();
        let cl = match self.clis.get_mut(&c) {
            Some(x) => x,
            None => return true,
        };
        match pump(cl, c, None) {
            ReadOutcome::Pending => false,
            ReadOutcome::Complete => {
                cl.outstanding = false;
                cl.resp += 1;
                ctx.record("Cli_Resp", &th_cli(c), c, cl.resp, "");
                true
            }
            ReadOutcome::Eof { partial } => {
                cl.outstanding = false;
                cl.ended = true;
                cl.sock = None;
                ctx.record("Cli_Eof", &th_cli(c), c, if partial { 1 } else { 0 }, "");
                true
            }
            ReadOutcome::Corrupt(what) => {
                cl.outstanding = false;
                cl.ended = true;
                cl.sock = None;
                self.problems.push(format!("connection {}: corrupt response: {}", c, what));
                ctx.record("Cli_Eof", &th_cli(c), c, 2, "");
                true
            }
        }
    }

    pub fn recv_blocking(&mut self, c: i64) {
        let ctx = self.ctx.clone();
        let ok = {
            let me: *mut Driver = self;
            // SAFETY: wait_cond only calls the closure synchronously on this thread
            wait_cond(&ctx, || unsafe { (*me).try_recv(c) })
        };
        if !ok {
            if let Some(cl) = self.clis.get_mut(&c) {
                cl.outstanding = false;
            }
            ctx.record("Cli_Timeout", &th_cli(c), c, 0, "");
        }
    }

    /// reads some of a big response and then stops reading, so that the server's write blocks
    pub fn recv_part(&mut self, c: i64) {
        let ctx = self.ctx.clone();
        let me: *mut Driver = self;
        let _ = wait_cond(&ctx, || unsafe {
            match (*me).clis.get_mut(&c) {
                Some(cl) => {
                    let _ = pump(cl, c, Some(1 << 16));
                    cl.rbuf.len() >= (1 << 16) || cl.sock.is_none()
                }
                None => true,
            }
        });
    }

    /// expects the server side to end the connection: logs Cli_Eof (or Cli_Open when nothing happened)
    pub fn expect_eof(&mut self, c: i64) {
        let ctx = self.ctx.clone();
        let me: *mut Driver = self;
        let mut res: Option<bool> = None;
        let _ = wait_cond(&ctx, || unsafe {
            match (*me).clis.get_mut(&c) {
                Some(cl) => match pump(cl, c, None) {
                    ReadOutcome::Eof { partial } => {
                        res = Some(partial);
                        true
                    }
                    _ => false,
                },
                None => true,
            }
        });
        if let Some(partial) = res {
            if let Some(cl) = self.clis.get_mut(&c) {
                cl.ended = true;
                cl.outstanding = false;
                cl.sock = None;
            }
            ctx.record("Cli_Eof", &th_cli(c), c, if partial { 1 } else { 0 }, "");
        }
    }

    /// the signal from another thread after `delay_us`, so that it really races with the following steps
    pub fn signal_async(&mut self, delay_us: u64) {
        if self.sig_sent {
            return;
        }
        self.sig_sent = true;
        let ctx = self.ctx.clone();
        let kind = self.cfg.sigkind.clone();
        let mut f = std::mem::replace(&mut self.server.signal, Box::new(|| {}));
        self.sig_thread = Some(std::thread::spawn(move || {
            let t0 = Instant::now();
            while (t0.elapsed().as_micros() as u64) < delay_us {
                std::hint::spin_loop();
            }
            ctx.record("Sig_Send", "drv", -1, 0, "async");
            let _ = &kind;
            f();
            f // keep the sender alive
        }));
    }

    pub fn signal(&mut self) {
        if self.sig_sent {
            return;
        }
        self.sig_sent = true;
        self.ctx.record("Sig_Send", "drv", -1, 0, &self.cfg.sigkind.clone());
        (self.server.signal)();
        if self.cfg.sigkind == "twice" {
            self.ctx.record("Sig_Send", "drv", -1, 0, "again");
            (self.server.signal)();
        }
    }

    pub fn await_ev(&mut self, name: &str, c: i64, from: usize) -> bool {
        let ports: HashMap<u16, i64> = self.clis.iter().map(|(k, v)| (v.port, *k)).collect();
        let r = self.ctx.wait_event(from, |e| {
            e.ev == name && (c < 0 || e.c == c || (e.ev == "Accept_Return" && ports.get(&(e.v as u16)) == Some(&c)))
        });
        if r.is_none() {
            let gates_open = {
                let g = self.ctx.gates.lock().unwrap();
                g.mode.values().all(|m| *m == Mode::Free)
            };
            // (only when no hook gate of the harness is closed: a thread parked by the harness is not the code's doing;
            // the epilogue opens every gate and waits again)
            if name == "Run_Return" && self.sig_sent && !self.return_timed_out && gates_open {
                // the signal was sent and run has not returned within 1 s + 4 s + 15 s: a fact for the log, recorded
                // BEFORE the epilogue lets the handlers finish (after which a blocked run may well return)
                self.return_timed_out = true;
                self.ctx.record("Return_Timeout", "drv", -1, 0, "");
            }
            if name == "H_Read" || name == "H_Finish" {
                // an awaited service did not happen: a fact for the log (the judge decides what it means)
                self.ctx.record("Await_Failed", &th_cli(c), c, 0, name);
            }
            self.problems.push(format!("expected event {}({}) did not happen", name, c));
            if class_of(name) != "drv" {
                self.hang = true;
            }
        }
        r.is_some()
    }

    fn class_events(&self, class: &str) -> usize {
        self.ctx.log.lock().unwrap().iter().filter(|e| e.th == class && e.ev != "Run_Return").count()
    }

    /// In step mode every hook event of a class needs one token to pass.  To reach its (n+1)-th point the
    /// thread must have been let through n gates.
    fn pass_gates(&mut self, class: &'static str, n: usize) {
        let given = self.grants.entry(class).or_insert(0);
        while *given < n {
            *given += 1;
            self.ctx.grant(class);
        }
    }

    /// performs one script step
    pub fn step(&mut self, st: &Value) {
        let op = st[0].as_str().unwrap_or("");
        let c = st.get(1).and_then(|x| x.as_i64()).unwrap_or(-1);
        let s2 = st.get(2).and_then(|x| x.as_str()).unwrap_or("").to_string();
        match op {
            "connect" => self.connect(c),
            "half" => self.send_half(c, if s2.is_empty() { "s" } else { &s2 }),
            "rest" => self.send_rest(c, if s2.is_empty() { "close" } else { &s2 }),
            "close" => self.close(c),
            "sig" => self.signal(),
            "sig_async" => self.signal_async(c.max(0) as u64),
            "sig2" => {
                // the signal once more (Sig_Again of the model)
                if self.sig_sent && self.sig_thread.is_none() {
                    self.ctx.record("Sig_Send", "drv", -1, 0, "again");
                    (self.server.signal)();
                }
            }
            "finish" => self.ctx.finish(c),
            "recv" => self.recv_blocking(c),
            "recvpart" => self.recv_part(c),
            "eof" => self.expect_eof(c),
            "sleep" => std::thread::sleep(Duration::from_millis(c.max(0) as u64)),
            "fakehang" => self.hang = true, // self-test of the driver's restart path only
            "fdfill" => {
                // ["fdfill", k]: the descriptor table of this process is filled, k slots stay free (for the connects
                // of the harness's own clients that follow: in-process clients need a descriptor each)
                if !fill_fds(&self.ctx, c.max(0) as usize) {
                    self.fd_fault = "not-provoked".into();
                }
            }
            "fdwait" => {
                // ["fdwait", c]: connection c has been made with the last free descriptor.  Confirm the situation:
                // the table is full (own attempt to get a descriptor fails) and accept() is failing (hook count; on a
                // tree whose hook is not reached by a failed accept the own probe alone counts).  Linux reserves the
                // descriptor before accept() waits, so c itself is usually still accepted and every later accept()
                // fails at once.  Not confirmed = the scenario goes on as an ordinary one (reduced coverage).
                if self.fd_fault.is_empty() {
                    let connected = self.clis.get(&c).map_or(false, |x| x.sock.is_some());
                    if connected && fds_full(&self.ctx) {
                        self.ctx.record("Fd_Exhaust", "drv", -1, 0, "");
                        let t0 = Instant::now();
                        while self.ctx.acc_errs.load(Ordering::SeqCst) == 0 && t0.elapsed() < Duration::from_millis(300) {
                            std::thread::sleep(Duration::from_millis(2));
                        }
                        self.fd_fault = if self.ctx.acc_errs.load(Ordering::SeqCst) > 0 { "hook".into() }
                                        else if fds_full(&self.ctx) { "probe".into() }
                                        else { "not-provoked".into() };
                    } else {
                        self.fd_fault = "not-provoked".into();
                    }
                    if self.fd_fault == "not-provoked" {
                        release_fds(&self.ctx);
                    }
                }
            }
            "await" => {
                // ["await", c, "Event"]: the event must be in the log (searching from the start)
                if self.cfg.rt == "tokio" && self.sig_sent && self.ctx.gates.lock().unwrap().mode.get("acc") == Some(&Mode::StepAll) {
                    // gated replay on tokio after the cancel: select! may have taken the other ready arm (accept
                    // instead of cancelled, or the reverse); then the behaviour cannot be forced any further
                    let ports: HashMap<u16, i64> = self.clis.iter().map(|(k, v)| (v.port, *k)).collect();
                    let seen = *self.seen.get("acc").unwrap_or(&0);
                    let ctx = self.ctx.clone();
                    let me: *mut Driver = self;
                    let name = s2.clone();
                    let found = move |d: &Driver| {
                        d.ctx.log.lock().unwrap().iter().any(|e| {
                            e.ev == name && (c < 0 || e.c == c || (e.ev == "Accept_Return" && ports.get(&(e.v as u16)) == Some(&c)))
                        })
                    };
                    let ok = wait_cond(&ctx, || unsafe {
                        found(&*me) || (*me).class_events("acc") > seen || (s2 != "Run_Return" && (*me).ctx.has_event("Run_Return"))
                    });
                    if !ok {
                        self.problems.push(format!("expected event {}({}) did not happen", s2, c));
                        self.hang = true;
                    } else if !found(self) {
                        self.diverged = true;
                    }
                } else {
                    self.await_ev(&s2, c, 0);
                }
            }
            "hold" => {
                // ["hold", _, "Point"]: the thread that reaches Point parks there
                let point: &'static str = Box::leak(s2.clone().into_boxed_str());
                self.ctx.set_mode(class_of(point), Mode::HoldAt(point));
            }
            "release" => {
                let class: &'static str = if s2 == "main" { "main" } else { "acc" };
                self.ctx.set_mode(class, Mode::Free);
            }
            "stepmode" => {
                self.ctx.set_mode("acc", Mode::StepAll);
                self.ctx.set_mode("main", Mode::StepAll);
            }
            "next" => {
                // ["next", c, "Event"]: gated replay of a TLC behaviour - the thread class of Event takes exactly
                // one more step: it is let through the gate of its previous point and must report Event next
                let class = class_of(&s2);
                let seen = *self.seen.entry(class).or_insert(0);
                self.pass_gates(class, seen);
                let ctx = self.ctx.clone();
                // wait until the class has reported seen+1 events.  tokio: once the token is cancelled select! may
                // take either ready arm, so a behaviour in which accept() wins cannot be forced - when run returns
                // instead, the rest of the behaviour is not replayed (not a hang)
                let me: *mut Driver = self;
                let may_diverge = self.cfg.rt == "tokio" && self.sig_sent;
                let ok = wait_cond(&ctx, || unsafe {
                    (*me).class_events(class) > seen || (may_diverge && (*me).ctx.has_event("Run_Return"))
                });
                if ok && self.class_events(class) <= seen {
                    self.diverged = true;
                } else if !ok {
                    self.problems.push(format!("gated step {}: no event from {}", s2, class));
                    self.hang = true;
                } else {
                    self.seen.insert(class, seen + 1);
                    let l = self.ctx.log.lock().unwrap();
                    let e = l.iter().filter(|e| e.th == class && e.ev != "Run_Return").nth(seen).unwrap();
                    if e.ev != s2 {
                        self.problems.push(format!("gated step expected {} but the code did {}", s2, e.ev));
                    }
                }
            }
            "go" => {
                // ["go", _, class]: one more step of a class without a hook behind it (Closure_Drop, tokio Loop_Exit)
                let class: &'static str = if s2 == "main" { "main" } else { "acc" };
                let seen = *self.seen.entry(class).or_insert(0);
                self.pass_gates(class, seen);
            }
            "closed" => {
                let port = self.port;
                if wait_cond(&self.ctx.clone(), || !listening(port)) {
                    self.ctx.record("Obs_Closed", "drv", -1, 0, "");
                } else {
                    self.problems.push("listener still present".into());
                }
            }
            _ => self.problems.push(format!("unknown step {}", st)),
        }
    }

    pub fn epilogue(&mut self) -> Value {
        // 1. the signal, if the script did not send it
        let t_sig = Instant::now();
        self.signal();
        if let Some(h) = self.sig_thread.take() {
            if let Ok(f) = h.join() {
                self.server.signal = f;
            }
        }
        // 2. no gate stays closed; run must return (escalating waits; only "did not return" matters)
        self.ctx.free_all();
        let returned = if self.return_timed_out {
            // run already failed to return within 1 s + 4 s + 15 s after the signal: give it one more second only
            std::thread::sleep(Duration::from_millis(WAITS_MS[0]));
            self.ctx.has_event("Run_Return")
        } else {
            // (also when another step hung before: the full escalation counts from the signal)
            self.await_ev("Run_Return", -1, 0)
        };
        let sig_to_return_ms = t_sig.elapsed().as_millis() as u64;
        // (a descriptor fault ends when run returns - after_return - or here, when it did not)
        release_fds(&self.ctx);
        let mut rebind = Value::Null;
        if returned {
            // 3. the port: the run thread has bound it again immediately after run returned (Rebind record);
            // here only the absence of our listener is observed
            let port = self.port;
            if wait_cond(&self.ctx.clone(), || self.ctx.has_event("Rebind") || !listening(port)) {
                let me_port = port;
                if wait_cond(&self.ctx.clone(), || !listening(me_port)) {
                    self.ctx.record("Obs_Closed", "drv", -1, 0, "");
                }
            }
            rebind = self.ctx.log.lock().unwrap().iter().find(|e| e.ev == "Rebind").map_or(Value::Null, |e| json!(e.v == 1));
        } else {
            self.hang = true;
        }
        // 4. every handler may finish now; the process stays alive, so in-flight responses must complete
        self.ctx.finish_all();
        // 5. close connections that wait for nothing, then read every outstanding response to completion
        let mut ids: Vec<i64> = self.clis.keys().cloned().collect();
        ids.sort();
        for c in &ids {
            let cl = &self.clis[c];
            if !cl.outstanding && cl.sock.is_some() && !cl.closed {
                // observe an EOF that is already there (dropped / reset connections) before closing
                let me: *mut Driver = self;
                let mut ended: Option<bool> = None;
                unsafe {
                    if let Some(x) = (*me).clis.get_mut(c) {
                        if let ReadOutcome::Eof { partial } = pump(x, *c, None) {
                            ended = Some(partial);
                        }
                    }
                }
                if let Some(partial) = ended {
                    let x = self.clis.get_mut(c).unwrap();
                    x.ended = true;
                    x.sock = None;
                    self.ctx.record("Cli_Eof", &th_cli(*c), *c, if partial { 1 } else { 0 }, "");
                } else {
                    self.close(*c);
                }
            }
        }
        let ctx = self.ctx.clone();
        let me: *mut Driver = self;
        let all = wait_cond(&ctx, || unsafe {
            let d = &mut *me;
            let mut pending = false;
            for c in &ids {
                if d.clis[c].outstanding {
                    if d.try_recv(*c) {
                        // a keep-alive connection would occupy its worker for ever: close it once answered
                        d.close(*c);
                    } else {
                        pending = true;
                    }
                }
            }
            !pending
        });
        if !all {
            for c in &ids {
                if self.clis[c].outstanding {
                    self.clis.get_mut(c).unwrap().outstanding = false;
                    self.ctx.record("Cli_Timeout", &th_cli(*c), *c, 0, "");
                }
            }
        }
        for c in &ids {
            self.close(*c);
        }
        self.ctx.record("End", "drv", -1, 0, "");
        json!({"returned": returned, "sig_to_return_ms": sig_to_return_ms, "rebind": rebind,
               "wait_level": self.ctx.wait_level.load(Ordering::SeqCst)})
    }
}

/// the log with peer ports of Accept_Return resolved to connection ids (unknown port = the wake-up connection = 0)
pub fn export_log(d: &Driver) -> Vec<Value> {
    let ports: HashMap<u16, i64> = d.clis.iter().filter(|(_, v)| v.port != 0).map(|(k, v)| (v.port, *k)).collect();
    let l = d.ctx.log.lock().unwrap();
    let mut out = vec![json!({"ev": "Reset", "th": "drv", "c": -1, "v": d.cfg.nw, "k": d.cfg.rt})];
    for e in l.iter() {
        let (c, v) = if e.ev == "Accept_Return" { (*ports.get(&(e.v as u16)).unwrap_or(&0), 0) } else { (e.c, e.v) };
        out.push(json!({"ev": e.ev, "th": e.th, "c": c, "v": v, "k": e.k}));
    }
    out
}

use crate::util_reexport as hvutil;

// ------------------------------------------------------------------------------------ generators
/// The traffic states of the property, as the steps that bring connection c into that state before the signal.
pub const STATES: [&str; 8] = ["just", "idle", "half", "short", "long", "writing", "ws", "queued_full"];

fn state_steps(c: i64, st: &str, out: &mut Vec<Value>, waits: &mut Vec<Value>) {
    out.push(json!(["connect", c]));
    match st {
        "just" => {}
        "idle" => {
            out.push(json!(["half", c, "s"]));
            out.push(json!(["rest", c, "keep"]));
            waits.push(json!(["recv", c]));
        }
        "half" => out.push(json!(["half", c, "s"])),
        "short" => {
            out.push(json!(["half", c, "s"]));
            out.push(json!(["rest", c, "close"]));
        }
        "long" => {
            out.push(json!(["half", c, "l"]));
            out.push(json!(["rest", c, "close"]));
        }
        "longkeep" => {
            out.push(json!(["half", c, "l"]));
            out.push(json!(["rest", c, "keep"]));
        }
        "writing" => {
            out.push(json!(["half", c, "b"]));
            out.push(json!(["rest", c, "close"]));
            waits.push(json!(["recvpart", c]));
        }
        "ws" => {
            out.push(json!(["half", c, "w"]));
            out.push(json!(["rest", c, "ws"]));
        }
        _ => {
            out.push(json!(["half", c, "s"]));
            out.push(json!(["rest", c, "keep"]));
        }
    }
}

/// Random scenario of the property's state matrix: 0..16 connections, each brought into one of the listed
/// states, pool 1..8 (one third of the scenarios with every worker occupied by a handler that does not
/// return), the signal before the first connection / between two accepts / concurrently with a connect /
/// after all, on the three bind addresses.
pub fn matrix_scenario(rng: &mut hvutil::Rng, idx: usize, rt: &str) -> Cfg {
    let nw = rng.range(1, 8);
    let bind = ["127.0.0.1", "0.0.0.0", "::"][idx % 3].to_string();
    // 0..48 connections; every fifth scenario opens at least 3 x pool connections (+ up to 8) that all stay open,
    // so that 2 x pool and more jobs wait behind a fully occupied pool when the signal arrives
    let deep = idx % 5 == 2;
    let nc = match idx % 5 {
        0 => 0,
        1 => rng.range(1, 3),
        2 => (3 * nw + rng.range(0, 8)).min(48),
        3 => rng.range(17, 48),
        _ => rng.range(2, 16),
    };
    let flavor = if rt == "tokio" && rng.chance(1, 3) { "current" } else { "multi" };
    let restart = rng.chance(1, 4);
    let pos = ["before_first", "between", "concurrent", "after_all"][rng.below(4)];
    let saturate = deep || rng.chance(1, 3);
    let sig_at: usize = match pos {
        "before_first" => 0,
        "after_all" => nc,
        _ => if nc == 0 { 0 } else { rng.range(1, nc) },
    };
    let mut steps: Vec<Value> = vec![];
    let mut states: Vec<String> = vec![];
    let mut big = 0;
    let mut occ = 0usize; // connections that keep a worker until the client closes
    let mut sig_done = false;
    for c in 1..=(nc as i64) {
        let before_sig = !sig_done && (c as usize) <= sig_at;
        if !sig_done && (c as usize) == sig_at + 1 {
            if pos == "between" && c > 1 {
                steps.push(json!(["await", c - 1, "Accept_Return"]));
            }
            steps.push(json!(["sig"]));
            sig_done = true;
        }
        let mut st = STATES[rng.below(STATES.len())].to_string();
        if saturate && (c as usize) <= nw {
            st = if rng.chance(1, 2) { "long".into() } else { "longkeep".into() };
        } else if deep && st == "short" {
            st = "queued_full".into(); // stays open
        }
        if st == "writing" {
            big += 1;
            if big > 2 {
                st = "short".into();
            }
        }
        let mut s = vec![];
        let mut waits = vec![];
        state_steps(c, &st, &mut s, &mut waits);
        if st == "long" || st == "longkeep" {
            waits.push(json!(["await", c, "H_Read"]));
        }
        // the connection is served only when it was accepted before the signal and a worker is free
        let served = before_sig && (rt == "tokio" || occ < nw);
        if pos == "concurrent" && !sig_done && (c as usize) == sig_at {
            // from another thread, 0..400 us later: races with this connect and the following sends
            steps.push(json!(["sig_async", rng.below(400)]));
            sig_done = true;
        }
        steps.push(s.remove(0)); // connect
        steps.append(&mut s);
        if served && !(pos == "concurrent" && (c as usize) == sig_at) {
            steps.append(&mut waits);
        }
        if st != "short" {
            occ += 1;
        }
        states.push(st);
    }
    if !sig_done {
        steps.push(json!(["sig"]));
    }
    let sigkind = if rt == "threaded" && rng.chance(1, 6) { "drop" } else if rng.chance(1, 5) { "twice" } else { "send" };
    Cfg { id: format!("matrix-{}-{}", rt, idx), rt: rt.to_string(), nw, bind, nc, sigkind: sigkind.into(), flavor: flavor.into(), restart, steps,
          expect: json!({"states": states, "pos": pos, "saturate": saturate}) }
}

/// The gated races of DESIGN C20 (method D) as scripts.
pub fn race_scenarios(rt: &str) -> Vec<Cfg> {
    let mut v = vec![];
    let mk = |id: &str, nw: usize, bind: &str, nc: usize, steps: Vec<Value>| -> Cfg { Cfg {
        id: format!("race-{}-{}", rt, id), rt: rt.to_string(), nw, bind: bind.to_string(), nc, sigkind: "send".into(), flavor: "multi".into(), restart: false, steps, expect: Value::Null,
    } };
    // the traffic states that are in flight at the instant of the signal, deterministically, on both runtimes:
    // handler running (close and keep-alive), response being written (client reads slowly), idle keep-alive,
    // half-sent request, WebSocket open.  run must return; the process (and the tokio runtime) stays alive, so
    // every answer to a request received before the signal must arrive complete afterwards.
    for (i, bind) in ["127.0.0.1", "::"].iter().enumerate() {
        v.push(mk(&format!("inflight-at-signal-{}", i), 8, bind, 7, vec![
            json!(["connect", 1]), json!(["half", 1, "l"]), json!(["rest", 1, "close"]), json!(["await", 1, "H_Read"]),
            json!(["connect", 2]), json!(["half", 2, "b"]), json!(["rest", 2, "close"]), json!(["await", 2, "H_Finish"]), json!(["recvpart", 2]),
            json!(["connect", 3]), json!(["half", 3, "s"]), json!(["rest", 3, "keep"]), json!(["recv", 3]),
            json!(["connect", 4]), json!(["half", 4, "l"]), json!(["rest", 4, "keep"]), json!(["await", 4, "H_Read"]),
            json!(["connect", 5]), json!(["half", 5, "s"]),
            json!(["connect", 6]), json!(["half", 6, "w"]), json!(["rest", 6, "ws"]), json!(["await", 6, "H_Read"]),
            json!(["connect", 7]), json!(["half", 7, "b"]), json!(["rest", 7, "keep"]), json!(["await", 7, "H_Finish"]), json!(["recvpart", 7]),
            json!(["sig"]), json!(["await", -1, "Run_Return"]), json!(["sleep", if i == 0 { 60 } else { 400 }]),
        ]));
    }
    // scale: 3 x pool + 2 connections that all stay open (pool fully occupied, 2 x pool + 2 jobs waiting), up to 48
    let big = std::env::args().nth(2).as_deref() == Some("thorough");
    for (nw, total) in [(1usize, 5usize), (2, 8), (4, 14), (8, 26), (8, 48)] {
        if total >= 26 && !big {
            continue; // quick tier: pools 1, 2, 4 with 3 x pool + 2 connections; the matrix goes up to 48
        }
        let mut steps = vec![];
        for c in 1..=(total as i64) {
            steps.push(json!(["connect", c]));
            steps.push(json!(["half", c, if (c as usize) <= nw { "l" } else { "s" }]));
            steps.push(json!(["rest", c, "keep"]));
            if (c as usize) <= nw {
                steps.push(json!(["await", c, "H_Read"]));
            }
        }
        steps.push(json!(["await", total as i64, "Accept_Return"]));
        steps.push(json!(["sig"]));
        let mut cfg = mk(&format!("queue-depth-{}-{}", nw, total), nw, ["0.0.0.0", "127.0.0.1", "::"][total % 3], total, steps);
        cfg.sigkind = if total % 2 == 0 { "twice".into() } else { "send".into() };
        cfg.restart = total == 8 || total == 26;
        v.push(cfg);
    }
    if rt == "threaded" {
        // the run thread is held right behind its wake-up connect: by then the flag must already be set, so the
        // accept loop sees it with the wake-up connection and leaves (a tree that connects before it stores the
        // flag lets the loop go back into accept() for ever)
        v.push(mk("held-after-wake-connect", 2, "127.0.0.1", 1, vec![
            json!(["connect", 1]), json!(["half", 1, "s"]), json!(["rest", 1, "keep"]), json!(["recv", 1]),
            json!(["hold", 0, "Wake_Connect"]), json!(["sig"]), json!(["await", -1, "Wake_Connect"]),
            json!(["await", -1, "Pool_Stop"]), json!(["release", 0, "main"]),
        ]));
        // flag set, a client connects (and is accepted, and dropped) before the wake-up connection is made
        v.push(mk("client-before-wake", 2, "0.0.0.0", 2, vec![
            json!(["connect", 1]), json!(["half", 1, "s"]), json!(["rest", 1, "keep"]), json!(["recv", 1]),
            json!(["hold", 0, "Flag_Set"]), json!(["sig"]), json!(["await", -1, "Flag_Set"]),
            json!(["connect", 2]), json!(["half", 2, "s"]), json!(["rest", 2, "close"]),
            json!(["await", 2, "Accept_Return"]), json!(["await", -1, "Pool_Stop"]), json!(["eof", 2]),
            json!(["release", 0, "main"]),
        ]));
        // the wake-up connection arrives while a Dispatch is in progress: the connection in hand is still served
        v.push(mk("wake-during-dispatch", 1, "127.0.0.1", 1, vec![
            json!(["hold", 0, "Flag_Read"]), json!(["connect", 1]), json!(["half", 1, "s"]), json!(["rest", 1, "close"]),
            json!(["await", 1, "Accept_Return"]), json!(["await", -1, "Flag_Read"]),
            json!(["sig"]), json!(["await", -1, "Wake_Connect"]),
            json!(["release", 0, "acc"]), json!(["recv", 1]),
        ]));
        // a connection accepted before the signal, flag read after it: dropped (allowed: dropped after the signal)
        v.push(mk("accepted-then-signal", 2, "::", 1, vec![
            json!(["hold", 0, "Accept_Return"]), json!(["connect", 1]), json!(["half", 1, "s"]), json!(["rest", 1, "close"]),
            json!(["await", 1, "Accept_Return"]), json!(["sig"]), json!(["await", -1, "Flag_Set"]),
            json!(["release", 0, "acc"]), json!(["eof", 1]),
        ]));
        // all workers busy with handlers that never return, more connections waiting in the pool queue
        for nw in [1usize, 2, 8] {
            let mut steps = vec![];
            let total = nw + 3;
            for c in 1..=(total as i64) {
                steps.push(json!(["connect", c]));
                steps.push(json!(["half", c, if (c as usize) <= nw { "l" } else { "s" }]));
                steps.push(json!(["rest", c, if c % 2 == 0 { "keep" } else { "close" }]));
                if (c as usize) <= nw {
                    steps.push(json!(["await", c, "H_Read"]));
                }
            }
            steps.push(json!(["await", total as i64, "Accept_Return"]));
            steps.push(json!(["sig"]));
            steps.push(json!(["await", -1, "Run_Return"]));
            v.push(mk(&format!("all-workers-busy-{}", nw), nw, "0.0.0.0", total, steps));
        }
    } else {
        // cancel while a connection is between accept and spawn: it is still served
        v.push(mk("cancel-during-dispatch", 2, "127.0.0.1", 1, vec![
            json!(["hold", 0, "Accept_Return"]), json!(["connect", 1]), json!(["half", 1, "s"]), json!(["rest", 1, "close"]),
            json!(["await", 1, "Accept_Return"]), json!(["sig"]), json!(["release", 0, "acc"]), json!(["recv", 1]),
        ]));
        // current_thread runtime: the accept loop is held between spawn and the next select!, so the spawned task
        // has not been polled at all when the token is cancelled; its request is complete on the wire and must
        // still be answered after run has returned (the runtime keeps being driven)
        let mut c1 = mk("current-thread-spawned-not-polled", 1, "127.0.0.1", 2, vec![
            json!(["hold", 0, "Dispatch"]), json!(["connect", 1]), json!(["half", 1, "s"]), json!(["rest", 1, "keep"]),
            json!(["connect", 2]), json!(["half", 2, "b"]), json!(["rest", 2, "close"]),
            json!(["await", -1, "Dispatch"]), json!(["sig"]), json!(["release", 0, "acc"]),
            json!(["await", -1, "Run_Return"]), json!(["sleep", 400]),
        ]);
        c1.flavor = "current".into();
        c1.restart = true;
        v.push(c1);
        let mut c2 = mk("current-thread-inflight", 1, "::", 4, vec![
            json!(["connect", 1]), json!(["half", 1, "l"]), json!(["rest", 1, "close"]), json!(["await", 1, "H_Read"]),
            json!(["connect", 2]), json!(["half", 2, "b"]), json!(["rest", 2, "keep"]), json!(["await", 2, "H_Finish"]), json!(["recvpart", 2]),
            json!(["connect", 3]), json!(["half", 3, "s"]), json!(["rest", 3, "keep"]), json!(["recv", 3]),
            json!(["connect", 4]), json!(["half", 4, "w"]), json!(["rest", 4, "ws"]), json!(["await", 4, "H_Read"]),
            json!(["sig"]), json!(["await", -1, "Run_Return"]), json!(["sleep", 700]),
        ]);
        c2.flavor = "current".into();
        c2.sigkind = "twice".into();
        v.push(c2);
        // cancel with connections waiting in the backlog: served or reset, both allowed
        v.push(mk("cancel-with-backlog", 2, "0.0.0.0", 3, vec![
            json!(["hold", 0, "Dispatch"]), json!(["connect", 1]), json!(["await", -1, "Dispatch"]),
            json!(["connect", 2]), json!(["half", 2, "s"]), json!(["rest", 2, "close"]), json!(["connect", 3]),
            json!(["sig"]), json!(["release", 0, "acc"]),
        ]));
        // every runtime worker blocked by a handler that blocks its thread
        for nw in [1usize, 2, 4] {
            let mut steps = vec![];
            let total = nw + 2;
            for c in 1..=(nw as i64) {
                steps.push(json!(["connect", c]));
                steps.push(json!(["half", c, "L"]));
                steps.push(json!(["rest", c, "close"]));
                // no wait for the handler: a blocked runtime thread may be the one that drives the I/O
                // driver, in which case later connections are not even accepted (tokio, not Humphrey)
                steps.push(json!(["sleep", 30]));
            }
            steps.push(json!(["sig"]));
            for c in (nw as i64 + 1)..=(total as i64) {
                steps.push(json!(["connect", c]));
            }
            v.push(mk(&format!("runtime-saturated-{}", nw), nw, "::", total, steps));
        }
    }
    // "accept fails while the signal arrives": the process is out of file descriptors (idle / busy connections hold
    // some, dummies the rest), one more connection is pending in the backlog (made with the last free descriptor), so
    // accept() fails with EMFILE and the wake-up connect of the threaded run cannot get a socket either.  The property
    // is unchanged: after the signal run returns and the port can be bound again.  (Last in the group: a tree that
    // hangs here costs the full escalation once per scenario.)
    for (i, (nw, bind, idle, busy, req)) in [(2usize, "127.0.0.1", 2i64, 0i64, false), (1, "0.0.0.0", 0, 1, true), (4, "::", 3, 1, false)].iter().enumerate() {
        let mut steps = vec![];
        let mut c = 0i64;
        for _ in 0..*idle {
            c += 1;
            steps.extend([json!(["connect", c]), json!(["half", c, "s"]), json!(["rest", c, "keep"]), json!(["recv", c])]);
        }
        for _ in 0..*busy {
            c += 1;
            steps.extend([json!(["connect", c]), json!(["half", c, "l"]), json!(["rest", c, "close"]), json!(["await", c, "H_Read"])]);
        }
        c += 1;
        steps.push(json!(["fdfill", 1]));
        steps.push(json!(["connect", c]));
        if *req {
            steps.extend([json!(["half", c, "s"]), json!(["rest", c, "close"])]);
        }
        steps.push(json!(["fdwait", c]));
        steps.push(json!(["sig"]));
        steps.push(json!(["await", -1, "Run_Return"]));
        let mut cfg = mk(&format!("accept-fails-at-signal-{}", i), *nw, bind, c as usize, steps);
        if rt == "tokio" && i == 1 {
            cfg.flavor = "current".into();
        }
        v.push(cfg);
    }
    v
}

/// Converts a behaviour printed by TLC (Gen_Shutdown) into a gated script.
pub fn behaviour_scenario(b: &Value, idx: usize) -> Cfg {
    let rt = b["rt"].as_str().unwrap_or("threaded").to_string();
    let nw = b["nw"].as_u64().unwrap_or(1) as usize;
    let mut steps = vec![json!(["stepmode"])];
    let mut nc = 0usize;
    for s in b["steps"].as_array().cloned().unwrap_or_default() {
        let a = s["a"].as_str().unwrap_or("");
        let c = s["c"].as_i64().unwrap_or(-1);
        let k = s["k"].as_str().unwrap_or("");
        if c > 0 {
            nc = nc.max(c as usize);
        }
        match a {
            "Sig_Send" => steps.push(json!(["sig"])),
            "Sig_Again" => steps.push(json!(["sig2"])),
            "Cli_Connect" => steps.push(json!(["connect", c])),
            "Cli_SendHalf" => steps.push(json!(["half", c, "l"])),
            "Cli_SendRest" => steps.push(json!(["rest", c, k])),
            "Cli_Close" => steps.push(json!(["close", c])),
            "H_Read" => steps.push(json!(["await", c, "H_Read"])),
            "H_Finish" => {
                steps.push(json!(["finish", c]));
                steps.push(json!(["await", c, "H_Finish"]));
            }
            "Accept_Return" | "Flag_Read" | "Dispatch" | "Pool_Stop" | "Sig_Recv" | "Flag_Set" | "Wake_Connect" => {
                steps.push(json!(["next", c, a]))
            }
            "Loop_Exit" => {
                if rt == "threaded" {
                    steps.push(json!(["next", c, a]))
                } else {
                    steps.push(json!(["go", 0, "acc"]))
                }
            }
            "Closure_Drop" => {
                steps.push(json!(["go", 0, "acc"]));
                if rt == "threaded" {
                    steps.push(json!(["closed"]));
                }
            }
            "Join_Return" => {
                steps.push(json!(["go", 0, "main"]));
                steps.push(json!(["await", -1, "Run_Return"]));
            }
            _ => {} // Worker_Take, Worker_Disc, H_Write, H_Eof: not controllable, not observable
        }
    }
    Cfg { id: format!("tlc-{}-{}", rt, idx), rt, nw, bind: ["127.0.0.1", "0.0.0.0", "::"][idx % 3].to_string(), nc,
          sigkind: "send".into(), flavor: "multi".into(), restart: false, steps, expect: b["final"].clone() }
}

/// Runs one scenario; `start` builds and starts the real App for this runtime.
pub fn run_scenario<F>(cfg: Cfg, rng: &mut hvutil::Rng, start: F, fixed_port: Option<u16>) -> (Value, bool, u16)
where
    F: Fn(&Cfg, Arc<Ctx>, u16) -> Server,
{
    // the server must be listening before the script starts (observed without connecting); a port taken by
    // somebody else between the probe and the bind is retried with another port
    let mut attempt = 0;
    let (ctx, mut d) = loop {
        attempt += 1;
        let ctx = Ctx::new();
        set_current(Some(ctx.clone()));
        let port = fixed_port.unwrap_or_else(|| pick_port(rng));
        let server = start(&cfg, ctx.clone(), port);
        let target: SocketAddr = if cfg.bind.contains(':') { format!("[::1]:{}", port) } else { format!("127.0.0.1:{}", port) }.parse().unwrap();
        let d = Driver { ctx: ctx.clone(), cfg: cfg.clone(), port, target, clis: HashMap::new(), server, sig_sent: false, problems: vec![], hang: false, grants: HashMap::new(), seen: HashMap::new(), diverged: false, return_timed_out: false, sig_thread: None, fd_fault: String::new() };
        let up = wait_cond(&ctx, || listening(port) || ctx.has_event("Run_Return"));
        if up && !ctx.has_event("Run_Return") {
            break (ctx, d);
        }
        if fixed_port.is_some() {
            // the second run on the port that the first one has just released did not come up
            set_current(None);
            let ev = vec![json!({"ev": "Reset", "th": "drv", "c": -1, "v": cfg.nw, "k": cfg.rt}),
                          json!({"ev": "Restart_Failed", "th": "drv", "c": -1, "v": 0, "k": ""})];
            return (json!({"scenario": cfg.id, "rt": cfg.rt, "nw": cfg.nw, "bind": cfg.bind, "nc": cfg.nc, "sigkind": cfg.sigkind,
                           "flavor": cfg.flavor, "restart": false, "steps": cfg.steps, "expect": cfg.expect,
                           "verdict": {"returned": false, "rebind": false, "wait_level": 3, "sig_to_return_ms": 0},
                           "problems": ["a second run on the same address did not start listening"], "hang": false, "diverged": false,
                           "outcome": {}, "events": ev}), false, port);
        }
        if attempt >= 4 {
            set_current(None);
            return (json!({"scenario": cfg.id, "tool_error": "server did not start", "problems": d.problems}), false, port);
        }
    };
    let _ = &ctx;
    let steps = cfg.steps.clone();
    for st in &steps {
        d.step(st);
        if d.hang || d.diverged {
            break;
        }
    }
    let verdict = d.epilogue();
    let events = export_log(&d);
    let outcome: HashMap<String, Value> = d.clis.iter().map(|(c, cl)| (c.to_string(), json!({"resp": cl.resp, "ended": cl.ended}))).collect();
    let hang = d.hang;
    set_current(None);
    let port = d.port;
    (json!({"scenario": cfg.id, "rt": cfg.rt, "nw": cfg.nw, "bind": cfg.bind, "nc": cfg.nc, "sigkind": cfg.sigkind,
            "flavor": cfg.flavor, "restart": cfg.restart, "steps": cfg.steps, "expect": cfg.expect, "verdict": verdict, "problems": d.problems, "hang": hang, "diverged": d.diverged,
            "fd_fault": d.fd_fault, "accept_errors": d.ctx.acc_errs.load(Ordering::SeqCst),
            "outcome": outcome, "events": events}), hang, port)
}

// process-wide current context for the hook
static CURRENT: Mutex<Option<Arc<Ctx>>> = Mutex::new(None);
pub fn set_current(c: Option<Arc<Ctx>>) {
    *CURRENT.lock().unwrap() = c;
}
pub fn current() -> Option<Arc<Ctx>> {
    CURRENT.lock().unwrap().clone()
}
pub fn install_hook() {
    humphrey::verif::set_hook(Some(Arc::new(|name, a, b| {
        if let Some(ctx) = current() {
            ctx.hook(name, a, b);
        }
    })));
}

/// main loop shared by both bins
pub fn main_with<F>(rt: &str, start: F)
where
    F: Fn(&Cfg, Arc<Ctx>, u16) -> Server,
{
    hvutil::quiet_panics();
    install_hook();
    let args: Vec<String> = std::env::args().collect();
    let mut rng = hvutil::Rng::from_env();
    let mode = args.get(1).map(|s| s.as_str()).unwrap_or("");
    let skip: usize = std::env::var("C20_SKIP").ok().and_then(|s| s.parse().ok()).unwrap_or(0);
    let mut scenarios: Vec<Cfg> = vec![];
    match mode {
        "matrix" => {
            let n: usize = args.get(2).and_then(|s| s.parse().ok()).unwrap_or(10);
            for i in 0..n {
                scenarios.push(matrix_scenario(&mut rng, i, rt));
            }
        }
        "races" => scenarios = race_scenarios(rt),
        "replay" => {
            for (i, line) in hvutil::stdin_lines().enumerate() {
                if let Ok(v) = serde_json::from_str::<Value>(&line) {
                    if v["rt"].as_str() == Some(rt) {
                        scenarios.push(behaviour_scenario(&v, i));
                    }
                }
            }
        }
        "script" => {
            // stdin: scenarios as printed by this program (fields rt nw bind nc sigkind steps): re-run them
            for line in hvutil::stdin_lines() {
                if let Ok(v) = serde_json::from_str::<Value>(&line) {
                    if v["rt"].as_str() == Some(rt) {
                        scenarios.push(Cfg {
                            id: v["scenario"].as_str().unwrap_or("script").to_string(),
                            rt: rt.to_string(),
                            nw: v["nw"].as_u64().unwrap_or(1) as usize,
                            bind: v["bind"].as_str().unwrap_or("127.0.0.1").to_string(),
                            nc: v["nc"].as_u64().unwrap_or(0) as usize,
                            sigkind: v["sigkind"].as_str().unwrap_or("send").to_string(),
                            flavor: v["flavor"].as_str().unwrap_or("multi").to_string(),
                            restart: v["restart"].as_bool().unwrap_or(false),
                            steps: v["steps"].as_array().cloned().unwrap_or_default(),
                            expect: v["expect"].clone(),
                        });
                    }
                }
            }
        }
        _ => {
            eprintln!("usage: shutdown matrix <n> | races | replay | script   (C20_SKIP=k skips the first k scenarios)");
            std::process::exit(2);
        }
    }
    let mut slow = 0;
    for (i, cfg) in scenarios.into_iter().enumerate() {
        if i < skip {
            continue;
        }
        let again = if cfg.restart {
            // lifecycle: after the shutdown a second App runs on the same address and port and serves a request
            let mut c2 = cfg.clone();
            c2.id = format!("{}-restart", cfg.id);
            c2.restart = false;
            c2.nc = 2;
            c2.steps = vec![json!(["connect", 1]), json!(["half", 1, "s"]), json!(["rest", 1, "keep"]), json!(["recv", 1]), json!(["close", 1]),
                            json!(["connect", 2]), json!(["half", 2, "l"]), json!(["rest", 2, "close"]), json!(["await", 2, "H_Read"])];
            Some(c2)
        } else {
            None
        };
        let (mut out, mut hang, port) = run_scenario(cfg, &mut rng, &start, None);
        out["index"] = json!(i);
        hvutil::out_line(&out);
        if let (Some(c2), false) = (again, hang) {
            let (mut out2, hang2, _) = run_scenario(c2, &mut rng, &start, Some(port));
            out2["index"] = json!(i);
            hvutil::out_line(&out2);
            hang = hang2;
        }
        if hang {
            // a stuck server thread cannot be removed from this process: the driver restarts us after this scenario
            std::process::exit(3);
        }
        if out["verdict"]["wait_level"].as_u64().unwrap_or(0) >= WAITS_MS.len() as u64 {
            slow += 1;
            if slow >= 3 {
                // three scenarios each waited out 1 s + 4 s + 15 s for something that never came: the tree is
                // broken, the rest of the group would only cost time
                std::process::exit(4);
            }
        }
    }
}
