//! C16 conformance: humphrey_server::cache::Cache (and its use by the static handlers) against
//! Cache.tla.
//!
//!   cache calibrate
//!   cache edges    <edge-file> <limit> <tl> <unit> <threads> [observe]   method B.1: edge-complete replay + 1-op probes
//!   cache lockstep <edge-file> <limit> <tl> <unit> <len> <threads>       method B.2: ALL sequences of length <len>
//!   cache random   <threads> <ops> <limit-bytes> <tl> <virtual|real>     method C: events for Trace_Cache.tla
//!   cache handlers <dir> <ops> <limit-bytes> <tl> <threads>              method C at handler level (static.rs)
//!   cache realclock                                                      a few paths on the unmodified clock, real sleeps
//!   cache realhandlers <dir>                                             handler level on the unmodified clock
//!   cache runseq   <limit> <tl> <unit>   stdin: JSON [[op,route#,host,size,id,d],...]  (replay of one case)
//!   cache runseq   <limit> <tl> <unit> trace   stdin: one such JSON array per line; stdout: the observed histories
//!                                              in the log format of `random` (input of the property judge Trace_CacheProp)
//!
//! Edge file: one JSON line per transition, written by TLC (MC_Cache.tla, EdgeOut):
//!   [state, [op,route#,host,size,id,d], [hit,size,id,age], panicked, state, lookups]
//!   state = [[[route#,host,size,id,age]..], total]; lookups = [[route#,host,hit,size,id,age]..] = the keys for
//!   which get must hit in the target state, and with what (every other key must miss)
//! The harness never computes what the cache *should* do: every expectation is a lookup in TLC's graph.
//!
//! Clock.  Cache reads SystemTime::now() internally and has no clock parameter.  This binary defines
//! the libc symbol `clock_gettime`, which std's SystemTime::now() is linked against: for
//! CLOCK_REALTIME the seconds are replaced by a per-thread (or process-wide) virtual value when one is
//! set, everything else is the kernel's answer.  `calibrate` proves on the real Cache that the virtual
//! clock is what it sees (exit 3 otherwise); `realclock` runs the same kind of checks with the override
//! switched off and real sleeps.
use hv::util::*;
use humphrey::http::headers::Headers;
use humphrey::http::method::Method;
use humphrey::http::mime::MimeType;
use humphrey::http::address::Address;
use humphrey::http::Request;
use humphrey_server::cache::Cache;
use humphrey_server::config::Config;
use humphrey_server::r#static::{directory_handler, file_handler};
use humphrey_server::server::logger::LogLevel;
use humphrey_server::AppState;
use serde_json::{json, Value};
use std::cell::Cell;
use std::collections::HashMap;
use std::io::BufRead;
use std::panic::{catch_unwind, AssertUnwindSafe};
use std::sync::atomic::{AtomicI64, AtomicU64, AtomicUsize, Ordering};
use std::sync::{Arc, Mutex, RwLock};
use std::time::{Duration, SystemTime};

// ------------------------------------------------------------------------------------------------
// virtual clock
// ------------------------------------------------------------------------------------------------
thread_local! { static TL_CLOCK: Cell<i64> = const { Cell::new(-1) }; }
static GLOBAL_CLOCK: AtomicI64 = AtomicI64::new(-1);
const BASE: i64 = 2_000_000_000;

/// Overrides libc's clock_gettime for this process (the executable's definition wins at link time).
#[no_mangle]
pub unsafe extern "C" fn clock_gettime(clk: libc::clockid_t, ts: *mut libc::timespec) -> libc::c_int {
    if clk == libc::CLOCK_REALTIME && !ts.is_null() {
        let mut v = TL_CLOCK.try_with(|c| c.get()).unwrap_or(-1);
        if v < 0 {
            v = GLOBAL_CLOCK.load(Ordering::SeqCst);
        }
        if v >= 0 {
            (*ts).tv_sec = v as libc::time_t;
            (*ts).tv_nsec = 0;
            return 0;
        }
    }
    libc::syscall(libc::SYS_clock_gettime, clk as libc::c_long, ts) as libc::c_int
}

/// The stored time of a cache entry as seconds, whatever integer representation the tree under test keeps it in (a
/// plain integer today; an atomic in a tree that tracks recency from lookups under the read lock - the seeded change
/// `C16-r5-cache-eviction-...-least-recently` made this harness fail to compile, i.e. exit 2 instead of a verdict).
trait StoredSecs { fn stored_secs(&self) -> i64; }
impl StoredSecs for u64 { fn stored_secs(&self) -> i64 { *self as i64 } }
impl StoredSecs for i64 { fn stored_secs(&self) -> i64 { *self } }
impl StoredSecs for u128 { fn stored_secs(&self) -> i64 { *self as i64 } }
impl StoredSecs for u32 { fn stored_secs(&self) -> i64 { *self as i64 } }
impl StoredSecs for usize { fn stored_secs(&self) -> i64 { *self as i64 } }
impl StoredSecs for std::sync::atomic::AtomicU64 { fn stored_secs(&self) -> i64 { self.load(std::sync::atomic::Ordering::SeqCst) as i64 } }
impl StoredSecs for std::sync::atomic::AtomicI64 { fn stored_secs(&self) -> i64 { self.load(std::sync::atomic::Ordering::SeqCst) } }
impl StoredSecs for std::sync::atomic::AtomicUsize { fn stored_secs(&self) -> i64 { self.load(std::sync::atomic::Ordering::SeqCst) as i64 } }
impl StoredSecs for std::time::Duration { fn stored_secs(&self) -> i64 { self.as_secs() as i64 } }
impl StoredSecs for std::time::SystemTime { fn stored_secs(&self) -> i64 { self.duration_since(std::time::UNIX_EPOCH).map(|d| d.as_secs() as i64).unwrap_or(0) } }
impl<T: StoredSecs> StoredSecs for std::sync::Mutex<T> { fn stored_secs(&self) -> i64 { self.lock().map(|g| g.stored_secs()).unwrap_or(0) } }
impl<T: StoredSecs + Copy> StoredSecs for std::cell::Cell<T> { fn stored_secs(&self) -> i64 { self.get().stored_secs() } }
fn secs_of<T: StoredSecs>(x: &T) -> i64 { x.stored_secs() }

fn set_vclock(v: i64) {
    TL_CLOCK.with(|c| c.set(v));
}
fn now_secs() -> i64 {
    SystemTime::now().duration_since(SystemTime::UNIX_EPOCH).unwrap().as_secs() as i64
}

// ------------------------------------------------------------------------------------------------
// concrete <-> abstract mapping (the projection; kept trivially small)
// ------------------------------------------------------------------------------------------------
const ROUTES: [&str; 5] = ["", "/a", "/b", "/c", "/d"];

/// MimeOf(id) of MC_Cache.tla
fn mime_of(id: u32) -> MimeType {
    match id {
        1 => MimeType::TextHtml,
        2 => MimeType::ImagePng,
        _ => MimeType::TextCss,
    }
}
fn id_of_mime(m: &str) -> u32 {
    match m {
        "text/html" => 1,
        "image/png" => 2,
        "text/css" => 3,
        _ => 0,
    }
}

fn make_cache(limit_bytes: usize, tl: usize) -> Cache {
    let mut c = Config::default();
    c.cache.size_limit = limit_bytes;
    c.cache.time_limit = tl;
    Cache::from(&c)
}

/// Observation of a lookup in the units of the specification: [hit, size, id, age].
/// size 9999 = length not a multiple of the unit; id 99 = bytes and MIME type do not denote one id.
type Obs = [u32; 4];

struct Real {
    cache: Cache,
    unit: usize,
}

impl Real {
    fn new(limit: usize, tl: usize, unit: usize) -> Self {
        Real { cache: make_cache(limit * unit, tl), unit }
    }
    /// Cache::set with `size` units of content `id`; Err = the call panicked
    fn set(&mut self, route: usize, host: usize, size: usize, id: u32) -> Result<(), ()> {
        let data = vec![id as u8; size * self.unit];
        let cache = &mut self.cache;
        catch_unwind(AssertUnwindSafe(move || cache.set(ROUTES[route], host, data, mime_of(id)))).map_err(|_| ())
    }
    fn get(&self, route: usize, host: usize, now: i64) -> Result<Obs, ()> {
        let cache = &self.cache;
        let unit = self.unit;
        catch_unwind(AssertUnwindSafe(move || match cache.get(ROUTES[route], host) {
            None => [0, 0, 0, 0],
            Some(item) => {
                let size = if item.data.len() % unit == 0 { (item.data.len() / unit) as u32 } else { 9999 };
                let mid = id_of_mime(&item.mime_type.to_string());
                let id = if item.data.is_empty() {
                    mid
                } else {
                    let b = item.data[0];
                    if item.data.iter().all(|x| *x == b) && b as u32 == mid { mid } else { 99 }
                };
                let age = now - secs_of(&item.cache_time);
                let key_ok = item.route == ROUTES[route] && item.host == host;
                [1, size, if key_ok { id } else { 98 }, if age < 0 { 9999 } else { age as u32 }]
            }
        }))
        .map_err(|_| ())
    }
}

// ------------------------------------------------------------------------------------------------
// TLC's graph as a table
// ------------------------------------------------------------------------------------------------
#[derive(Clone, Copy, PartialEq, Eq, Hash, PartialOrd, Ord, Debug)]
struct OpA {
    op: u8, // 0 set, 1 get, 2 tick
    route: u8,
    host: u8,
    size: u16,
    id: u8,
    d: u16,
}
impl OpA {
    fn json(&self) -> Value {
        json!([self.op, self.route, self.host, self.size, self.id, self.d])
    }
    fn from_json(v: &Value) -> OpA {
        let g = |i: usize| v[i].as_u64().expect("op field");
        OpA { op: g(0) as u8, route: g(1) as u8, host: g(2) as u8, size: g(3) as u16, id: g(4) as u8, d: g(5) as u16 }
    }
    /// the operation without the content id (lock-step alphabet: the id follows from NextId in the graph)
    fn no_id(&self) -> OpA {
        OpA { id: 0, ..*self }
    }
}

#[derive(Clone, Copy)]
struct Edge {
    op: OpA,
    res: Obs,
    panic: bool,
    next: u32,
}

struct Table {
    state_text: Vec<String>,
    state_keys: Vec<Vec<(u8, u8)>>, // keys of the entries of each state, in queue order
    out: Vec<Vec<Edge>>,
    obs: Vec<Vec<(u8, u8, Obs)>>, // per state: expected lookup result for every key (empty for the initial state)
    init: u32,
    edges: usize,
    keys: Vec<(u8, u8)>, // every (route, host) occurring in a set or get
}

fn load_table(path: &str) -> Table {
    let f = std::fs::File::open(path).unwrap_or_else(|e| tool_error(&format!("open {}: {}", path, e)));
    let mut ids: HashMap<String, u32> = HashMap::new();
    let mut state_text: Vec<String> = vec![];
    let mut state_keys: Vec<Vec<(u8, u8)>> = vec![];
    let mut out: Vec<Vec<Edge>> = vec![];
    let mut edges = 0usize;
    let mut obs: Vec<Vec<(u8, u8, Obs)>> = vec![];
    let mut keyset: std::collections::BTreeSet<(u8, u8)> = Default::default();
    let mut intern = |v: &Value, state_text: &mut Vec<String>, state_keys: &mut Vec<Vec<(u8, u8)>>, out: &mut Vec<Vec<Edge>>| -> u32 {
        let s = v.to_string();
        if let Some(i) = ids.get(&s) {
            return *i;
        }
        let i = state_text.len() as u32;
        ids.insert(s.clone(), i);
        state_text.push(s);
        state_keys.push(v[0].as_array().unwrap().iter().map(|e| (e[0].as_u64().unwrap() as u8, e[1].as_u64().unwrap() as u8)).collect());
        out.push(vec![]);
        i
    };
    for line in std::io::BufReader::new(f).lines() {
        let line = line.unwrap();
        if !line.starts_with('[') {
            continue;
        }
        let v: Value = serde_json::from_str(&line).unwrap_or_else(|e| tool_error(&format!("edge line: {} {}", e, line)));
        let s = intern(&v[0], &mut state_text, &mut state_keys, &mut out);
        let t = intern(&v[4], &mut state_text, &mut state_keys, &mut out);
        let op = OpA::from_json(&v[1]);
        let r = &v[2];
        let res = [r[0].as_u64().unwrap() as u32, r[1].as_u64().unwrap() as u32, r[2].as_u64().unwrap() as u32, r[3].as_u64().unwrap() as u32];
        if op.op < 2 {
            keyset.insert((op.route, op.host));
        }
        if obs.len() < state_text.len() {
            obs.resize(state_text.len(), vec![]);
        }
        if obs[t as usize].is_empty() && !v[5].as_array().unwrap().is_empty() {
            let g = |x: &Value| x.as_u64().unwrap();
            obs[t as usize] = v[5].as_array().unwrap().iter()
                .map(|o| (g(&o[0]) as u8, g(&o[1]) as u8, [g(&o[2]) as u32, g(&o[3]) as u32, g(&o[4]) as u32, g(&o[5]) as u32])).collect();
        }
        out[s as usize].push(Edge { op, res, panic: v[3].as_u64().unwrap() != 0, next: t });
        edges += 1;
    }
    let init = match ids.get("[[],0]") {
        Some(i) => *i,
        None => tool_error("edge file has no initial state [[],0]"),
    };
    for o in out.iter_mut() {
        o.sort_by_key(|e| e.op);
        o.dedup_by_key(|e| e.op);
    }
    Table { state_text, state_keys, out, obs, init, edges, keys: keyset.into_iter().collect() }
}

fn tool_error(msg: &str) -> ! {
    eprintln!("cache harness: {}", msg);
    std::process::exit(3);
}

impl Table {
    fn find(&self, s: u32, op: &OpA) -> Option<&Edge> {
        let o = &self.out[s as usize];
        o.binary_search_by_key(op, |e| e.op).ok().map(|i| &o[i])
    }
    /// what get(route, host) must return in state s: the hit listed by TLC for that state, else a miss
    fn lookup(&self, s: u32, route: u8, host: u8) -> Obs {
        match self.obs[s as usize].iter().find(|o| o.0 == route && o.1 == host) {
            Some(o) => o.2,
            None => [0, 0, 0, 0],
        }
    }
}

/// Apply one abstract operation to the real object; returns the observation ([0;4] for set/tick) or Err on panic.
fn apply(real: &mut Real, op: &OpA, vnow: &mut i64) -> Result<Obs, ()> {
    match op.op {
        0 => real.set(op.route as usize, op.host as usize, op.size as usize, op.id as u32).map(|_| [0, 0, 0, 0]),
        1 => real.get(op.route as usize, op.host as usize, *vnow),
        _ => {
            *vnow += op.d as i64;
            set_vclock(*vnow);
            Ok([0, 0, 0, 0])
        }
    }
}

fn obs_json(o: &Result<Obs, ()>) -> Value {
    match o {
        Ok(a) => json!(a),
        Err(_) => json!("panic"),
    }
}

// ------------------------------------------------------------------------------------------------
// B.1 edge-complete replay with one-operation probes
// ------------------------------------------------------------------------------------------------
struct Mismatch {
    what: String,
    seq: Vec<OpA>,
    step: usize,
    exp: Value,
    got: Value,
}
impl Mismatch {
    fn json(&self, limit: usize, tl: usize, unit: usize) -> Value {
        json!({"what": self.what, "limit": limit, "tl": tl, "unit": unit,
               "ops": self.seq.iter().map(|o| o.json()).collect::<Vec<_>>(), "step": self.step, "exp": self.exp, "got": self.got})
    }
}

/// Runs `seq` from a fresh object following the table; checks every returned value, and after the
/// steps with index >= check_from also get over `keys` against the table's get edges of the state.
/// Returns number of (op calls, get probes) or the first mismatch.
fn run_checked(t: &Table, limit: usize, tl: usize, unit: usize, seq: &[OpA], check_from: usize, keys: &[(u8, u8)]) -> Result<(u64, u64), Mismatch> {
    let mut real = Real::new(limit, tl, unit);
    let mut vnow = BASE;
    set_vclock(vnow);
    let mut s = t.init;
    let mut calls = 0u64;
    let mut gets = 0u64;
    for (i, op) in seq.iter().enumerate() {
        let e = match t.find(s, op) {
            Some(e) => *e,
            None => tool_error(&format!("graph has no edge {:?} from state {}", op, t.state_text[s as usize])),
        };
        let got = apply(&mut real, op, &mut vnow);
        calls += 1;
        let exp: Result<Obs, ()> = if e.panic { Err(()) } else { Ok(e.res) };
        if got != exp {
            return Err(Mismatch { what: "returned value".into(), seq: seq.to_vec(), step: i, exp: obs_json(&exp), got: obs_json(&got) });
        }
        s = e.next;
        if i >= check_from {
            for (r, h) in keys {
                let exp = t.lookup(s, *r, *h);
                let got = real.get(*r as usize, *h as usize, vnow);
                gets += 1;
                if got != Ok(exp) {
                    return Err(Mismatch {
                        what: format!("state after step: get({},{}) differs from the graph state {}", ROUTES[*r as usize], h, t.state_text[s as usize]),
                        seq: seq.to_vec(), step: i, exp: json!(exp), got: obs_json(&got),
                    });
                }
            }
        }
    }
    Ok((calls, gets))
}

/// A bounded, seeded sample of the mismatching operation sequences (the first ones and a reservoir of
/// the rest; sequences in which a call panicked are kept with priority): on a mismatch the driver lets
/// TLC judge the observed histories against the property alone.
struct Sample {
    cap: usize,
    seen: u64,
    rng: Rng,
    seqs: Vec<Vec<OpA>>,
    prio: Vec<Vec<OpA>>,
}
impl Sample {
    fn new(cap: usize, seed: u64) -> Self {
        Sample { cap: cap.max(8), seen: 0, rng: Rng::new(seed), seqs: vec![], prio: vec![] }
    }
    fn offer(&mut self, seq: &[OpA], panicked: bool) {
        if panicked && self.prio.len() < self.cap / 2 {
            self.prio.push(seq.to_vec());
            return;
        }
        self.seen += 1;
        if self.seqs.len() < self.cap {
            self.seqs.push(seq.to_vec());
        } else {
            let j = self.rng.below(self.seen as usize);
            if j >= self.cap / 2 && j < self.cap {
                self.seqs[j] = seq.to_vec();
            }
        }
    }
    fn json(samples: Vec<Sample>) -> Value {
        let mut all: Vec<Vec<OpA>> = vec![];
        for s in samples {
            all.extend(s.prio);
            all.extend(s.seqs);
        }
        json!(all.into_iter().map(|q| q.iter().map(|o| o.json()).collect::<Vec<_>>()).collect::<Vec<_>>())
    }
}

/// Hang detection.  Every worker bumps its progress counter per executed sequence / operation and
/// publishes what it is executing; when NO worker has made progress for HANG_SECS the process reports
/// what the workers were executing and exits with code 4 (a call of the code under test did not
/// return; the wait is generous, nothing fails for being slow).
const HANG_SECS: u64 = 90;
struct Watch {
    prog: Vec<AtomicU64>,
    cur: Vec<[AtomicU64; 8]>,
    note: Vec<Mutex<String>>,
    finished: AtomicUsize,
}
impl Watch {
    fn new(workers: usize) -> Self {
        Watch {
            prog: (0..workers).map(|_| AtomicU64::new(0)).collect(),
            cur: (0..workers).map(|_| std::array::from_fn(|_| AtomicU64::new(0))).collect(),
            note: (0..workers).map(|_| Mutex::new(String::new())).collect(),
            finished: AtomicUsize::new(0),
        }
    }
    fn tick(&self, w: usize) {
        self.prog[w].fetch_add(1, Ordering::Relaxed);
    }
    fn set(&self, w: usize, slot: usize, v: u64) {
        self.cur[w][slot].store(v, Ordering::Relaxed);
    }
    fn get(&self, w: usize, slot: usize) -> u64 {
        self.cur[w][slot].load(Ordering::Relaxed)
    }
    fn done(&self) {
        self.finished.fetch_add(1, Ordering::SeqCst);
    }
    /// runs until every worker called done(); `describe(worker)` renders what a worker is executing
    fn monitor(&self, what: &str, describe: &dyn Fn(usize) -> Value) {
        let n = self.prog.len();
        let mut last: u64 = u64::MAX;
        let mut since = std::time::Instant::now();
        while self.finished.load(Ordering::SeqCst) < n {
            std::thread::sleep(Duration::from_millis(200));
            let p: u64 = self.prog.iter().map(|a| a.load(Ordering::Relaxed)).sum();
            if p != last {
                last = p;
                since = std::time::Instant::now();
            } else if since.elapsed().as_secs() >= HANG_SECS {
                let stuck: Vec<Value> = (0..n).map(describe).collect();
                out_line(&json!({"summary": "hang", "mode": what, "seconds_without_progress": since.elapsed().as_secs(), "executing": stuck}));
                std::process::exit(4);
            }
        }
    }
}

fn cmd_edges(args: &[String]) {
    let t = Arc::new(load_table(&args[0]));
    let limit: usize = args[1].parse().unwrap();
    let tl: usize = args[2].parse().unwrap();
    let unit: usize = args[3].parse().unwrap();
    let threads: usize = args[4].parse().unwrap();
    // shortest paths
    let n = t.out.len();
    let mut parent: Vec<Option<(u32, OpA)>> = vec![None; n];
    let mut seen = vec![false; n];
    let mut order = vec![t.init];
    seen[t.init as usize] = true;
    let mut qi = 0;
    while qi < order.len() {
        let s = order[qi];
        qi += 1;
        for e in &t.out[s as usize] {
            if !seen[e.next as usize] {
                seen[e.next as usize] = true;
                parent[e.next as usize] = Some((s, e.op));
                order.push(e.next);
            }
        }
    }
    if order.len() != n {
        tool_error("graph is not connected from the initial state");
    }
    let complete = t.out.iter().all(|o| !o.is_empty());
    let path_to = |s: u32| -> Vec<OpA> {
        let mut p = vec![];
        let mut c = s;
        while let Some((q, op)) = parent[c as usize] {
            p.push(op);
            c = q;
        }
        p.reverse();
        p
    };
    let next_state = AtomicUsize::new(0);
    let stats = Mutex::new((0u64, 0u64, 0u64, 0u64, 0u64, 0usize)); // edges, probes, calls, gets, nontrivial, maxpath
    let mism: Mutex<Vec<Value>> = Mutex::new(vec![]);
    let mism_count = AtomicU64::new(0);
    let all_samples: Mutex<Vec<Sample>> = Mutex::new(vec![]);
    let watch = Watch::new(threads);
    std::thread::scope(|sc| {
        {
            let (watch, t, path_to) = (&watch, &t, &path_to);
            sc.spawn(move || {
                watch.monitor("edges", &|w| {
                    // slot 0: source state + 1, slot 1: edge index + 1, slot 2: probe index + 1
                    let s = watch.get(w, 0);
                    if s == 0 {
                        return json!(null);
                    }
                    let s = (s - 1) as usize;
                    let mut seq = path_to(s as u32);
                    let e = watch.get(w, 1);
                    if e > 0 {
                        let edge = t.out[s][(e - 1) as usize];
                        seq.push(edge.op);
                        let p = watch.get(w, 2);
                        if p > 0 {
                            seq.push(t.out[edge.next as usize][(p - 1) as usize].op);
                        }
                    }
                    json!({"limit": limit, "tl": tl, "unit": unit, "ops": seq.iter().map(|o| o.json()).collect::<Vec<_>>()})
                })
            });
        }
        for thx in 0..threads {
            let all_samples = &all_samples;
            let watch = &watch;
            let (t, next_state, stats, mism, mism_count, path_to) = (&t, &next_state, &stats, &mism, &mism_count, &path_to);
            sc.spawn(move || {
                let sample = std::cell::RefCell::new(Sample::new(2000 / threads.max(1), seed_from_env() ^ thx as u64));
                let (mut ne, mut np, mut nc, mut ng, mut nt, mut mp) = (0u64, 0u64, 0u64, 0u64, 0u64, 0usize);
                loop {
                    let i = next_state.fetch_add(1, Ordering::SeqCst);
                    if i >= n {
                        break;
                    }
                    let s = i as u32;
                    let path = path_to(s);
                    mp = mp.max(path.len());
                    watch.set(thx, 0, i as u64 + 1);
                    for (ei, e) in t.out[i].iter().enumerate() {
                        let mut seq = path.clone();
                        seq.push(e.op);
                        ne += 1;
                        watch.set(thx, 1, ei as u64 + 1);
                        watch.set(thx, 2, 0);
                        watch.tick(thx);
                        // non-trivial edge: a set that evicts or replaces (the queue does not simply grow by
                        // one), or a lookup that misses although an entry for the key is present (stale)
                        let present = t.state_keys[i].contains(&(e.op.route, e.op.host));
                        if (e.op.op == 0 && t.state_keys[e.next as usize].len() != t.state_keys[i].len() + 1)
                            || (e.op.op == 1 && present && e.res[0] == 0)
                        {
                            nt += 1;
                        }
                        let record = |m: Mismatch| {
                            sample.borrow_mut().offer(&m.seq, m.got == json!("panic"));
                            if mism_count.fetch_add(1, Ordering::SeqCst) < 10 {
                                mism.lock().unwrap().push(m.json(limit, tl, unit));
                            }
                        };
                        match run_checked(&t, limit, tl, unit, &seq, 0, &t.keys) {
                            Ok((c, g)) => {
                                nc += c;
                                ng += g;
                            }
                            Err(m) => {
                                record(m);
                                continue;
                            }
                        }
                        // one-operation probes from the target state (adjacent edge pairs)
                        for (pi, e2) in t.out[e.next as usize].iter().enumerate() {
                            let mut seq2 = seq.clone();
                            seq2.push(e2.op);
                            np += 1;
                            watch.set(thx, 2, pi as u64 + 1);
                            watch.tick(thx);
                            match run_checked(&t, limit, tl, unit, &seq2, seq2.len() - 1, &t.keys) {
                                Ok((c, g)) => {
                                    nc += c;
                                    ng += g;
                                }
                                Err(m) => {
                                    record(m);
                                    break;
                                }
                            }
                        }
                    }
                }
                all_samples.lock().unwrap().push(sample.into_inner());
                watch.done();
                let mut st = stats.lock().unwrap();
                st.0 += ne;
                st.1 += np;
                st.2 += nc;
                st.3 += ng;
                st.4 += nt;
                st.5 = st.5.max(mp);
            });
        }
    });
    let st = stats.lock().unwrap();
    let sample_state = order[order.len() / 2];
    let mut sample = path_to(sample_state).iter().map(|o| o.json()).collect::<Vec<_>>();
    if let Some(e) = t.out[sample_state as usize].first() {
        sample.push(e.op.json());
    }
    out_line(&json!({"summary": "edges", "states": n, "edges_in_file": t.edges, "edges": st.0, "probes": st.1, "calls": st.2, "gets": st.3,
        "nontrivial": st.4, "max_path": st.5, "complete": complete, "keys": t.keys.len(), "mismatches": mism_count.load(Ordering::SeqCst),
        "first": *mism.lock().unwrap(), "sampled": Sample::json(std::mem::take(&mut *all_samples.lock().unwrap())),
        "sample": {"limit": limit, "tl": tl, "unit": unit, "ops": sample}}));
}

// ------------------------------------------------------------------------------------------------
// B.2 all sequences of a given length in lock-step with the graph
// ------------------------------------------------------------------------------------------------
fn cmd_lockstep(args: &[String]) {
    let t = load_table(&args[0]);
    let limit: usize = args[1].parse().unwrap();
    let tl: usize = args[2].parse().unwrap();
    let unit: usize = args[3].parse().unwrap();
    let len: usize = args[4].parse().unwrap();
    let threads: usize = args[5].parse().unwrap();
    // alphabet: operations without the content id
    let mut alpha: Vec<OpA> = t.out[t.init as usize].iter().map(|e| e.op.no_id()).collect();
    alpha.sort();
    alpha.dedup();
    let a = alpha.len();
    let aix: HashMap<OpA, usize> = alpha.iter().enumerate().map(|(i, o)| (*o, i)).collect();
    let n = t.out.len();
    const NONE: u32 = u32::MAX;
    // flat lookup [state * a + letter] -> (id, res, next)
    let mut nxt = vec![NONE; n * a];
    let mut rid = vec![0u8; n * a];
    let mut res = vec![[0u32; 4]; n * a];
    for (s, o) in t.out.iter().enumerate() {
        for e in o {
            if e.panic {
                tool_error("lock-step graph contains a panicking edge");
            }
            let i = match aix.get(&e.op.no_id()) {
                Some(i) => *i,
                None => tool_error("edge outside the alphabet of the initial state"),
            };
            if nxt[s * a + i] != NONE {
                tool_error("lock-step graph is not deterministic per (state, operation)");
            }
            nxt[s * a + i] = e.next;
            rid[s * a + i] = e.op.id;
            res[s * a + i] = e.res;
        }
    }
    // letters that are lookups, by key
    let keys: Vec<(u8, u8)> = t.keys.clone();
    let key_ix: HashMap<(u8, u8), usize> = keys.iter().enumerate().map(|(i, k)| (*k, i)).collect();
    let nk = keys.len();
    let mut look = vec![[0u32; 4]; n * nk];
    for s in 0..n {
        for (k, (r, h)) in keys.iter().enumerate() {
            look[s * nk + k] = t.lookup(s as u32, *r, *h);
        }
    }
    let set_key: Vec<Option<usize>> = alpha.iter().map(|o| if o.op == 0 { Some(key_ix[&(o.route, o.host)]) } else { None }).collect();

    let first_len = if len >= 3 { 2 } else { 1 };
    let items = a.pow(first_len as u32);
    let next_item = AtomicUsize::new(0);
    let totals = Mutex::new([0u64; 6]); // sequences, calls, gets, prefixes checked, nontrivial prefixes, -
    let visited = Mutex::new(vec![false; n]);
    let mism: Mutex<Vec<Value>> = Mutex::new(vec![]);
    let mism_count = AtomicU64::new(0);
    let samples: Mutex<Vec<Value>> = Mutex::new(vec![]);
    let all_samples: Mutex<Vec<Sample>> = Mutex::new(vec![]);
    let watch = Watch::new(threads);
    std::thread::scope(|sc| {
        {
            let (watch, alpha) = (&watch, &alpha);
            sc.spawn(move || {
                watch.monitor("lockstep", &|w| {
                    // slots 0..len: letter + 1 of the word being executed
                    let ops: Vec<Value> = (0..len.min(8)).filter(|i| watch.get(w, *i) > 0).map(|i| alpha[(watch.get(w, i) - 1) as usize].json()).collect();
                    json!({"limit": limit, "tl": tl, "unit": unit, "ops": ops, "note": "content ids follow the graph (NextId)"})
                })
            });
        }
        for thx in 0..threads {
            let all_samples = &all_samples;
            let watch = &watch;
            let (t, alpha, nxt, rid, res, look, keys, set_key, next_item, totals, visited, mism, mism_count, samples) =
                (&t, &alpha, &nxt, &rid, &res, &look, &keys, &set_key, &next_item, &totals, &visited, &mism, &mism_count, &samples);
            sc.spawn(move || {
                let mut sample = Sample::new(2000 / threads.max(1), seed_from_env() ^ thx as u64);
                let mut tot = [0u64; 6];
                let mut vis = vec![false; n];
                let mut word = vec![0usize; len];
                loop {
                    let item = next_item.fetch_add(1, Ordering::SeqCst);
                    if item >= items {
                        break;
                    }
                    let mut x = item;
                    for i in (0..first_len).rev() {
                        word[i] = x % a;
                        x /= a;
                    }
                    for w in word.iter_mut().skip(first_len) {
                        *w = 0;
                    }
                    'words: loop {
                        // ---- one sequence on a fresh real object
                        // prefix word[..=i] is met for the first time iff all later letters are 0
                        let mut first_new = len - 1;
                        while first_new > 0 && word[first_new] == 0 {
                            first_new -= 1;
                        }
                        // (word[first_new] may be 0 too when the whole word is 0: then every prefix is new)
                        if word.iter().all(|w| *w == 0) {
                            first_new = 0;
                        }
                        let mut real = Real::new(limit, tl, unit);
                        let mut vnow = BASE;
                        set_vclock(vnow);
                        let mut s = t.init as usize;
                        let mut stored: u32 = 0;
                        tot[0] += 1;
                        for (i, l) in word.iter().enumerate().take(8) {
                            watch.set(thx, i, *l as u64 + 1);
                        }
                        watch.tick(thx);
                        for i in 0..len {
                            let l = word[i];
                            let ix = s * a + l;
                            if nxt[ix] == NONE {
                                tool_error(&format!("graph too shallow: no edge for {:?} at depth {} from {}", alpha[l], i, t.state_text[s]));
                            }
                            let op = OpA { id: rid[ix], ..alpha[l] };
                            let got = apply(&mut real, &op, &mut vnow);
                            tot[1] += 1;
                            let mut bad: Option<(String, Value, Value)> = None;
                            if got != Ok(res[ix]) {
                                bad = Some(("returned value".into(), json!(res[ix]), obs_json(&got)));
                            }
                            s = nxt[ix] as usize;
                            if let Some(k) = set_key[l] {
                                stored |= 1 << k;
                            }
                            if bad.is_none() && i >= first_new {
                                vis[s] = true;
                                tot[3] += 1;
                                let mut missing = false;
                                for (k, (r, h)) in keys.iter().enumerate() {
                                    if stored & (1 << k) == 0 {
                                        continue;
                                    }
                                    let exp = look[s * nk + k];
                                    let got = real.get(*r as usize, *h as usize, vnow);
                                    tot[2] += 1;
                                    if got != Ok(exp) {
                                        bad = Some((format!("get({},{}) after the step", ROUTES[*r as usize], h), json!(exp), obs_json(&got)));
                                        break;
                                    }
                                    if exp[0] == 0 {
                                        missing = true;
                                    }
                                }
                                if missing {
                                    tot[4] += 1;
                                    if i == len - 1 && tot[4] % 100_003 == 1 {
                                        let mut sm = samples.lock().unwrap();
                                        if sm.len() < 4 {
                                            sm.push(json!({"limit": limit, "tl": tl, "ops": (0..len).map(|j| alpha[word[j]].json()).collect::<Vec<_>>(),
                                                           "note": "a key stored earlier in this sequence is no longer retrievable (evicted or stale), as the graph predicts"}));
                                        }
                                    }
                                }
                            }
                            if let Some((what, exp, got)) = bad {
                                // the whole word with the ids of the graph, for the report and for the property judge
                                let mut ops = vec![];
                                let mut st = t.init as usize;
                                for j in 0..len {
                                    let ix = st * a + word[j];
                                    if nxt[ix] == NONE {
                                        break;
                                    }
                                    ops.push(OpA { id: rid[ix], ..alpha[word[j]] });
                                    st = nxt[ix] as usize;
                                }
                                sample.offer(&ops, got == json!("panic"));
                                if mism_count.fetch_add(1, Ordering::SeqCst) < 10 {
                                    mism.lock().unwrap().push(Mismatch { what, seq: ops, step: i, exp, got }.json(limit, tl, unit));
                                }
                                break;
                            }
                        }
                        // ---- next word within this work item
                        let mut p = len;
                        loop {
                            if p == first_len {
                                break 'words;
                            }
                            p -= 1;
                            word[p] += 1;
                            if word[p] < a {
                                break;
                            }
                            word[p] = 0;
                        }
                    }
                }
                all_samples.lock().unwrap().push(sample);
                watch.done();
                let mut g = totals.lock().unwrap();
                for i in 0..6 {
                    g[i] += tot[i];
                }
                let mut v = visited.lock().unwrap();
                for i in 0..n {
                    if vis[i] {
                        v[i] = true;
                    }
                }
            });
        }
    });
    let g = totals.lock().unwrap();
    let v = visited.lock().unwrap().iter().filter(|x| **x).count();
    out_line(&json!({"summary": "lockstep", "alphabet": a, "len": len, "sequences": g[0], "calls": g[1], "gets": g[2], "prefixes": g[3],
        "nontrivial": g[4], "graph_states": n, "graph_edges": t.edges, "states_visited": v, "mismatches": mism_count.load(Ordering::SeqCst),
        "first": *mism.lock().unwrap(), "sampled": Sample::json(std::mem::take(&mut *all_samples.lock().unwrap())),
        "samples": *samples.lock().unwrap()}));
}

// ------------------------------------------------------------------------------------------------
// replay of one stored case
// ------------------------------------------------------------------------------------------------
/// The observed history of operation sequences on the real Cache in the log format of `random`:
/// after every step the key just stored is looked up first, then every other key used so far.
fn runseq_trace(limit: usize, tl: usize, unit: usize) {
    // every key (route x host) that occurs in any of the sequences is looked up after every step, like in the graph replays
    let lines: Vec<String> = stdin_lines().collect();
    let mut routes: Vec<u8> = vec![];
    let mut hosts: Vec<u8> = vec![];
    for line in &lines {
        if let Ok(v) = serde_json::from_str::<Value>(line) {
            for o in v.as_array().map(|a| a.to_vec()).unwrap_or_default() {
                let op = OpA::from_json(&o);
                if op.op < 2 {
                    if !routes.contains(&op.route) {
                        routes.push(op.route);
                    }
                    if !hosts.contains(&op.host) {
                        hosts.push(op.host);
                    }
                }
            }
        }
    }
    let universe: Vec<(u8, u8)> = routes.iter().flat_map(|r| hosts.iter().map(move |h| (*r, *h))).collect();
    for line in lines {
        let v: Value = match serde_json::from_str(&line) {
            Ok(v) => v,
            Err(_) => continue,
        };
        let ops: Vec<OpA> = v.as_array().unwrap().iter().map(OpA::from_json).collect();
        let mut cache = make_cache(limit * unit, tl);
        let mut vnow = BASE;
        set_vclock(vnow);
        let mut keys: Vec<(u8, u8)> = vec![];
        let mut seq = 0u64;
        out_line(&event("reset", 0, 0, "", 0, 0, 0, "runseq", 0, 0, None, limit * unit, tl, 1));
        let mut lookup = |cache: &Cache, r: u8, h: u8, vnow: i64, seq: &mut u64| {
            *seq += 1;
            let route = ROUTES[r as usize];
            let got = catch_unwind(AssertUnwindSafe(|| {
                cache.get(route, h as usize).map(|i| (i.data.len(), h31(&i.data), i.mime_type.to_string(), secs_of(&i.cache_time), i.route != route || i.host != h as usize))
            }));
            match got {
                Ok(res) => {
                    let wrong = res.as_ref().map(|x| x.4).unwrap_or(false);
                    out_line(&event("get", *seq, 0, route, h as usize, 0, 0, "", vnow, vnow, res.map(|x| (x.0, x.1, x.2, x.3)), limit * unit, tl, wrong as u64))
                }
                // a panicking lookup is reported as a hit that carries a wrong key: never acceptable
                Err(_) => out_line(&event("get", *seq, 0, route, h as usize, 0, 0, "", vnow, vnow, Some((0, 0, "panic".into(), vnow)), limit * unit, tl, 1)),
            }
        };
        for op in &ops {
            match op.op {
                0 => {
                    let data = vec![op.id; op.size as usize * unit];
                    let (size, hash) = (data.len(), h31(&data));
                    let mime = mime_of(op.id as u32);
                    let route = ROUTES[op.route as usize];
                    let c = &mut cache;
                    let panicked = catch_unwind(AssertUnwindSafe(move || c.set(route, op.host as usize, data, mime))).is_err();
                    seq += 1;
                    out_line(&event("set", seq, 0, route, op.host as usize, size, hash, &mime.to_string(), vnow, vnow, None, limit * unit, tl, if panicked { 2 } else { 0 }));
                    keys.retain(|k| *k != (op.route, op.host));
                    keys.insert(0, (op.route, op.host));
                }
                1 => {
                    lookup(&cache, op.route, op.host, vnow, &mut seq);
                    if !keys.contains(&(op.route, op.host)) {
                        keys.push((op.route, op.host));
                    }
                    continue;
                }
                _ => {
                    vnow += op.d as i64;
                    set_vclock(vnow);
                }
            }
            for (r, h) in keys.clone() {
                lookup(&cache, r, h, vnow, &mut seq);
            }
            for (r, h) in &universe {
                if !keys.contains(&(*r, *h)) {
                    lookup(&cache, *r, *h, vnow, &mut seq);
                }
            }
        }
    }
}

fn cmd_runseq(args: &[String]) {
    let limit: usize = args[0].parse().unwrap();
    let tl: usize = args[1].parse().unwrap();
    let unit: usize = args[2].parse().unwrap();
    if args.len() > 3 && args[3] == "trace" {
        return runseq_trace(limit, tl, unit);
    }
    let text: String = stdin_lines().collect::<Vec<_>>().join("\n");
    let v: Value = serde_json::from_str(&text).unwrap();
    let ops: Vec<OpA> = v.as_array().unwrap().iter().map(OpA::from_json).collect();
    let mut real = Real::new(limit, tl, unit);
    let mut vnow = BASE;
    set_vclock(vnow);
    let mut keys: Vec<(u8, u8)> = vec![];
    for (i, op) in ops.iter().enumerate() {
        let got = apply(&mut real, op, &mut vnow);
        if op.op < 2 && !keys.contains(&(op.route, op.host)) {
            keys.push((op.route, op.host));
        }
        let all: Vec<Value> = keys.iter().map(|(r, h)| json!([r, h, obs_json(&real.get(*r as usize, *h as usize, vnow))])).collect();
        out_line(&json!({"step": i, "op": op.json(), "got": obs_json(&got), "get_all": all}));
    }
}

// ------------------------------------------------------------------------------------------------
// calibration and the real clock
// ------------------------------------------------------------------------------------------------
fn cmd_calibrate() {
    // 1. the override is what SystemTime::now() sees, per thread
    let real0 = now_secs();
    set_vclock(BASE + 5);
    let v = now_secs();
    let other = std::thread::spawn(now_secs).join().unwrap();
    set_vclock(-1);
    let real1 = now_secs();
    // 2. and it is what the real Cache stores and compares with
    set_vclock(BASE);
    let (stored, at1, at2) = catch_unwind(|| {
        let mut c = make_cache(10, 1);
        c.set("/x", 0, vec![7; 3], MimeType::TextPlain);
        let stored = c.get("/x", 0).map(|i| secs_of(&i.cache_time));
        set_vclock(BASE + 1);
        let at1 = c.get("/x", 0).is_some();
        set_vclock(BASE + 2);
        let at2 = c.get("/x", 0).is_some();
        (stored, at1, at2)
    })
    .unwrap_or((None, false, true));
    set_vclock(-1);
    // the override itself (a fact about this binary; failing it is a tool error) ...
    let ok = v == BASE + 5 && (other - real0).abs() <= 2 && (real1 - real0).abs() <= 2 && real0 < BASE;
    // ... and that the Cache stores / compares that time (what the code under test does with it is data:
    // if it is off, the replays that follow report it)
    let cache_ok = stored == Some(BASE) && at1 && !at2;
    out_line(&json!({"summary": "calibrate", "ok": ok, "cache_uses_clock": cache_ok, "virtual_seen": v, "other_thread": other, "real": real0,
                     "stored_time": stored, "hit_at_1": at1, "hit_at_2": at2}));
    if !ok {
        std::process::exit(3);
    }
}

/// The unmodified clock: events in the format of `random`, single thread, real sleeps across second
/// boundaries, time limits 0 and 1.  Validated by Trace_Cache like every other log.
fn cmd_realclock() {
    set_vclock(-1);
    GLOBAL_CLOCK.store(-1, Ordering::SeqCst);
    let mut rng = Rng::from_env();
    for (tl, rounds) in [(0usize, 3usize), (1, 2)] {
        let limit = 64usize;
        let log = Log::new(limit, tl);
        let cache = RwLock::new(make_cache(limit, tl));
        for round in 0..rounds {
            for k in 0..4usize {
                let size = [0, 16, 32, 64][(k + round) % 4];
                do_set(&cache, &log, 0, &format!("/r{}", k), k % 2, rng.bytes(size), MIMES[k % MIMES.len()], false);
                do_get(&cache, &log, 0, &format!("/r{}", k), k % 2, false);
            }
            for k in 0..4usize {
                do_get(&cache, &log, 0, &format!("/r{}", k), k % 2, false);
            }
            std::thread::sleep(Duration::from_millis(if tl == 0 { 1050 } else { 2050 } / if round == 0 && tl == 1 { 2 } else { 1 }));
            for k in 0..4usize {
                do_get(&cache, &log, 0, &format!("/r{}", k), k % 2, false);
            }
            // store again what may just have expired: same key, SAME length, other bytes; it must be retrievable at once
            for k in 0..4usize {
                let size = [0, 16, 32, 64][(k + round) % 4];
                do_set(&cache, &log, 0, &format!("/r{}", k), k % 2, rng.bytes(size), MIMES[(k + 1) % MIMES.len()], false);
                do_get(&cache, &log, 0, &format!("/r{}", k), k % 2, false);
            }
        }
        log.dump("realclock", 1);
    }
}

// ------------------------------------------------------------------------------------------------
// C: random histories through RwLock<Cache>, as the handlers use it
// ------------------------------------------------------------------------------------------------
const MIMES: [MimeType; 6] = [MimeType::TextHtml, MimeType::ImagePng, MimeType::TextCss, MimeType::ApplicationJson, MimeType::ApplicationOctetStream, MimeType::FontWoff2];

/// payload identity in the log: (length, fnv64 of the bytes reduced to 31 bits, MIME string)
fn h31(data: &[u8]) -> u64 {
    fnv64(data) & 0x7fff_ffff
}

struct Log {
    seq: AtomicU64,
    events: Mutex<Vec<(u64, Value)>>,
    limit: usize,
    tl: usize,
}
impl Log {
    fn new(limit: usize, tl: usize) -> Self {
        Log { seq: AtomicU64::new(1), events: Mutex::new(vec![]), limit, tl }
    }
    fn next(&self) -> u64 {
        self.seq.fetch_add(1, Ordering::SeqCst)
    }
    fn push(&self, seq: u64, v: Value) {
        self.events.lock().unwrap().push((seq, v));
    }
    /// prints `reset` (carrying the configuration) followed by the events in sequence order
    fn dump(&self, kind: &str, threads: usize) {
        let mut ev = self.events.lock().unwrap();
        ev.sort_by_key(|e| e.0);
        out_line(&event("reset", 0, 0, "", 0, 0, 0, kind, 0, 0, None, self.limit, self.tl, threads as u64));
        for (_, v) in ev.iter() {
            out_line(v);
        }
    }
}

#[allow(clippy::too_many_arguments)]
fn event(ev: &str, seq: u64, thr: usize, route: &str, host: usize, size: usize, hash: u64, mime: &str, lo: i64, hi: i64,
         res: Option<(usize, u64, String, i64)>, limit: usize, tl: usize, aux: u64) -> Value {
    let (hit, rsize, rhash, rmime, rt) = match res {
        Some((s, h, m, t)) => (true, s, h, m, t),
        None => (false, 0, 0, String::new(), 0),
    };
    json!({"ev": ev, "seq": seq, "thr": thr, "route": route, "host": host, "size": size, "hash": hash, "mime": mime,
           "lo": lo, "hi": hi, "hit": hit, "rsize": rsize, "rhash": rhash, "rmime": rmime, "rt": rt, "limit": limit, "tl": tl, "aux": aux})
}

/// Cache::set under the write guard, event logged while the guard is held
#[allow(clippy::too_many_arguments)]
fn do_set(cache: &RwLock<Cache>, log: &Log, thr: usize, route: &str, host: usize, data: Vec<u8>, mime: MimeType, _virt: bool) {
    let size = data.len();
    let hash = h31(&data);
    let mut g = cache.write().unwrap_or_else(|e| e.into_inner());
    let lo = now_secs();
    // a panic of the code under test is data (aux = 2), not a crash of the harness
    let panicked = catch_unwind(AssertUnwindSafe(|| g.set(route, host, data, mime))).is_err();
    let hi = now_secs();
    let seq = log.next();
    log.push(seq, event("set", seq, thr, route, host, size, hash, &mime.to_string(), lo, hi, None, log.limit, log.tl, if panicked { 2 } else { 0 }));
    drop(g);
}

/// Cache::get under the read guard, event logged while the guard is held
fn do_get(cache: &RwLock<Cache>, log: &Log, thr: usize, route: &str, host: usize, _virt: bool) {
    let g = cache.read().unwrap_or_else(|e| e.into_inner());
    let lo = now_secs();
    let r = match catch_unwind(AssertUnwindSafe(|| g.get(route, host))) {
        Ok(r) => r,
        Err(_) => {
            // reported as a hit that carries a wrong key: never acceptable
            let hi = now_secs();
            let seq = log.next();
            log.push(seq, event("get", seq, thr, route, host, 0, 0, "", lo, hi, Some((0, 0, "panic".into(), lo)), log.limit, log.tl, 1));
            return;
        }
    };
    let hi = now_secs();
    let res = r.map(|i| (i.data.len(), h31(&i.data), i.mime_type.to_string(), secs_of(&i.cache_time)));
    let wrong_key = r.map(|i| i.route != route || i.host != host).unwrap_or(false);
    let seq = log.next();
    log.push(seq, event("get", seq, thr, route, host, 0, 0, "", lo, hi, res, log.limit, log.tl, wrong_key as u64));
    drop(g);
}

fn random_size(rng: &mut Rng, limit: usize) -> usize {
    match rng.below(13) {
        0 => 0,
        1 => limit,
        2 => limit / 2,
        3 => limit.saturating_sub(1),
        4 => (limit / 2 + 1).min(limit),
        5 => 1.min(limit),
        6..=9 => rng.range(0, (limit / 8).max(1).min(limit)),
        _ => rng.range(0, limit),
    }
}

/// 8 routes x 4 hosts = 32 keys.  The routes differ only in case, a trailing slash, percent-encoding,
/// Unicode normalisation form (U+00E9 vs e + U+0301), or are empty / non-ASCII: every one is its own key.
/// The hosts sit on the boundaries of narrower integer types.
const RROUTES: [&str; 8] = ["/k1", "/K1", "/k1/", "/k%31", "/\u{e9}", "/e\u{301}", "", "/\u{df}"];
const RHOSTS: [usize; 4] = [0, 1, 256, 65536];

fn cmd_random(args: &[String]) {
    let threads: usize = args[0].parse().unwrap();
    let nops: usize = args[1].parse().unwrap();
    let limit: usize = args[2].parse().unwrap();
    let tl: usize = args[3].parse().unwrap();
    let virt = args[4] == "virtual";
    if virt {
        GLOBAL_CLOCK.store(BASE, Ordering::SeqCst);
    }
    let seed = seed_from_env() ^ ((threads as u64) << 32) ^ ((limit as u64) << 8) ^ tl as u64;
    let cache = RwLock::new(make_cache(limit, tl));
    let log = Log::new(limit, tl);
    let remaining = AtomicI64::new(nops as i64);
    let watch = Watch::new(threads);
    std::thread::scope(|sc| {
        {
            let watch = &watch;
            sc.spawn(move || watch.monitor("random", &|w| json!(*watch.note[w].lock().unwrap())));
        }
        for th in 0..threads {
            let (cache, log, remaining, watch) = (&cache, &log, &remaining, &watch);
            sc.spawn(move || {
                let mut rng = Rng::new(seed.wrapping_mul(31).wrapping_add(th as u64));
                // lookups prefer keys this thread stored recently
                let mut recent: Vec<(String, usize)> = vec![];
                while remaining.fetch_sub(1, Ordering::SeqCst) > 0 {
                    let mut route = rng.pick(&RROUTES).to_string();
                    let mut host = *rng.pick(&RHOSTS);
                    watch.tick(th);
                    if virt {
                        // the clock moves between calls and (other threads) during calls
                        match rng.below(200) {
                            0..=5 => { GLOBAL_CLOCK.fetch_add(1, Ordering::SeqCst); }
                            6 => { GLOBAL_CLOCK.fetch_add(30, Ordering::SeqCst); }
                            7 => { GLOBAL_CLOCK.fetch_add(61, Ordering::SeqCst); }
                            _ => {}
                        }
                    }
                    if rng.chance(1, 2) {
                        let size = random_size(&mut rng, limit);
                        let data = rng.bytes(size);
                        let mime = *rng.pick(&MIMES);
                        *watch.note[th].lock().unwrap() = format!("set({:?}, {}, {} bytes) limit={} tl={}", route, host, size, limit, tl);
                        do_set(cache, log, th, &route, host, data, mime, virt);
                        recent.push((route, host));
                        if recent.len() > 6 {
                            recent.remove(0);
                        }
                    } else {
                        if !recent.is_empty() && rng.chance(2, 3) {
                            let (r, h) = rng.pick(&recent).clone();
                            route = r;
                            host = h;
                        }
                        *watch.note[th].lock().unwrap() = format!("get({:?}, {}) limit={} tl={}", route, host, limit, tl);
                        do_get(cache, log, th, &route, host, virt);
                    }
                }
                watch.done();
            });
        }
    });
    // final sweep: the exact content of the cache after the concurrent phase, one lookup per key
    for r in RROUTES {
        for h in RHOSTS {
            do_get(&cache, &log, 0, r, h, virt);
        }
    }
    log.dump(if virt { "virtual" } else { "real" }, threads);
}

// ------------------------------------------------------------------------------------------------
// C at handler level: file_handler / directory_handler with a cache-enabled AppState
// ------------------------------------------------------------------------------------------------
/// A request as production builds it: the bytes of a GET request parsed by the real parser
/// (Request::from_stream), so that uri / query are split the way the server splits them.
fn request(target: &str) -> Request {
    let bytes = format!("GET {} HTTP/1.1\r\nHost: localhost\r\nUser-Agent: hv\r\n\r\n", target).into_bytes();
    let mut rd: &[u8] = &bytes;
    match Request::from_stream(&mut rd, "127.0.0.1:4000".parse().unwrap()) {
        Ok(r) => r,
        Err(_) => Request {
            // (not reached for the targets below; keeps the harness total)
            method: Method::Get,
            uri: target.to_string(),
            query: String::new(),
            version: "HTTP/1.1".to_string(),
            headers: Headers::new(),
            content: None,
            address: Address::new("127.0.0.1:4000").unwrap(),
        },
    }
}

// (request target, host, kind, what the target resolves to)   kind 0: directory route "/*" on `site`, 1: file route, 2: directory route "/alt/*" on `site/sub`
// "/" = a directory named without the trailing slash (301), "-" = nothing (404).  Targets that differ only in a
// trailing slash, in case, in percent-encoding or in the query string; the same path on two hosts with the same
// and with different files behind it.
const TARGETS: [(&str, usize, u8, &str); 22] = [
    ("/a.html", 0, 0, "a.html"),
    ("/a.html?v=2", 0, 0, "a.html"),
    ("/A.html", 0, 0, "A.html"),
    ("/a.html/", 0, 0, "-"),
    ("/a%2Ehtml", 0, 0, "a.html"),
    ("/a.html", 1, 0, "a.html"),
    ("/b.png", 0, 0, "b.png"),
    ("/sub/", 0, 0, "sub/index.html"),
    ("/sub", 0, 0, "/"),
    ("/sub//", 0, 0, "sub/index.html"),
    ("/sub/c.css", 1, 0, "sub/c.css"),
    ("/sub/c.css/", 1, 0, "-"),
    ("/single", 0, 1, "b.png"),
    ("/single", 1, 1, "data.bin"),
    ("/single/", 0, 1, "b.png"),
    ("/empty.txt", 0, 0, "empty.txt"),
    ("/nope.txt", 1, 0, "-"),
    ("/nope.txt", 0, 0, "-"),
    // a second directory route, "/alt/*" on `site/sub` (kind 2): the same relative paths as under "/*" lead to other
    // files or to nothing - the one cache of the server must keep the routes apart
    ("/alt/c.css", 0, 2, "sub/c.css"),
    ("/c.css", 0, 0, "-"),
    ("/alt/index.html", 1, 2, "sub/index.html"),
    ("/index.html", 1, 0, "-"),
];
// the MIME type each file has by its extension (what a miss must answer)
const FILES: [(&str, &str); 7] = [("a.html", "text/html"), ("A.html", "text/html"), ("b.png", "image/png"), ("sub/index.html", "text/html"),
                                  ("sub/c.css", "text/css"), ("data.bin", "application/octet-stream"), ("empty.txt", "text/plain")];

struct HLog {
    seq: AtomicU64,
    events: Mutex<Vec<(u64, Value)>>,
    limit: usize,
    tl: usize,
}
impl HLog {
    #[allow(clippy::too_many_arguments)]
    fn ev(&self, ev: &str, s: u64, thr: usize, uri: &str, host: usize, file: &str, size: usize, hash: u64, mime: &str, lo: i64, hi: i64, status: u64) -> Value {
        json!({"ev": ev, "seq": s, "thr": thr, "uri": uri, "host": host, "file": file, "size": size, "hash": hash, "mime": mime,
               "lo": lo, "hi": hi, "status": status, "limit": self.limit, "tl": self.tl})
    }
    fn next(&self) -> u64 {
        self.seq.fetch_add(1, Ordering::SeqCst)
    }
    fn dump(&self, threads: usize) {
        out_line(&self.ev("reset", 0, 0, "", 0, "", 0, 0, "", 0, 0, threads as u64));
        let mut ev = self.events.lock().unwrap();
        ev.sort_by_key(|e| e.0);
        for (_, v) in ev.iter() {
            out_line(v);
        }
    }
}

/// writes a file and stamps it with the clock the process sees (so that modification times and the
/// cache's times live on one time line also under the virtual clock)
fn write_file(log: &HLog, site: &std::path::Path, f: &str, mime: &str, data: &[u8]) {
    let path = site.join(f);
    std::fs::write(&path, data).unwrap();
    let now = now_secs();
    let c = std::ffi::CString::new(path.to_str().unwrap()).unwrap();
    let ts = [libc::timespec { tv_sec: now as libc::time_t, tv_nsec: 0 }, libc::timespec { tv_sec: now as libc::time_t, tv_nsec: 0 }];
    unsafe {
        libc::utimensat(libc::AT_FDCWD, c.as_ptr(), ts.as_ptr(), 0);
    }
    let s = log.next();
    log.events.lock().unwrap().push((s, log.ev("write", s, 0, "", 0, f, data.len(), h31(data), mime, now, now, 0)));
}

/// one handler call through the real entry points of static.rs; `start` and `end` records
fn handle(log: &HLog, state: &Arc<AppState>, site_s: &str, th: usize, target: (&str, usize, u8, &str)) {
    let (raw, host, kind, file) = target;
    let s0 = log.next();
    let lo = now_secs();
    let st = state.clone();
    let path = format!("{}/{}", site_s, file);
    let req = request(raw);
    let uri = req.uri.clone();
    let r = catch_unwind(AssertUnwindSafe(|| {
        if kind == 0 {
            directory_handler(req, st, site_s, "/*", host)
        } else if kind == 2 {
            directory_handler(req, st, &format!("{}/sub", site_s), "/alt/*", host)
        } else {
            file_handler(req, st, &path, host)
        }
    }));
    let hi = now_secs();
    let s1 = log.next();
    let end = match r {
        Ok(resp) => {
            let code: u16 = resp.status_code.into();
            let ct = resp.headers.get("Content-Type").unwrap_or("").to_string();
            if code == 200 {
                log.ev("end", s1, th, &uri, host, file, resp.body.len(), h31(&resp.body), &ct, lo, hi, 200)
            } else {
                log.ev("end", s1, th, &uri, host, file, 0, 0, "", lo, hi, code as u64)
            }
        }
        Err(_) => log.ev("end", s1, th, &uri, host, file, 0, 0, "", lo, hi, 0),
    };
    let mut ev = log.events.lock().unwrap();
    ev.push((s0, log.ev("start", s0, th, &uri, host, file, 0, 0, "", lo, hi, 0)));
    ev.push((s1, end));
}

fn handler_state(dir: &std::path::Path, limit: usize, tl: usize) -> (Arc<AppState>, std::path::PathBuf) {
    let _ = std::fs::remove_dir_all(dir);
    std::fs::create_dir_all(dir.join("site/sub")).unwrap();
    let mut config = Config::default();
    config.cache.size_limit = limit;
    config.cache.time_limit = tl;
    config.logging.console = false;
    config.logging.level = LogLevel::Error;
    (Arc::new(AppState::from(config)), dir.join("site"))
}

/// Events: `write` (a file got new content; logged with the clock), `start` / `end` (one handler call:
/// thread, uri as parsed, host, the file the target resolves to, clock window; status, body identity,
/// content type).  Several threads call the handlers; files are rewritten only *between* phases of
/// requests (the property's "files change between requests"), within a phase requests race.
fn cmd_handlers(args: &[String]) {
    let dir = std::path::PathBuf::from(&args[0]);
    let nops: usize = args[1].parse().unwrap();
    let limit: usize = args[2].parse().unwrap();
    let tl: usize = args[3].parse().unwrap();
    let threads: usize = args[4].parse().unwrap();
    GLOBAL_CLOCK.store(BASE, Ordering::SeqCst);
    let (state, site) = handler_state(&dir, limit, tl);
    let site_s = site.to_str().unwrap().to_string();
    let mut rng = Rng::from_env();
    let log = HLog { seq: AtomicU64::new(1), events: Mutex::new(vec![]), limit, tl };
    let new_content = |rng: &mut Rng, f: &str, same_len: Option<usize>| -> Vec<u8> {
        let size = if f == "empty.txt" { 0 } else { same_len.unwrap_or_else(|| random_size(rng, limit + limit / 4 + 1)) };
        rng.bytes(size)
    };
    let mut sizes: HashMap<&str, usize> = HashMap::new();
    for (f, m) in FILES {
        let data = new_content(&mut rng, f, None);
        sizes.insert(f, data.len());
        write_file(&log, &site, f, m, &data);
    }
    let per_phase = 8 * threads;
    let phases = (nops / per_phase).max(1);
    // (workers never call done(): the monitor watches until the process ends)
    let watch = Arc::new(Watch::new(threads));
    {
        let watch = watch.clone();
        std::thread::spawn(move || watch.monitor("handlers", &|w| json!(*watch.note[w].lock().unwrap())));
    }
    for _phase in 0..phases {
        // requests race with each other, files are stable
        let remaining = AtomicI64::new(per_phase as i64);
        std::thread::scope(|sc| {
            for th in 0..threads {
                let (state, remaining, log, site_s, watch) = (&state, &remaining, &log, &site_s, &watch);
                let mut trng = Rng::new(rng.next_u64() ^ th as u64);
                sc.spawn(move || {
                    while remaining.fetch_sub(1, Ordering::SeqCst) > 0 {
                        let target = *trng.pick(&TARGETS);
                        if trng.chance(1, 12) {
                            GLOBAL_CLOCK.fetch_add(1, Ordering::SeqCst);
                        }
                        *watch.note[th].lock().unwrap() = format!("GET {} host {} limit={} tl={}", target.0, target.1, limit, tl);
                        watch.tick(th);
                        handle(log, state, site_s, th, target);
                    }
                });
            }
        });
        // files change between requests - often within the same second in which they were cached, and often
        // keeping their length; sometimes time passes
        for (f, m) in FILES {
            if rng.chance(1, 3) {
                let keep = if rng.chance(1, 2) { sizes.get(f).copied() } else { None };
                let data = new_content(&mut rng, f, keep);
                sizes.insert(f, data.len());
                write_file(&log, &site, f, m, &data);
            }
        }
        match rng.below(10) {
            0..=2 => { GLOBAL_CLOCK.fetch_add(1, Ordering::SeqCst); }
            3 => { GLOBAL_CLOCK.fetch_add(61, Ordering::SeqCst); }
            _ => {}
        }
    }
    // a served file that is not a regular file: a named pipe whose stat length is 0 and which yields more than the cache
    // limit (a log being appended to behaves the same way around the limit: the size seen by stat is not the number of
    // bytes read).  It has to be served like any file too large to cache, and the cache has to go on working afterwards
    // (added after the seeded change `C16-r5-inner-file-handler-...` - cacheability decided from the stat size, the oversize
    // set panics under the write lock and poisons it - was missed: files only ever changed between requests).
    if limit > 0 {
        use std::io::Write;
        let data = rng.bytes(limit + 7);
        write_file(&log, &site, "pipe.bin", "application/octet-stream", &data);
        let p = site.join("pipe.bin");
        let _ = std::fs::remove_file(&p);
        let c = std::ffi::CString::new(p.to_str().unwrap()).unwrap();
        let made = unsafe { libc::mkfifo(c.as_ptr(), 0o644) } == 0;
        if made {
            let (p2, d2) = (p.clone(), data.clone());
            // (detached: if the handler under test never opens the pipe, the writer stays blocked in open() until the process ends)
            std::thread::spawn(move || { if let Ok(mut f) = std::fs::OpenOptions::new().write(true).open(&p2) { let _ = f.write_all(&d2); } });
            *watch.note[0].lock().unwrap() = format!("GET /pipe.bin (a named pipe yielding limit+7 bytes) limit={} tl={}", limit, tl);
            watch.tick(0);
            handle(&log, &state, &site_s, 0, ("/pipe", 0, 1, "pipe.bin"));
            let _ = std::fs::remove_file(&p);
            for k in 0..(2 * TARGETS.len()) {
                let target = TARGETS[k % TARGETS.len()];
                watch.tick(0);
                handle(&log, &state, &site_s, 0, target);
            }
        }
    }
    log.dump(threads);
    let _ = std::fs::remove_dir_all(&dir);
}

/// Size bound under racing handlers: `threads` handler threads leave a barrier together, each asking for its own,
/// uncached file of 5/8 of the limit (each fits, no two fit together), round after round; an observer keeps taking
/// the cache's READ guard and adds up what Cache::get returns for every key in use - a `sweep` record (the largest
/// total seen in the round, and the first that exceeds the limit).  Same log format as `handlers`.
fn cmd_sizerace(args: &[String]) {
    let dir = std::path::PathBuf::from(&args[0]);
    let rounds: usize = args[1].parse().unwrap();
    let limit: usize = args[2].parse().unwrap();
    let threads: usize = args[3].parse::<usize>().unwrap().max(1).min(8);
    GLOBAL_CLOCK.store(BASE, Ordering::SeqCst);
    let tl = 60usize;
    let (state, site) = handler_state(&dir, limit, tl);
    let site_s = site.to_str().unwrap().to_string();
    let mut rng = Rng::from_env();
    let log = HLog { seq: AtomicU64::new(1), events: Mutex::new(vec![]), limit, tl };
    let names: Vec<String> = (0..threads).map(|i| format!("r{}.bin", i)).collect();
    let uris: Vec<String> = names.iter().map(|n| format!("/{}", n)).collect();
    let size = limit * 5 / 8;
    for n in &names {
        write_file(&log, &site, n, "application/octet-stream", &rng.bytes(size));
    }
    let stop = std::sync::atomic::AtomicBool::new(false);
    // (largest total of the current round - None before the first sweep of the round, so that every round has a record,
    //  also on a tree whose keys the observer does not know and whose totals are all 0 -, its record)
    let worst: Mutex<(Option<usize>, Option<Value>)> = Mutex::new((None, None));
    std::thread::scope(|sc| {
        {
            let (state, log, uris, stop, worst) = (&state, &log, &uris, &stop, &worst);
            sc.spawn(move || {
                while !stop.load(Ordering::SeqCst) {
                    let g = state.cache.read().unwrap_or_else(|e| e.into_inner());
                    let total: usize = uris.iter().map(|u| catch_unwind(AssertUnwindSafe(|| g.get(u, 0).map(|i| i.data.len()).unwrap_or(0))).unwrap_or(0)).sum();
                    let mut w = worst.lock().unwrap();
                    if w.0.map_or(true, |m| total > m) {
                        let s = log.next();   // under the read guard: the position of the snapshot among the handler records
                        let now = now_secs();
                        w.0 = Some(total);
                        w.1 = Some(log.ev("sweep", s, 0, "", 0, "", total, 0, "", now, now, 0));
                    }
                    drop(w);
                    drop(g);
                    std::thread::yield_now();
                }
            });
        }
        for _round in 0..rounds {
            let barrier = std::sync::Barrier::new(threads);
            std::thread::scope(|sc2| {
                for th in 0..threads {
                    let (state, log, site_s, barrier, uri, name) = (&state, &log, &site_s, &barrier, &uris[th], &names[th]);
                    sc2.spawn(move || {
                        barrier.wait();
                        handle(log, state, site_s, th, (uri.as_str(), 0, 0, name.as_str()));
                    });
                }
            });
            // the largest total of the round becomes a record
            let mut w = worst.lock().unwrap();
            if let Some(v) = w.1.take() {
                let s = v["seq"].as_u64().unwrap_or(0);
                log.events.lock().unwrap().push((s, v));
            }
            w.0 = None;
        }
        stop.store(true, Ordering::SeqCst);
    });
    log.dump(threads);
    let _ = std::fs::remove_dir_all(&dir);
}

/// The same on the unmodified wall clock: cache a file, rewrite it within the same second (same length),
/// request again, let the time limit pass, request again; then once more across the next expiry.
fn cmd_realhandlers(args: &[String]) {
    let dir = std::path::PathBuf::from(&args[0]);
    set_vclock(-1);
    GLOBAL_CLOCK.store(-1, Ordering::SeqCst);
    let mut rng = Rng::from_env();
    for tl in [0usize, 1] {
        let limit = 4096usize;
        let (state, site) = handler_state(&dir, limit, tl);
        let site_s = site.to_str().unwrap().to_string();
        let log = HLog { seq: AtomicU64::new(1), events: Mutex::new(vec![]), limit, tl };
        for (f, m) in FILES {
            write_file(&log, &site, f, m, &rng.bytes(if f == "empty.txt" { 0 } else { 100 }));
        }
        let picks = [TARGETS[0], TARGETS[7], TARGETS[8], TARGETS[12], TARGETS[13], TARGETS[3], TARGETS[5]];
        for round in 0..2 {
            for t in picks {
                handle(&log, &state, &site_s, 0, t);
            }
            // rewritten at once (in all likelihood the very second in which it was cached), same length
            for (f, m) in FILES {
                write_file(&log, &site, f, m, &rng.bytes(if f == "empty.txt" { 0 } else { 100 }));
            }
            for t in picks {
                handle(&log, &state, &site_s, 0, t);
            }
            std::thread::sleep(Duration::from_millis(if tl == 0 { 1100 } else if round == 0 { 1100 } else { 2100 }));
            for t in picks {
                handle(&log, &state, &site_s, 0, t);
            }
        }
        log.dump(1);
    }
    let _ = std::fs::remove_dir_all(&dir);
}

fn main() {
    quiet_panics();
    let args: Vec<String> = std::env::args().skip(1).collect();
    if args.is_empty() {
        tool_error("usage: cache <calibrate|edges|lockstep|random|handlers|realclock|runseq> ...");
    }
    match args[0].as_str() {
        "calibrate" => cmd_calibrate(),
        "edges" => cmd_edges(&args[1..]),
        "lockstep" => cmd_lockstep(&args[1..]),
        "random" => cmd_random(&args[1..]),
        "handlers" => cmd_handlers(&args[1..]),
        "sizerace" => cmd_sizerace(&args[1..]),
        "realclock" => cmd_realclock(),
        "realhandlers" => cmd_realhandlers(&args[1..]),
        "runseq" => cmd_runseq(&args[1..]),
        _ => tool_error("unknown command"),
    }
}
