//! Shared helpers for the conformance harness.
pub mod util;
