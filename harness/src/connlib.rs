//! C01 client side, shared by the threaded (`hv`) and tokio (`hvt`) harness bins via `#[path]`.
//!
//! A *job* (one JSON line on stdin) describes one connection: an abstract script from HttpConn.tla
//! (elements with hl = 3 and bl in {0,2,3}), a segmentation (abstract send sizes chosen by TLC, or one
//! of the byte-exact extreme plans) and pacing hints. The driver renders concrete bytes, plays the
//! segmentation against a real App over loopback, parses the server's byte stream with a strict
//! reference parser and prints one JSON line: the concrete script (real hl/dl/bl) and the event log
//! (Send / Recv / Eof / Quiet / IdleBegin / IdleEnd / Shut) that Trace_HttpConn.tla validates.
use crate::util::Rng;
use serde_json::{json, Value};
use std::io::{Read, Write};
use std::net::{Shutdown, SocketAddr, TcpStream};
use std::time::{Duration, Instant};

pub const IDLE_TIMEOUT_MS: u64 = 1000; // connection timeout configured on the "timeout" App instance
const IDLE_WAIT_MS: u64 = 2200; // how long the client idles at an idle marker
const PATIENCE_MS: u64 = 3000; // silence after which the client gives up waiting (Quiet)
const GRACE_MS: u64 = 120; // wait for surplus data / an unexpected close

#[derive(Clone, Debug)]
pub struct Elem {
    pub kind: String, // "req" | "idle" | "trunc" (head cut off, then shutdown(write)) | "lf" (complete head, bare-LF line endings)
    pub is_req: bool,
    pub wf: bool,
    pub m: String,
    pub tgt: String,
    pub conn: String,
    pub ver: String,
    pub abs_bl: usize,
    pub abs_dl: usize,
    // concrete
    pub head: Vec<u8>,
    pub body: Vec<u8>,
    pub dl: usize,
}

fn path_of(tgt: &str) -> &'static str {
    match tgt {
        "plain" => "/plain",
        "cors" => "/cors",
        "echo" => "/echo",
        "empty" => "/empty",
        "panic" => "/panic",
        _ => "/nope",
    }
}

pub fn render(e: &Value, idx: usize, rng: &mut Rng) -> Elem {
    let s = |k: &str| e[k].as_str().unwrap_or("").to_string();
    let kind = s("k");
    let is_req = kind != "idle";
    let wf = e["wf"].as_bool().unwrap_or(true);
    let (m, tgt, conn, ver) = (s("m"), s("tgt"), s("conn"), s("ver"));
    let abs_bl = e["bl"].as_u64().unwrap_or(0) as usize;
    let abs_dl = e["dl"].as_u64().unwrap_or(3) as usize;
    let mut el = Elem { kind: kind.clone(), is_req, wf, m: m.clone(), tgt: tgt.clone(), conn: conn.clone(), ver: ver.clone(), abs_bl, abs_dl, head: vec![], body: vec![], dl: 0 };
    if !is_req {
        return el;
    }
    // abstract body length 2 = short body, 3 = body longer than the BufReader capacity (8192)
    let bl = match abs_bl { 0 => 0, 2 => rng.range(1, 60), 9 => rng.range(6 << 20, 8 << 20), _ => rng.range(8192, 20000) }; // 9: a body of several MiB (echoed back: the response exceeds the socket buffers)
    let conn_line = match conn.as_str() {
        // field names are case-insensitive too (L4)
        "ka" => format!("{}: {}\r\n", rng.pick(&["Connection", "connection", "CONNECTION", "cOnNeCtIoN"]), rng.pick(&["keep-alive", "Keep-Alive", "KEEP-ALIVE", "keep-Alive"])),
        "close" => format!("{}: {}\r\n", rng.pick(&["Connection", "connection", "CONNECTION"]), rng.pick(&["close", "Close"])),
        _ => String::new(),
    };
    let query = if rng.chance(1, 4) { "?a=1&b=%20" } else { "" };
    if kind == "trunc" || kind == "lf" {
        // a well-formed GET head, as lines (start line first), each with its CRLF
        let mut lines: Vec<String> = vec![format!("GET {}{} HTTP/{}\r\n", path_of(&tgt), query, ver), "Host: localhost\r\n".to_string()];
        if !conn_line.is_empty() { lines.push(conn_line.clone()); }
        if rng.chance(1, 2) { lines.push("X-Pad: abcdefghijklmnopqrstuvwxyz\r\n".to_string()); }
        let l1 = lines[0].len();
        let nh = lines.len() - 1; // header lines
        if kind == "trunc" {
            // abs_dl = where the head is cut: 1 inside the start line, 2 right after it, 3 inside a header line,
            // 4 after a complete header line (before the blank line; one time in four inside the blank line)
            let full: String = lines.concat() + "\r\n";
            let starts: Vec<usize> = (0..=nh).map(|j| lines[..=j].iter().map(|l| l.len()).sum::<usize>()).collect(); // end offset of line j
            let cut = match abs_dl {
                1 => if e["hl"].as_u64() == Some(1) { 1 } else { match rng.below(3) { 0 => l1 - 1, 1 => l1 - 2, _ => rng.range(1, l1 - 1) } },
                2 => l1,
                3 => { let j = 1 + rng.below(nh); let (b, len) = (starts[j - 1], lines[j].len());
                       let colon = lines[j].find(':').unwrap_or(1);
                       // half of the time after the colon: "name: val" without its line ending still splits into name and value
                       if rng.chance(1, 2) { b + rng.range(colon + 1, len - 1) } else { b + rng.range(1, len - 1) } }
                _ => if rng.chance(1, 4) { full.len() - 1 } else { starts[1 + rng.below(nh)] },
            };
            el.head = full.as_bytes()[..cut.max(1).min(full.len() - 1)].to_vec();
            el.dl = el.head.len();
            el.wf = false;
            return el;
        }
        // "lf": abs_dl = which line endings are a bare LF: 1 all of them, 2 the start line's, 3 one header line's, 4 the blank line's.
        // dl = end of the first such line (where the strict parser gives up)
        let mut blank = "\r\n".to_string();
        let strip = |l: &mut String| { let n = l.len(); l.replace_range(n - 2.., "\n"); };
        match abs_dl {
            1 => { for l in lines.iter_mut() { strip(l); } strip(&mut blank); }
            2 => strip(&mut lines[0]),
            3 => { let j = 1 + rng.below(nh); strip(&mut lines[j]); }
            _ => strip(&mut blank),
        }
        lines.push(blank);
        let mut off = 0usize; let mut dl = 0usize;
        for l in &lines { off += l.len(); if dl == 0 && !l.ends_with("\r\n") { dl = off; } }
        el.head = lines.concat().into_bytes();
        el.dl = dl;
        el.wf = false;
        return el;
    }
    if wf {
        let mut h = format!("{} {}{} HTTP/{}\r\nHost: localhost\r\n{}", m, path_of(&tgt), query, ver, conn_line);
        if rng.chance(1, 3) { h.push_str("X-Pad: abcdefghijklmnopqrstuvwxyz\r\n"); }
        // for the "long body" class, one time in three make head + body end exactly at / one byte around the
        // parser's 8 KiB read-ahead boundary (first byte + 8192 buffered)
        let mut bl = bl;
        if abs_bl == 3 && rng.chance(1, 3) {
            let cl_name_len = 16 + 2 + 4 + 2; // "Content-Length: " + digits + CRLF (4 digits) + final CRLF
            let target = 1 + 8192 + rng.below(3) - 1;
            let hl_est = h.len() + cl_name_len;
            if target > hl_est + 1000 { bl = target - hl_est; }
        }
        if bl > 0 || (abs_bl == 0 && m != "GET" && rng.chance(1, 2)) { h.push_str(&format!("{}: {}\r\n", rng.pick(&["Content-Length", "content-length", "CONTENT-LENGTH"]), bl)); }
        h.push_str("\r\n");
        el.head = h.into_bytes();
        el.dl = el.head.len();
        el.body = (0..bl).map(|i| b"abcdefghijklmnopqrstuvwxyz0123456789 "[(i + 5 * idx) % 37]).collect();
        if bl > 0 { el.body[0] = b"ABCDEFGHIJ"[idx % 10]; }
    } else {
        // three malformed classes; abs_dl = 2: detected in the start line, abs_dl = 3: detected later
        // abs_dl = 2: detected in the start line (variants 0, 3); abs_dl = 3: detected later (variants 1, 2, 4)
        let variant = if abs_dl == 2 { if rng.chance(1, 3) { 3 } else { 0 } } else { [1, 2, 4][rng.below(3)] };
        if variant >= 3 {
            // bytes that are not UTF-8 in the start line / in a header value: malformed, answered 400
            let (h, dl): (Vec<u8>, usize) = if variant == 3 {
                let mut l1 = format!("GET {}", path_of(&tgt)).into_bytes(); l1.extend_from_slice(&[0xff, 0xfe]); l1.extend_from_slice(format!(" HTTP/{}\r\n", ver).as_bytes());
                let d = l1.len(); l1.extend_from_slice(format!("Host: localhost\r\n{}\r\n", conn_line).as_bytes()); (l1, d)
            } else {
                let mut l = format!("GET {} HTTP/{}\r\nX-Bin: a", path_of(&tgt), ver).into_bytes(); l.extend_from_slice(&[0xc3, 0x28, 0xff]); l.extend_from_slice(b"\r\n");
                let d = l.len(); l.extend_from_slice(format!("Host: localhost\r\n{}\r\n", conn_line).as_bytes()); (l, d)
            };
            el.head = h; el.dl = dl;
            return el;
        }
        let (h, dl) = match variant {
            0 => { let l1 = format!("BLURB {} HTTP/{}\r\n", path_of(&tgt), ver); let d = l1.len(); (format!("{}Host: localhost\r\n{}\r\n", l1, conn_line), d) }
            1 => { let l1 = format!("GET {} HTTP/{}\r\nHost localhost\r\n", path_of(&tgt), ver); let d = l1.len(); (format!("{}{}\r\n", l1, conn_line), d) }
            _ => { let h = format!("POST {} HTTP/{}\r\nHost: localhost\r\n{}Content-Length: 12abc\r\n\r\n", path_of(&tgt), ver, conn_line); let d = h.len(); (h, d) }
        };
        el.head = h.into_bytes();
        el.dl = dl;
    }
    el
}

fn elem_json(e: &Elem) -> Value {
    json!({"k": e.kind, "hl": e.head.len(), "dl": e.dl, "bl": e.body.len(), "wf": e.wf,
           "m": e.m, "tgt": e.tgt, "conn": e.conn, "ver": e.ver})
}

/// Map an abstract offset inside an abstract request (hl = 3, body abs_bl) to a concrete one.
fn map_off(e: &Elem, a: usize, rng: &mut Rng) -> usize {
    let hl = e.head.len();
    match a {
        0 => 0,
        1 => 1,
        2 => match rng.below(4) { 0 => hl - 1, 1 => hl - 2, 2 => hl.saturating_sub(4).max(2), _ => rng.range(2, hl - 1) },
        3 => hl,
        _ => {
            let j = a - 3; // 1..abs_bl
            if j >= e.abs_bl { hl + e.body.len() } else if e.body.len() <= 1 { hl + e.body.len() } else {
                // strictly inside the body
                hl + 1 + rng.below(e.body.len() - 1)
            }
        }
    }
}

#[derive(Debug)]
pub struct Resp { st: i64, ver: String, date: bool, server: bool, cl: i64, blen: i64, cors: bool, stray: i64, at: Instant, bh: u64 }

fn resp_json(r: &Resp, bodies: &[u64]) -> Value {
    // bid: 1-based script index of the request whose (non-empty) body this response carries, 0 for the fixed pages
    let bid: i64 = if r.blen == 0 { 0 } else { match bodies.iter().position(|h| *h == r.bh) { Some(i) => i as i64 + 1, None => 0 } };
    json!({"st": r.st, "ver": r.ver, "date": r.date, "server": r.server, "cl": r.cl, "blen": r.blen, "cors": r.cors, "bid": bid, "stray": r.stray})
}
fn no_resp() -> Value { json!({"st": 0, "ver": "", "date": false, "server": false, "cl": -1, "blen": 0, "cors": false, "bid": 0, "stray": 0}) }

/// Strict incremental parser of the server's byte stream.
struct RespParser { buf: Vec<u8>, pending: Option<Resp>, done: Vec<Resp>, garbage: bool }

fn find(h: &[u8], n: &[u8]) -> Option<usize> { h.windows(n.len()).position(|w| w == n) }

impl RespParser {
    fn new() -> Self { RespParser { buf: vec![], pending: None, done: vec![], garbage: false } }
    fn feed(&mut self, data: &[u8], eof: bool) {
        self.buf.extend_from_slice(data);
        loop {
            if self.garbage { return; }
            // stray bytes between responses are charged to the previous response
            if !self.buf.starts_with(b"HTTP/") {
                let lim = self.buf.len().min(5);
                if !eof && b"HTTP/".starts_with(&self.buf[..lim]) { return; } // need more
                if self.buf.is_empty() { if eof { self.flush(); } return; }
                match find(&self.buf, b"HTTP/") {
                    Some(i) => { self.charge(i); self.buf.drain(..i); }
                    None => {
                        if eof { let n = self.buf.len(); self.charge(n); self.buf.clear(); self.flush(); return; }
                        // keep a possible prefix of "HTTP/" at the end
                        let keep = (1..5).rev().find(|k| self.buf.len() >= *k && b"HTTP/".starts_with(&self.buf[self.buf.len() - k..])).unwrap_or(0);
                        let n = self.buf.len() - keep; self.charge(n); self.buf.drain(..n); return;
                    }
                }
            }
            let he = match find(&self.buf, b"\r\n\r\n") { Some(i) => i, None => { if eof { let n = self.buf.len(); self.charge(n); self.buf.clear(); self.flush(); } return; } };
            let head = String::from_utf8_lossy(&self.buf[..he]).to_string();
            let mut lines = head.split("\r\n");
            let sl = lines.next().unwrap_or("");
            let mut parts = sl.splitn(3, ' ');
            let ver = parts.next().unwrap_or("").trim_start_matches("HTTP/").to_string();
            let st: i64 = parts.next().unwrap_or("").parse().unwrap_or(-1);
            if st < 0 { self.garbage = true; self.flush(); self.done.push(Resp { st: -1, ver, date: false, server: false, cl: -1, blen: 0, cors: false, stray: self.buf.len() as i64, at: Instant::now(), bh: 0 }); return; }
            let (mut date, mut server, mut cors, mut cl) = (false, false, false, -1i64);
            let mut cl_count = 0;
            for l in lines {
                if let Some((n, v)) = l.split_once(':') {
                    let n = n.trim().to_ascii_lowercase(); let v = v.trim();
                    match n.as_str() {
                        "date" => date = !v.is_empty(),
                        "server" => server = !v.is_empty(),
                        "access-control-allow-origin" => cors = true,
                        "content-length" => { cl_count += 1; cl = v.parse().unwrap_or(-2); }
                        _ => {}
                    }
                }
            }
            if cl_count > 1 { cl = -3; }
            let body_start = he + 4;
            let no_body = st == 204 || st == 304 || (100..200).contains(&st);
            let blen: usize;
            if no_body { blen = 0; }
            else if cl >= 0 {
                if self.buf.len() < body_start + cl as usize { if eof { // truncated body
                        let have = self.buf.len() - body_start; self.flush();
                        self.done.push(Resp { st, ver, date, server, cl, blen: have as i64, cors, stray: 0, at: Instant::now(), bh: 0 }); self.buf.clear(); }
                    return; }
                blen = cl as usize;
            } else {
                // no Content-Length: the body is delimited by the close of the connection
                if !eof { return; }
                blen = self.buf.len() - body_start;
            }
            self.flush();
            let bh = crate::util::fnv64(&self.buf[body_start..body_start + blen]);
            self.pending = Some(Resp { st, ver, date, server, cl, blen: blen as i64, cors, stray: 0, at: Instant::now(), bh });
            self.buf.drain(..body_start + blen);
            if eof && self.buf.is_empty() { self.flush(); return; }
        }
    }
    fn charge(&mut self, n: usize) {
        if n == 0 { return; }
        match self.pending.as_mut() { Some(p) => p.stray += n as i64, None => { self.done.push(Resp { st: -1, ver: String::new(), date: false, server: false, cl: -1, blen: 0, cors: false, stray: n as i64, at: Instant::now(), bh: 0 }); } }
    }
    fn flush(&mut self) { if let Some(p) = self.pending.take() { self.done.push(p); } }
    /// responses whose extent is fully known (the pending one is only final once something follows or at EOF)
    fn take(&mut self) -> Vec<Resp> { std::mem::take(&mut self.done) }
    fn count(&self) -> usize { self.done.len() + self.pending.is_some() as usize }
}

/// Humphrey's own monitor stream (hook-free second trace source): events are drained from the shared
/// receiver into per-peer-port lists. Every event of a connection is sent before the server closes
/// the socket, so a drain after the client has observed EOF sees the complete list.
pub struct MonSink { pub rx: std::sync::mpsc::Receiver<humphrey::monitor::event::Event>, pub by_port: std::collections::HashMap<u16, Vec<String>> }
pub type Mon = std::sync::Arc<std::sync::Mutex<MonSink>>;

pub fn mon_new() -> (humphrey::monitor::MonitorConfig, Mon) {
    use humphrey::monitor::event::EventType as T;
    let (tx, rx) = std::sync::mpsc::channel();
    let cfg = humphrey::monitor::MonitorConfig::new(tx)
        .with_subscription_to(T::ConnectionSuccess).with_subscription_to(T::ThreadPoolProcessStarted)
        .with_subscription_to(T::RequestServedSuccess).with_subscription_to(T::RequestServedError)
        .with_subscription_to(T::RequestTimeout).with_subscription_to(T::KeepAliveRespected)
        .with_subscription_to(T::ConnectionClosed).with_subscription_to(T::StreamDisconnectedWhileWaiting);
    (cfg, std::sync::Arc::new(std::sync::Mutex::new(MonSink { rx, by_port: std::collections::HashMap::new() })))
}

fn mon_take(mon: &Mon, port: u16) -> Vec<String> {
    use humphrey::monitor::event::EventType as T;
    let mut g = mon.lock().unwrap();
    let evs: Vec<_> = g.rx.try_iter().collect();
    for e in evs {
        if let Some(p) = e.peer {
            let k = match e.kind { T::ConnectionSuccess => "CS", T::ThreadPoolProcessStarted => "TPS", T::RequestServedSuccess => "OK",
                T::RequestServedError => "ERR", T::RequestTimeout => "TO", T::KeepAliveRespected => "KA", T::ConnectionClosed => "CC", _ => "OTHER" };
            g.by_port.entry(p.port()).or_default().push(k.to_string());
        }
    }
    // An ephemeral port may have been used before (the readiness probes of start(), an earlier connection):
    // every connection's events begin with its one ConnectionSuccess, so the list of THIS connection is the
    // suffix that starts at the last "CS".
    let all = g.by_port.remove(&port).unwrap_or_default();
    match all.iter().rposition(|k| k == "CS") { Some(i) => all[i..].to_vec(), None => all }
}

pub struct Job { pub slow_read_ms: u64, pub id: i64, pub timeout: bool, pub script: Vec<Value>, pub plan: String, pub sends: Vec<usize>, pub expected_n: usize, pub final_open: bool }

pub fn parse_job(v: &Value) -> Job {
    Job { slow_read_ms: v["slow_read_ms"].as_u64().unwrap_or(0), id: v["id"].as_i64().unwrap_or(0), timeout: v["timeout"].as_bool().unwrap_or(false),
          script: v["script"].as_array().cloned().unwrap_or_default(), plan: v["plan"].as_str().unwrap_or("whole").to_string(),
          sends: v["sends"].as_array().map(|a| a.iter().map(|x| x.as_u64().unwrap_or(1) as usize).collect()).unwrap_or_default(),
          expected_n: v["expected_n"].as_u64().unwrap_or(0) as usize, final_open: v["final_open"].as_bool().unwrap_or(false) }
}

/// Concrete segments: list of chunks; `None` = idle marker.
fn segments(job: &Job, elems: &[Elem], rng: &mut Rng) -> Vec<Option<Vec<u8>>> {
    // the stream between idle markers, as (bytes) with request-relative cut positions
    let mut groups: Vec<Vec<&Elem>> = vec![vec![]];
    for e in elems { if e.is_req { groups.last_mut().unwrap().push(e); } else { groups.push(vec![]); } }
    // absolute cut offsets (in the concrete stream of all requests)
    let mut cuts: Vec<usize> = vec![];
    let total: usize = elems.iter().map(|e| e.head.len() + e.body.len()).sum();
    match job.plan.as_str() {
        "tlc" => {
            // abstract cumulative offsets -> concrete
            let mut abs_starts = vec![]; let mut conc_starts = vec![]; let (mut a, mut c) = (0usize, 0usize);
            for e in elems { if e.is_req { abs_starts.push((a, c, e)); a += 3 + e.abs_bl; c += e.head.len() + e.body.len(); conc_starts.push(c); } }
            let mut acc = 0usize;
            for n in &job.sends {
                acc += n;
                // find the request containing abstract offset acc (as an end position)
                for (as_, cs, e) in &abs_starts {
                    let alen = 3 + e.abs_bl;
                    if acc > *as_ && acc <= as_ + alen { cuts.push(cs + map_off(e, acc - as_, rng)); break; }
                }
            }
        }
        "bytewise" => { cuts = (1..=total).collect(); }
        "whole" => { cuts = vec![total]; }
        // one segment per request (the response to a request has normally arrived before the next one is written)
        "reqs" => { let mut c = 0; for e in elems { if e.is_req { c += e.head.len() + e.body.len(); cuts.push(c); } } }
        p if p.starts_with("split:") => { let k: usize = p[6..].parse().unwrap_or(1); cuts = vec![k.min(total), total]; }
        p if p.starts_with("random") => { let mut c = 0; while c < total { c += rng.range(1, (total / 3).max(2)); cuts.push(c.min(total)); } }
        _ => { cuts = vec![total]; }
    }
    cuts.push(total);
    cuts.sort(); cuts.dedup();
    // assemble, forcing cuts at idle markers
    let mut out: Vec<Option<Vec<u8>>> = vec![];
    let mut stream: Vec<u8> = vec![]; let mut idle_at: Vec<usize> = vec![];
    for e in elems { if e.is_req { stream.extend(&e.head); stream.extend(&e.body); } else { idle_at.push(stream.len()); } }
    let mut all: Vec<(usize, bool)> = cuts.iter().map(|c| (*c, false)).collect();
    for i in &idle_at { all.push((*i, true)); }
    all.sort_by_key(|(o, idle)| (*o, !*idle as u8 ^ 1));
    // order: at equal offset, the data cut comes first, then the idle marker
    let mut prev = 0usize;
    for (o, idle) in all {
        if o > prev { out.push(Some(stream[prev..o].to_vec())); prev = o; }
        if idle { out.push(None); }
    }
    let _ = groups;
    out
}

fn read_some(s: &mut TcpStream, p: &mut RespParser, wait: Duration) -> (usize, bool) {
    // returns (bytes read, eof)
    let _ = s.set_read_timeout(Some(wait.max(Duration::from_millis(1))));
    let mut buf = [0u8; 16384];
    match s.read(&mut buf) {
        Ok(0) => { p.feed(&[], true); (0, true) }
        Ok(n) => { p.feed(&buf[..n], false); (n, false) }
        Err(e) if e.kind() == std::io::ErrorKind::WouldBlock || e.kind() == std::io::ErrorKind::TimedOut => (0, false),
        Err(_) => { p.feed(&[], true); (0, true) } // reset: treated as end of stream
    }
}

pub fn run_job(job: &Job, addr: SocketAddr, seed: u64, mon: Option<&Mon>) -> Value {
    let mut rng = Rng::new(seed ^ (job.id as u64).wrapping_mul(0x9E3779B97F4A7C15));
    let elems: Vec<Elem> = job.script.iter().enumerate().map(|(i, e)| render(e, i, &mut rng)).collect();
    let segs = segments(job, &elems, &mut rng);
    let mut events: Vec<Value> = vec![];
    let bodies: Vec<u64> = elems.iter().map(|e| if e.body.is_empty() { 1 } else { crate::util::fnv64(&e.body) }).collect();
    let ev = |e: &str, n: usize, slow: bool, r: Value| json!({"e": e, "n": n, "slow": slow, "late": false, "r": r});
    let evr = |r: &Resp, since: Instant, timeout: bool| json!({"e": "Recv", "n": 0, "slow": false,
        "late": timeout && r.at.saturating_duration_since(since).as_millis() as u64 >= IDLE_TIMEOUT_MS * 6 / 10, "r": resp_json(r, &bodies)});
    let mut s = match TcpStream::connect(addr) { Ok(s) => s, Err(e) => return json!({"id": job.id, "error": format!("connect: {}", e)}) };
    let _ = s.set_nodelay(true);
    let my_port = s.local_addr().map(|a| a.port()).unwrap_or(0);
    let mut p = RespParser::new();
    let mut eof = false;
    let mut last_activity = Instant::now();
    let jt = job.timeout;
    let log_new = |p: &mut RespParser, events: &mut Vec<Value>, since: Instant| { for r in p.take() { events.push(evr(&r, since, jt)); } };
    let nseg = segs.len();
    for (i, seg) in segs.iter().enumerate() {
        match seg {
            Some(bytes) => {
                let gap = last_activity.elapsed();
                let slow = job.timeout && gap.as_millis() as u64 >= IDLE_TIMEOUT_MS * 6 / 10;
                if s.write_all(bytes).is_err() { /* peer closed: the remaining bytes cannot be delivered */ events.push(ev("Send", bytes.len(), slow, no_resp())); }
                else { events.push(ev("Send", bytes.len(), slow, no_resp())); }
                last_activity = Instant::now();
                // give the server a moment to act on this segment, so that segment boundaries are real
                if nseg > 1 && i + 1 < nseg { let (_, e) = read_some(&mut s, &mut p, Duration::from_millis(if nseg > 40 { 1 } else { 3 })); eof |= e; log_new(&mut p, &mut events, last_activity); }
            }
            None => {
                // before idling, collect what is owed so far (pacing only)
                let t0 = Instant::now();
                while !eof && t0.elapsed() < Duration::from_millis(150) { let (n, e) = read_some(&mut s, &mut p, Duration::from_millis(30)); eof |= e; if n == 0 && !e { /* quiet */ } }
                log_new(&mut p, &mut events, last_activity);
                events.push(ev("IdleBegin", 0, false, no_resp()));
                let t0 = Instant::now();
                let idle_ms = if job.timeout { IDLE_WAIT_MS } else { 300 };
                while t0.elapsed() < Duration::from_millis(idle_ms) { if eof { std::thread::sleep(Duration::from_millis(20)); if !job.timeout { break; } else { if t0.elapsed() > Duration::from_millis(IDLE_TIMEOUT_MS + 300) { break; } } } else { let (_, e) = read_some(&mut s, &mut p, Duration::from_millis(50)); eof |= e; } }
                log_new(&mut p, &mut events, last_activity);
                if eof { events.push(ev("Eof", 0, false, no_resp())); }
                events.push(ev("IdleEnd", 0, false, no_resp()));
                last_activity = Instant::now();
                if eof { break; }
            }
        }
        if eof { break; }
    }
    let mut eof_logged = events.iter().any(|e| e["e"] == "Eof");
    // a head truncated by the client's half-close: everything the script holds has been written, end our sending side
    if !eof && elems.last().map(|e| e.kind == "trunc").unwrap_or(false) {
        let _ = s.shutdown(Shutdown::Write);
        events.push(ev("Shut", 0, false, no_resp()));
    }
    // a client that is slow to start reading: a large response must still arrive complete
    if job.slow_read_ms > 0 { std::thread::sleep(Duration::from_millis(job.slow_read_ms)); }
    // collect the owed responses (pacing by the expected count; the verdict is TLC's)
    let t0 = Instant::now();
    let mut last_data = Instant::now();
    while !eof && p.count() < job.expected_n && last_data.elapsed() < Duration::from_millis(PATIENCE_MS) && t0.elapsed() < Duration::from_millis(3 * PATIENCE_MS) {
        let (n, e) = read_some(&mut s, &mut p, Duration::from_millis(50)); eof |= e; if n > 0 { last_data = Instant::now(); }
    }
    if !eof {
        if job.final_open && p.count() >= job.expected_n {
            // should stay open: a short grace shows surplus data or a premature close
            let t1 = Instant::now();
            while !eof && t1.elapsed() < Duration::from_millis(GRACE_MS) { let (_, e) = read_some(&mut s, &mut p, Duration::from_millis(20)); eof |= e; }
        } else {
            // should close (or something is missing): wait for EOF up to the patience
            let t1 = Instant::now();
            while !eof && t1.elapsed() < Duration::from_millis(PATIENCE_MS) { let (_, e) = read_some(&mut s, &mut p, Duration::from_millis(50)); eof |= e; }
        }
    }
    if eof { p.feed(&[], true); }
    log_new(&mut p, &mut events, last_activity);
    if eof { if !eof_logged { events.push(ev("Eof", 0, false, no_resp())); eof_logged = true; } }
    else {
        // still open and silent: say so, then end our side and expect the server to close
        if let Some(pr) = p.pending.take() { events.push(evr(&pr, last_activity, jt)); }
        events.push(ev("Quiet", 0, false, no_resp()));
        let _ = s.shutdown(Shutdown::Write);
        events.push(ev("Shut", 0, false, no_resp()));
        let t1 = Instant::now();
        while !eof && t1.elapsed() < Duration::from_millis(PATIENCE_MS) { let (_, e) = read_some(&mut s, &mut p, Duration::from_millis(50)); eof |= e; }
        p.feed(&[], eof);
        log_new(&mut p, &mut events, last_activity);
        events.push(ev(if eof { "Eof" } else { "Quiet" }, 0, false, no_resp()));
    }
    let _ = eof_logged;
    // the monitor list is complete only when the server's close has been observed
    let (monv, mon_complete) = match mon { Some(m) if eof => (mon_take(m, my_port), true), Some(m) => (mon_take(m, my_port), false), None => (vec![], false) };
    json!({"id": job.id, "timeout": job.timeout, "plan": job.plan, "script": elems.iter().map(elem_json).collect::<Vec<_>>(), "events": events,
           "mon": monv, "mon_complete": mon_complete})
}
