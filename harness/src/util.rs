//! Small shared helpers: deterministic PRNG, seed handling, line IO.
use std::io::{self, BufRead, Write};

/// splitmix64-seeded xorshift64*; deterministic, dependency-free.
pub struct Rng(u64);

impl Rng {
    pub fn new(seed: u64) -> Self {
        let mut z = seed.wrapping_add(0x9E3779B97F4A7C15);
        z = (z ^ (z >> 30)).wrapping_mul(0xBF58476D1CE4E5B9);
        z = (z ^ (z >> 27)).wrapping_mul(0x94D049BB133111EB);
        z ^= z >> 31;
        Rng(if z == 0 { 0x1234_5678_9abc_def1 } else { z })
    }
    pub fn from_env() -> Self {
        Self::new(seed_from_env())
    }
    pub fn next_u64(&mut self) -> u64 {
        let mut x = self.0;
        x ^= x >> 12;
        x ^= x << 25;
        x ^= x >> 27;
        self.0 = x;
        x.wrapping_mul(0x2545F4914F6CDD1D)
    }
    /// uniform in 0..n (n > 0)
    pub fn below(&mut self, n: usize) -> usize {
        (self.next_u64() % (n as u64)) as usize
    }
    pub fn range(&mut self, lo: usize, hi_incl: usize) -> usize {
        lo + self.below(hi_incl - lo + 1)
    }
    pub fn chance(&mut self, num: usize, den: usize) -> bool {
        self.below(den) < num
    }
    pub fn byte(&mut self) -> u8 {
        (self.next_u64() >> 32) as u8
    }
    pub fn bytes(&mut self, n: usize) -> Vec<u8> {
        (0..n).map(|_| self.byte()).collect()
    }
    pub fn pick<'a, T>(&mut self, xs: &'a [T]) -> &'a T {
        &xs[self.below(xs.len())]
    }
}

pub fn seed_from_env() -> u64 {
    std::env::var("VERIF_SEED").ok().and_then(|s| s.parse::<i64>().ok()).unwrap_or(1) as u64
}

pub fn stdin_lines() -> impl Iterator<Item = String> {
    io::stdin().lock().lines().map(|l| l.expect("stdin"))
}

pub fn fnv64(data: &[u8]) -> u64 {
    let mut h: u64 = 0xcbf29ce484222325;
    for b in data {
        h ^= *b as u64;
        h = h.wrapping_mul(0x100000001b3);
    }
    h
}

pub fn out_line(v: &serde_json::Value) {
    let stdout = io::stdout();
    let mut l = stdout.lock();
    let _ = writeln!(l, "{}", v);
}

/// Silence the default panic hook (panics of the code under test are data, reported by the caller).
pub fn quiet_panics() {
    std::panic::set_hook(Box::new(|_| {}));
}
