//! Hand-written part of the C14 generated crate (everything else in src/ is written by checks/c14.py
//! from TLC's output and is replaced on every run).
//!
//! It only *observes*: it dumps a `humphrey_json::Value` in the canonical tree form of
//! spec/jsonmap/JsonMap.tla (`Canon`): {"t": null|bool|num|str|arr|obj, "s": text, "k": [member names],
//! "c": [children]}, numbers as exact decimal text, and prints one result line per vector. What the
//! values should be is decided by TLC, not here.
#![allow(dead_code)]
use humphrey_json::Value;
use std::fmt::Write;
use std::panic::{catch_unwind, AssertUnwindSafe};

/// JSON string literal for `s` (minimal escaping; the reader is a strict JSON parser).
pub fn esc(s: &str, out: &mut String) {
    out.push('"');
    for c in s.chars() {
        match c {
            '"' => out.push_str("\\\""),
            '\\' => out.push_str("\\\\"),
            c if (c as u32) < 0x20 || c as u32 == 0x7f => {
                let _ = write!(out, "\\u{:04x}", c as u32);
            }
            c => out.push(c),
        }
    }
    out.push('"');
}

/// Exact decimal text of an f64: integers digit by digit (an f64 integer converts exactly to i128/u128),
/// everything else through Rust's shortest round-trip `Display`.
pub fn num(n: f64) -> String {
    const P127: f64 = 170141183460469231731687303715884105728.0;
    const P128: f64 = 340282366920938463463374607431768211456.0;
    if n.is_finite() && n.fract() == 0.0 {
        if n >= -P127 && n < P127 {
            return format!("{}", n as i128);
        }
        if n >= P127 && n < P128 {
            return format!("{}", n as u128);
        }
        if n == P128 {
            return "340282366920938463463374607431768211456".to_string();
        }
    }
    format!("{}", n)
}

pub fn dump(v: &Value, out: &mut String) {
    let (t, s): (&str, String) = match v {
        Value::Null => ("null", String::new()),
        Value::Bool(b) => ("bool", b.to_string()),
        Value::Number(n) => ("num", num(*n)),
        Value::String(s) => ("str", s.clone()),
        Value::Array(_) => ("arr", String::new()),
        Value::Object(_) => ("obj", String::new()),
    };
    let _ = write!(out, "{{\"t\":\"{}\",\"s\":", t);
    esc(&s, out);
    out.push_str(",\"k\":[");
    if let Value::Object(o) = v {
        for (i, (k, _)) in o.iter().enumerate() {
            if i > 0 {
                out.push(',');
            }
            esc(k, out);
        }
    }
    out.push_str("],\"c\":[");
    match v {
        Value::Array(a) => {
            for (i, x) in a.iter().enumerate() {
                if i > 0 {
                    out.push(',');
                }
                dump(x, out);
            }
        }
        Value::Object(o) => {
            for (i, (_, x)) in o.iter().enumerate() {
                if i > 0 {
                    out.push(',');
                }
                dump(x, out);
            }
        }
        _ => {}
    }
    out.push_str("]}");
}

/// Result body of a typed-mapping vector.
#[allow(clippy::too_many_arguments)]
pub fn map_result(j: &Value, ser: &str, rt: bool, rtt: bool, pe: bool, fe: bool, sp: bool) -> String {
    let mut o = String::from("\"obs\":");
    dump(j, &mut o);
    o.push_str(",\"ser\":");
    esc(ser, &mut o);
    let _ = write!(o, ",\"rt\":{},\"rtt\":{},\"pe\":{},\"fe\":{},\"sp\":{}", rt, rtt, pe, fe, sp);
    o
}

/// Result body of a json! literal vector.
pub fn lit_result(j: &Value, eq: bool) -> String {
    let mut o = String::from("\"obs\":");
    dump(j, &mut o);
    let _ = write!(o, ",\"eq\":{}", eq);
    o
}

/// Runs one vector; a panic of the code under test is data.
pub fn run(id: &str, f: fn() -> String) {
    let r = catch_unwind(AssertUnwindSafe(f));
    let mut line = String::from("{\"id\":");
    esc(id, &mut line);
    match r {
        Ok(body) => {
            line.push_str(",\"panic\":\"\",");
            line.push_str(&body);
        }
        Err(e) => {
            let msg = e
                .downcast_ref::<String>()
                .cloned()
                .or_else(|| e.downcast_ref::<&str>().map(|s| s.to_string()))
                .unwrap_or_else(|| "panic".to_string());
            line.push_str(",\"panic\":");
            esc(&msg, &mut line);
        }
    }
    line.push('}');
    println!("{}", line);
}

pub fn quiet_panics() {
    std::panic::set_hook(Box::new(|_| {}));
}
