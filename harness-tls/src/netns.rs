//! Private network namespace for the harness process.
//!
//! Humphrey's force-HTTPS thread binds the fixed address 0.0.0.0:80 and `Client` can only address ports 80 / 443, so
//! the harness needs those ports.  Other checks (C07's client part) use 127.0.0.1:80 of the machine at the same time.
//! When the kernel allows it (root, CLONE_NEWNET) the harness therefore moves itself - before any thread exists -
//! into a fresh network namespace with its own loopback: every port is free there and nothing can collide.
//! When that is not possible the caller falls back to the shared namespace (file lock + bind retries; a bind that
//! still fails is reported as reduced coverage, never as a violation).
use std::io;

#[repr(C)]
struct IfReq { name: [u8; 16], flags: libc::c_short, pad: [u8; 22] }

/// Must be called first thing in main (unshare affects the calling thread; later threads inherit from it).
pub fn enter_private_netns() -> Result<(), String> {
    if std::env::var("VERIF_TLS_NO_NETNS").map(|v| v == "1").unwrap_or(false) { return Err("disabled by VERIF_TLS_NO_NETNS".into()); }
    unsafe {
        if libc::unshare(libc::CLONE_NEWNET) != 0 { return Err(format!("unshare(CLONE_NEWNET): {}", io::Error::last_os_error())); }
        let fd = libc::socket(libc::AF_INET, libc::SOCK_DGRAM, 0);
        if fd < 0 { return Err(format!("socket: {}", io::Error::last_os_error())); }
        let mut req = IfReq { name: [0; 16], flags: 0, pad: [0; 22] };
        req.name[..2].copy_from_slice(b"lo");
        if libc::ioctl(fd, libc::SIOCGIFFLAGS as _, &mut req as *mut IfReq) != 0 { let e = io::Error::last_os_error(); libc::close(fd); return Err(format!("SIOCGIFFLAGS lo: {}", e)); }
        req.flags |= (libc::IFF_UP | libc::IFF_RUNNING) as libc::c_short;
        if libc::ioctl(fd, libc::SIOCSIFFLAGS as _, &mut req as *mut IfReq) != 0 { let e = io::Error::last_os_error(); libc::close(fd); return Err(format!("SIOCSIFFLAGS lo: {}", e)); }
        libc::close(fd);
    }
    // the loopback must really work before anything relies on it
    let l = std::net::TcpListener::bind("127.0.7.1:0").map_err(|e| format!("loopback in the new namespace: {}", e))?;
    let a = l.local_addr().map_err(|e| e.to_string())?;
    std::net::TcpStream::connect(a).map_err(|e| format!("loopback connect in the new namespace: {}", e))?;
    Ok(())
}

/// Socket send-buffer limits of THIS (private) namespace: "min default max" as in net.ipv4.tcp_wmem. A small send
/// buffer is what a slow link looks like to the sender: its writes block for most of a large response.
/// Only ever called after enter_private_netns() succeeded - the setting is per network namespace.
pub fn set_tcp_wmem(v: &str) -> Result<(), String> {
    std::fs::write("/proc/sys/net/ipv4/tcp_wmem", v).map_err(|e| format!("tcp_wmem: {}", e))
}
