//! Mode `scen`: scenarios in the vocabulary of spec/tls/TlsApp.tla against real Apps run by `App::run_tls`.
//!
//! stdin, one JSON object per line:
//!   {"id", "workers", "timeout": bool, "force_https": bool, "tk": [kind of TLS-port client 1..], "pk": [plaintext client
//!    records 1..], "steps": [..]}
//! steps (played in order; `par` plays its sub-steps concurrently):
//!   {"op":"t","c":k,"v":variant}   TLS-port client k of kind tk[k-1]: plain | garbage | closemid | probe run to their
//!                                  end; stall opens the connection and leaves it
//!   {"op":"giveup","c":k}          the stalling client k closes
//!   {"op":"p","p":k,"v":variant}   plaintext client k (pk[k-1]: host/tform/wf/beh/nreq + concrete hs/tgs/m): send and
//!                                  closes run to their end; silent opens the connection and leaves it
//!   {"op":"pcheck","p":k}          what the silent client k sees now (closed by the server's read timeout, or nothing)
//!   {"op":"pgiveup","p":k}         the silent client k closes
//!   {"op":"stop"} / {"op":"start"} shutdown signal, wait for run_tls to return / start the app again on the same port
//!   {"op":"sleep","ms":n}
//! stdout: {"id", ..., "events": [...]} in the event vocabulary of spec/tls/Trace_TlsApp.tla.  Scenarios without
//! force_https get an App of their own and run concurrently; scenarios with force_https share the process's single
//! force-HTTPS App (its listener address 0.0.0.0:80 is fixed in the code) and run one after the other.
//!
//! Verdicts are TLC's; the harness only classifies bytes (TLS record kinds, response fields).  Waiting escalates
//! (1 s, 4 s, 15 s, ...) before anything is called quiet.
use crate::common::{self, AppHandle, AppOpts, Runtime};
use crate::connlib_tls as connlib;
use crate::tlsclient;
use crate::util::{self, Rng};
use serde_json::{json, Value};
use std::collections::HashMap;
use std::io::{Read, Write};
use std::net::{Shutdown, SocketAddr, TcpStream};
use std::sync::atomic::Ordering;
use std::sync::{Arc, Mutex};
use std::time::{Duration, Instant};

const PATIENCE: [u64; 3] = [1000, 4000, 15000]; // escalating waits, cumulative 20 s
const P_EXTRA_MS: u64 = 8000; // a sender may legitimately wait behind silent clients (read timeout of the listener)
pub const TLS_IP: &str = "127.0.7.2";

type Log = Arc<Mutex<Vec<Value>>>;

fn no_resp() -> Value { json!({"st": 0, "ver": "", "date": false, "server": false, "cl": -1, "blen": 0, "cors": false, "bid": 0, "stray": 0}) }
fn ev(log: &Log, e: &str, side: &str, c: i64, x: &str, xs: Vec<String>, r: Value, n: i64, st: i64, loc: &str) {
    log.lock().unwrap().push(json!({"e": e, "side": side, "c": c, "x": x, "xs": xs, "r": r, "n": n, "st": st, "loc": loc}));
}
fn tev(log: &Log, e: &str, c: i64, x: &str, xs: Vec<String>) { ev(log, e, "t", c, x, xs, no_resp(), 0, 0, "") }
fn pev(log: &Log, e: &str, p: i64, x: &str, n: i64, st: i64, loc: &str) { ev(log, e, "p", p, x, vec![], no_resp(), n, st, loc) }

/// Classify what a client received on the TLS port outside an established connection: a sequence of well-formed TLS
/// records gives "hs" / "alert" (runs merged); anything else is "plain".
pub fn classify_raw(b: &[u8]) -> Vec<String> {
    let mut out: Vec<String> = vec![];
    let mut i = 0;
    while i < b.len() {
        let ok = b.len() - i >= 5 && (20..=23).contains(&b[i]) && b[i + 1] == 3 && b[i + 2] <= 4 && {
            let n = ((b[i + 3] as usize) << 8) | b[i + 4] as usize;
            n <= 16384 + 2048 && i + 5 + n <= b.len()
        };
        if !ok {
            // a truncated last record (the connection was cut inside it) still counts as the kind its header names
            let trunc = b.len() - i >= 3 && (20..=23).contains(&b[i]) && b[i + 1] == 3 && b[i + 2] <= 4;
            let k = if trunc { if b[i] == 21 { "alert" } else { "hs" } } else { "plain" };
            if out.last().map(|s| s.as_str()) != Some(k) { out.push(k.to_string()); }
            break;
        }
        let n = ((b[i + 3] as usize) << 8) | b[i + 4] as usize;
        let k = if b[i] == 21 { "alert" } else { "hs" };
        if out.last().map(|s| s.as_str()) != Some(k) { out.push(k.to_string()); }
        i += 5 + n;
    }
    out
}

/// Read until EOF / reset or until nothing arrived for the escalated patience. Returns (bytes, saw_eof).
fn read_to_end_patient(s: &mut TcpStream, extra_ms: u64) -> (Vec<u8>, bool) {
    let mut got = vec![];
    let mut buf = [0u8; 16384];
    let mut waits: Vec<u64> = PATIENCE.to_vec();
    if extra_ms > 0 { waits.push(extra_ms); }
    let mut wi = 0;
    loop {
        let _ = s.set_read_timeout(Some(Duration::from_millis(waits[wi])));
        match s.read(&mut buf) {
            Ok(0) => return (got, true),
            Ok(n) => { got.extend_from_slice(&buf[..n]); wi = 0; }
            Err(e) if e.kind() == std::io::ErrorKind::WouldBlock || e.kind() == std::io::ErrorKind::TimedOut => { wi += 1; if wi >= waits.len() { return (got, false); } }
            Err(_) => return (got, true), // reset
        }
    }
}

fn client_hello(name: &str) -> Vec<u8> {
    let cfg = tlsclient::client_configs().pop().unwrap();
    let mut c = rustls::ClientConnection::new(cfg, rustls::ServerName::try_from(name).unwrap()).unwrap();
    let mut v = vec![];
    while c.wants_write() { c.write_tls(&mut v).unwrap(); }
    v
}

struct Open { t: HashMap<i64, TcpStream>, p: HashMap<i64, TcpStream> }

struct Ctx<'a> { addr: SocketAddr, paddr: SocketAddr, log: Log, open: Arc<Mutex<Open>>, sc: &'a Value, seed: u64, tls: connlib::TlsParams }

fn run_t(cx: &Ctx, c: i64, variant: u64) {
    let kind = cx.sc["tk"][(c - 1) as usize].as_str().unwrap_or("probe").to_string();
    let mut rng = Rng::new(cx.seed ^ (c as u64).wrapping_mul(0x9E37_79B9) ^ variant);
    if kind == "probe" {
        // a well-behaved TLS client: GET /empty, Connection: close - played by the C01 client
        let job = connlib::Job { rcvbuf: 0, throttle_us: 0, slow_read_ms: 0, id: c, timeout: false, plan: "whole".into(), sends: vec![], expected_n: 1, final_open: false,
            script: vec![json!({"k": "req", "hl": 3, "dl": 3, "bl": 0, "wf": true, "m": "GET", "tgt": "empty", "conn": "close", "ver": "1.1"})] };
        // a refused TCP connection ("error") is told apart from a handshake that does not complete ("hs_failed")
        let rec = connlib::run_job(&job, cx.addr, cx.seed ^ variant, None, Some(&cx.tls));
        if rec.get("error").is_some() { tev(&cx.log, "TConnect", c, "refused", vec![]); return; }
        tev(&cx.log, "TConnect", c, "ok", vec![]);
        if rec.get("hs_failed").is_some() {
            // no handshake within 4 s + 15 s: the probe gives up
            tev(&cx.log, "TQuiet", c, rec["hs_failed"].as_str().unwrap_or(""), vec![]);
            return;
        }
        tev(&cx.log, "TEst", c, "", vec![]);
        let evs = rec["events"].as_array().cloned().unwrap_or_default();
        let mut served = false;
        for e in &evs {
            match e["e"].as_str().unwrap_or("") {
                "Recv" => { ev(&cx.log, "TServed", "t", c, "", vec![], e["r"].clone(), 0, 0, ""); served = true; }
                "Eof" => { tev(&cx.log, "TEof", c, "", vec![]); }
                "Quiet" if !served => { tev(&cx.log, "TUnanswered", c, "", vec![]); }
                _ => {}
            }
        }
        return;
    }
    let mut s = match TcpStream::connect(cx.addr) { Ok(s) => s, Err(_) => { tev(&cx.log, "TConnect", c, "refused", vec![]); return; } };
    let _ = s.set_nodelay(true);
    tev(&cx.log, "TConnect", c, "ok", vec![]);
    let hello = client_hello(&cx.tls.name);
    match kind.as_str() {
        "plain" => {
            let reqs: [&[u8]; 4] = [b"GET / HTTP/1.1\r\nHost: localhost\r\n\r\n", b"GET /plain HTTP/1.1\r\nHost: localhost\r\nConnection: keep-alive\r\n\r\n",
                                    b"POST /echo HTTP/1.0\r\nContent-Length: 3\r\n\r\nabc", b"OPTIONS * HTTP/1.1\r\n\r\n"];
            let _ = s.write_all(reqs[(variant % 4) as usize]);
        }
        "garbage" => {
            let g: Vec<u8> = match variant % 6 {
                0 => { let n = rng.range(6, 300); let mut v = rng.bytes(n); /* at least a record header's worth: fewer bytes would be a stall, not garbage */ if (20..=23).contains(&v[0]) { v[0] = 0x99; } v }   // never the start of a valid record (that would be a stall)
                1 => { let mut v = vec![0x16, 0x03, 0x01, 0x00, 0x20, 0x01, 0x00, 0x00, 0x1c]; v.extend(rng.bytes(0x1c)); v } // a complete ClientHello message of 28 bytes of nonsense
                2 => vec![0x16, 0x03, 0x01, 0xff, 0xff, 0x01],                                                  // record longer than allowed
                3 => vec![0x80, 0x2e, 0x01, 0x00, 0x02, 0x00, 0x15, 0x00, 0x00, 0x00, 0x10],                    // SSLv2-style hello
                4 => { let mut v = hello.clone(); v[5] = 0x02; v }                                               // a well-framed handshake record whose message claims to be a ServerHello
                _ => { let mut v = vec![0x17, 0x03, 0x03, 0x00, 0x10]; v.extend(rng.bytes(16)); v }              // application data before any handshake
            };
            let _ = s.write_all(&g);
        }
        "closemid" => {
            match variant % 4 {
                0 => {}
                1 => { let k = rng.range(1, hello.len() - 1); let _ = s.write_all(&hello[..k]); }
                2 => { let _ = s.write_all(&hello[..5.min(hello.len())]); }
                _ => { let _ = s.write_all(&hello); std::thread::sleep(Duration::from_millis(rng.range(0, 30) as u64)); }
            }
            let _ = s.shutdown(Shutdown::Write);
        }
        _ => {
            // stall: nothing, or a prefix of a ClientHello; the connection stays open
            if variant % 2 == 1 { let k = rng.range(1, hello.len() - 1); let _ = s.write_all(&hello[..k]); }
            cx.open.lock().unwrap().t.insert(c, s);
            return;
        }
    }
    let (got, eof) = read_to_end_patient(&mut s, 0);
    let xs = classify_raw(&got);
    if eof { tev(&cx.log, "TEof", c, "", xs); } else { tev(&cx.log, "TOpen", c, "", xs); }
}

fn t_giveup(cx: &Ctx, c: i64) {
    let s = cx.open.lock().unwrap().t.remove(&c);
    if let Some(mut s) = s {
        // what has arrived so far (without waiting): must be nothing
        let _ = s.set_nonblocking(true);
        let mut got = vec![]; let mut buf = [0u8; 4096];
        loop { match s.read(&mut buf) { Ok(0) => break, Ok(n) => got.extend_from_slice(&buf[..n]), Err(_) => break } }
        tev(&cx.log, "TGiveUp", c, "", classify_raw(&got));
        drop(s);
    }
}

struct PResp { st: i64, loc: String, class: String }

/// Parse the byte stream of a port-80 connection into responses (Content-Length or close-delimited).
fn parse_presps(b: &[u8], eof: bool) -> Vec<PResp> {
    let mut out = vec![];
    let mut i = 0;
    while i < b.len() {
        let rest = &b[i..];
        // the serialiser's CRLF after a non-empty body (C01 CrlfAfterBody) is not part of any response
        if rest.starts_with(b"\r\n") { i += 2; continue; }
        let he = match rest.windows(4).position(|w| w == b"\r\n\r\n") { Some(p) => p, None => { out.push(PResp { st: -1, loc: String::new(), class: "other".into() }); break; } };
        let head = String::from_utf8_lossy(&rest[..he]).to_string();
        let mut lines = head.split("\r\n");
        let sl = lines.next().unwrap_or("");
        let st: i64 = if sl.starts_with("HTTP/") { sl.split(' ').nth(1).and_then(|x| x.parse().ok()).unwrap_or(-1) } else { -1 };
        let (mut loc, mut cl) = (String::new(), None::<usize>);
        for l in lines { if let Some((n, v)) = l.split_once(':') { let n = n.trim().to_ascii_lowercase(); let v = v.strip_prefix(' ').unwrap_or(v);
            if n == "location" { loc = v.to_string(); } else if n == "content-length" { cl = v.trim().parse().ok(); } } }
        let bs = he + 4;
        let body: &[u8] = match cl { Some(n) if bs + n <= rest.len() => &rest[bs..bs + n], Some(_) => &rest[bs..], None => if eof { &rest[bs..] } else { &rest[bs..] } };
        let bl = body.len();
        let trimmed: &[u8] = if body.ends_with(b"\r\n") { &body[..body.len() - 2] } else { body };
        let class = if trimmed.is_empty() { "none" } else if trimmed == b"<h1>Please access over HTTPS</h1>" { "notice" }
                    else if trimmed == b"plain" || trimmed == b"cors" || trimmed == b"hello" { "app" } else { "other" };
        out.push(PResp { st, loc, class: class.into() });
        i += bs + bl;
        if cl.is_none() { break; }
    }
    out
}

fn p_request(k: &Value, idx: u64) -> Vec<u8> {
    let m = k["m"].as_str().unwrap_or("GET");
    let tgs = k["tgs"].as_str().unwrap_or("/");
    let ver = if idx % 5 == 4 { "HTTP/1.0" } else { "HTTP/1.1" };
    if !k["wf"].as_bool().unwrap_or(true) {
        return match idx % 4 {
            0 => format!("BLURB {} {}\r\nHost: {}\r\n\r\n", tgs, ver, k["hs"].as_str().unwrap_or("")).into_bytes(),
            1 => format!("GET {}\r\nHost: x\r\n\r\n", tgs).into_bytes(),                                   // no version
            2 => format!("GET {} {}\r\nHost-without-a-colon\r\n\r\n", tgs, ver).into_bytes(),                  // header line without a colon
            _ => { let mut v = format!("GET {}", tgs).into_bytes(); v.extend_from_slice(&[0xff, 0xfe]); v.extend_from_slice(format!(" {}\r\nHost: x\r\n\r\n", ver).as_bytes()); v }
        };
    }
    let mut h = format!("{} {} {}\r\n", m, tgs, ver);
    let hn = ["Host", "host", "HOST", "hOsT"][(idx % 4) as usize];
    match k["host"].as_str().unwrap_or("name") {
        "none" => {}
        _ => { let hs = k["hs"].as_str().unwrap_or(""); if hs.is_empty() { h.push_str(&format!("{}:\r\n", hn)); } else if idx % 3 == 0 { h.push_str(&format!("{}:{}\r\n", hn, hs)); } else { h.push_str(&format!("{}: {}\r\n", hn, hs)); } }
    }
    if idx % 2 == 0 { h.push_str("Connection: keep-alive\r\n"); }
    h.push_str("User-Agent: verif\r\n");
    if m == "POST" { h.push_str("Content-Length: 5\r\n\r\nhello"); } else { h.push_str("\r\n"); }
    h.into_bytes()
}

fn run_p(cx: &Ctx, p: i64, variant: u64) {
    let k = &cx.sc["pk"][(p - 1) as usize];
    let beh = k["beh"].as_str().unwrap_or("send");
    let mut s = match TcpStream::connect(cx.paddr) { Ok(s) => s, Err(_) => { pev(&cx.log, "PConnect", p, "refused", 0, 0, ""); return; } };
    let _ = s.set_nodelay(true);
    pev(&cx.log, "PConnect", p, "ok", 0, 0, "");
    match beh {
        "silent" => { cx.open.lock().unwrap().p.insert(p, s); return; }
        "closes" => {
            let req = p_request(k, variant);
            match variant % 3 { 0 => {}, 1 => { let _ = s.write_all(&req[..1]); }, _ => { let _ = s.write_all(&req[..req.len() - 3]); } }
            let _ = s.shutdown(Shutdown::Write);
        }
        _ => {
            let mut req = p_request(k, variant);
            if k["nreq"].as_i64().unwrap_or(1) == 2 { let r2 = p_request(k, variant + 1); req.extend_from_slice(&r2); }
            // in one segment, or split in two
            if variant % 3 == 1 && req.len() > 10 { let cut = 1 + (variant as usize * 7) % (req.len() - 1); let _ = s.write_all(&req[..cut]); std::thread::sleep(Duration::from_millis(5)); let _ = s.write_all(&req[cut..]); }
            else { let _ = s.write_all(&req); }
        }
    }
    let (got, eof) = read_to_end_patient(&mut s, P_EXTRA_MS);
    let rs = parse_presps(&got, eof);
    for (i, r) in rs.iter().enumerate() { pev(&cx.log, "PResp", p, &r.class, i as i64 + 1, r.st, &r.loc); }
    pev(&cx.log, if eof { "PEof" } else { "PQuiet" }, p, "", rs.len() as i64, 0, "");
}

fn p_check(cx: &Ctx, p: i64, giveup: bool) {
    let s = cx.open.lock().unwrap().p.remove(&p);
    if let Some(mut s) = s {
        if giveup { pev(&cx.log, "PGiveUp", p, "", 0, 0, ""); drop(s); return; }
        let (got, eof) = read_to_end_patient(&mut s, 0);
        let rs = parse_presps(&got, eof);
        for (i, r) in rs.iter().enumerate() { pev(&cx.log, "PResp", p, &r.class, i as i64 + 1, r.st, &r.loc); }
        pev(&cx.log, if eof { "PEof" } else { "PQuiet" }, p, "", rs.len() as i64, 0, "");
        if !eof { cx.open.lock().unwrap().p.insert(p, s); }
    }
}

fn run_step<R: Runtime>(cx: &Ctx, app: &Mutex<AppHandle>, opts: &AppOpts, st: &Value) {
    match st["op"].as_str().unwrap_or("") {
        "t" => run_t(cx, st["c"].as_i64().unwrap_or(0), st["v"].as_u64().unwrap_or(0)),
        "giveup" => t_giveup(cx, st["c"].as_i64().unwrap_or(0)),
        "p" => run_p(cx, st["p"].as_i64().unwrap_or(0), st["v"].as_u64().unwrap_or(0)),
        "pcheck" => p_check(cx, st["p"].as_i64().unwrap_or(0), false),
        "pgiveup" => p_check(cx, st["p"].as_i64().unwrap_or(0), true),
        "sleep" => std::thread::sleep(Duration::from_millis(st["ms"].as_u64().unwrap_or(10))),
        "par" => {
            let subs = st["steps"].as_array().cloned().unwrap_or_default();
            std::thread::scope(|sc| { for sub in &subs { sc.spawn(move || run_step::<R>(cx, app, opts, sub)); } });
        }
        "stop" => {
            let h = app.lock().unwrap();
            (h.stop)();
            let t0 = Instant::now();
            // run_tls must return; escalate before calling it a hang
            while !h.returned.load(Ordering::SeqCst) && t0.elapsed() < Duration::from_millis(PATIENCE.iter().sum()) { std::thread::sleep(Duration::from_millis(5)); }
            let ok = h.returned.load(Ordering::SeqCst) && h.run_error.lock().unwrap().is_none();
            ev(&cx.log, "AppStop", "a", 0, if ok { "returned" } else if h.returned.load(Ordering::SeqCst) { "error" } else { "hang" }, vec![], no_resp(), 0, 0, "");
        }
        "start" => {
            let mut o = opts.clone(); o.port = cx.addr.port();
            match common::start::<R>(&o) {
                Ok(h) => { *app.lock().unwrap() = h; ev(&cx.log, "AppStart", "a", 0, "ok", vec![], no_resp(), 0, 0, ""); }
                Err(e) => ev(&cx.log, "AppStart", "a", 0, &format!("failed: {}", e), vec![], no_resp(), 0, 0, ""),
            }
        }
        _ => {}
    }
}

fn run_scenario<R: Runtime>(sc: &Value, app: &Mutex<AppHandle>, opts: &AppOpts, seed: u64) -> Value {
    let log: Log = Arc::new(Mutex::new(vec![]));
    let addr = app.lock().unwrap().addr;
    let paddr: SocketAddr = format!("{}:80", TLS_IP).parse().unwrap();
    let cx = Ctx { addr, paddr, log: log.clone(), open: Arc::new(Mutex::new(Open { t: HashMap::new(), p: HashMap::new() })), sc, seed: seed ^ sc["id"].as_u64().unwrap_or(0).wrapping_mul(0x2545_F491), tls: common::tls_params(TLS_IP) };
    for st in sc["steps"].as_array().cloned().unwrap_or_default() { run_step::<R>(&cx, app, opts, &st); }
    // whatever is still open is closed now (not an event)
    cx.open.lock().unwrap().t.clear(); cx.open.lock().unwrap().p.clear();
    let events = log.lock().unwrap().clone();
    json!({"id": sc["id"], "workers": sc["workers"], "timeout": sc["timeout"], "force_https": sc["force_https"], "restarts": sc["restarts"], "tk": sc["tk"], "pk": sc["pk"],
           "label": sc["label"], "events": events})
}

fn opts_for(sc: &Value) -> AppOpts {
    let mut o = common::default_opts(TLS_IP);
    o.threads = sc["workers"].as_u64().unwrap_or(4) as usize;
    o.timeout_ms = if sc["timeout"].as_bool().unwrap_or(false) { Some(connlib::IDLE_TIMEOUT_MS) } else { None };
    o.force_https = sc["force_https"].as_bool().unwrap_or(false);
    o.with_shutdown = sc["restarts"].as_u64().unwrap_or(0) > 0;
    o
}

pub fn mode_scen<R: Runtime>(private: bool) -> i32 {
    let seed = util::seed_from_env();
    let scens: Vec<Value> = util::stdin_lines().filter_map(|l| serde_json::from_str::<Value>(&l).ok()).collect();
    let (forced, free): (Vec<Value>, Vec<Value>) = scens.into_iter().partition(|s| s["force_https"].as_bool().unwrap_or(false));
    // --- scenarios that need the force-HTTPS listener: one App for all of them, one scenario at a time ---
    let forced_thread = std::thread::spawn(move || {
        if forced.is_empty() { return; }
        let _lock = if private { None } else { Some(port80_lock()) };
        let opts = opts_for(&forced[0]);
        // nobody may be listening on port 80 before the app starts (else its own bind fails silently); the check reads
        // the kernel's socket table instead of connecting, because a probe connection is itself an input to the listener
        let t0 = Instant::now();
        while port_listening(80) && t0.elapsed() < Duration::from_secs(45) { std::thread::sleep(Duration::from_millis(500)); }
        if port_listening(80) { for sc in &forced { util::out_line(&json!({"id": sc["id"], "skipped": "port 80 is in use by another process"})); } return; }
        let app = match common::start::<R>(&opts) { Ok(h) => Mutex::new(h), Err(e) => { for sc in &forced { util::out_line(&json!({"id": sc["id"], "error": format!("cannot start app: {}", e)})); } return; } };
        // the redirect listener is started by a pool task: give it a moment, but never mistake "not yet" for "never"
        let t0 = Instant::now();
        while !port_listening(80) && t0.elapsed() < Duration::from_secs(20) { std::thread::sleep(Duration::from_millis(10)); }
        for sc in &forced {
            if opts_for(sc).threads != opts.threads || opts_for(sc).timeout_ms != opts.timeout_ms { util::out_line(&json!({"id": sc["id"], "error": "force_https scenarios of one run must share workers/timeout"})); continue; }
            util::out_line(&run_scenario::<R>(sc, &app, &opts, seed));
        }
    });
    // --- all other scenarios: an App each, several at a time ---
    let queue = Arc::new(Mutex::new(free.into_iter().rev().collect::<Vec<_>>()));
    let mut hs = vec![];
    for _ in 0..8 {
        let q = queue.clone();
        hs.push(std::thread::spawn(move || loop {
            let sc = { q.lock().unwrap().pop() };
            let sc = match sc { Some(s) => s, None => break };
            let opts = opts_for(&sc);
            match common::start::<R>(&opts) {
                Ok(h) => { let app = Mutex::new(h); let rec = run_scenario::<R>(&sc, &app, &opts, seed); (app.lock().unwrap().stop)(); util::out_line(&rec); }
                Err(e) => util::out_line(&json!({"id": sc["id"], "error": format!("cannot start app: {}", e)})),
            }
        }));
    }
    for h in hs { let _ = h.join(); }
    let _ = forced_thread.join();
    0
}

/// Is some socket of this network namespace listening on `port` (IPv4 or IPv6)? Read from /proc, no connection is made.
pub fn port_listening(port: u16) -> bool {
    let needle = format!(":{:04X}", port);
    for f in ["/proc/thread-self/net/tcp", "/proc/thread-self/net/tcp6"] {
        if let Ok(t) = std::fs::read_to_string(f) {
            for l in t.lines().skip(1) {
                let mut it = l.split_whitespace();
                let (_sl, local, _rem, st) = (it.next(), it.next().unwrap_or(""), it.next(), it.next().unwrap_or(""));
                if st == "0A" && local.ends_with(&needle) { return true; }
            }
        }
    }
    false
}

/// Shared network namespace: serialise the users of port 80 among the processes of this harness.
pub fn port80_lock() -> std::fs::File {
    let path = std::env::var("VERIF_PORT80_LOCK").unwrap_or_else(|_| "/verif/.work/port80.lock".to_string());
    let f = std::fs::OpenOptions::new().create(true).write(true).open(&path).expect("port 80 lock file");
    unsafe { libc::flock(std::os::unix::io::AsRawFd::as_raw_fd(&f), libc::LOCK_EX); }
    f
}
