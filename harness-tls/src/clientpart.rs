//! Mode `client`: the real `humphrey::Client` (client.rs under feature "tls") against scripted servers, playing the
//! redirect chains TLC generated from spec/tls/TlsClient.tla.
//!
//! Endpoints (the client can only address ports 80 and 443):
//!     http://127.0.7.3   plain listener            https://127.0.7.3   TLS, the harness certificate (trusted through
//!     https://127.0.7.4  TLS, a certificate the client does not trust       SSL_CERT_FILE, as rustls-native-certs reads it)
//! stdin: one behaviour per line
//!   {"id", "follow", "start": "<url of the first request>", "script": [{"at": "<endpoint>", "path", "code", "location",
//!    "framing", "id"}...], "reqs": [{"at", "path", "wire"}...], "outcome": "done"|"error", "exp": {...}}
//! (endpoint names already replaced by concrete URLs and paths made unique per behaviour by the driver).
//! stdout: per behaviour what really happened - the requests the servers saw (endpoint, path, transport), and what
//! send() returned - and whether that equals what TLC predicted.  A summary line ends the output.
use crate::scen::port80_lock;
use crate::tlsclient;
use crate::util;
use humphrey::Client;
use serde_json::{json, Value};
use std::collections::HashMap;
use std::io::{Read, Write};
use std::net::{TcpListener, TcpStream};
use std::sync::{Arc, Mutex};
use std::time::Duration;

pub const A: &str = "127.0.7.3";
pub const B: &str = "127.0.7.4";

#[derive(Clone)]
struct Planned { code: u16, location: String, framing: String, id: i64 }
#[derive(Default)]
struct State { table: HashMap<(String, String), Planned>, seen: Vec<Value>, errors: Vec<String> }
type Shared = Arc<Mutex<State>>;

fn reason(code: u16) -> &'static str { match code { 200 => "OK", 301 => "Moved Permanently", 302 => "Found", 303 => "See Other", 304 => "Not Modified", 307 => "Temporary Redirect", 404 => "Not Found", _ => "Status" } }

fn body_of(p: &Planned) -> Vec<u8> { format!("<response {} of the chain, status {}>", p.id, p.code).into_bytes() }

fn render(p: &Planned) -> Vec<u8> {
    let body = body_of(p);
    let mut h = format!("HTTP/1.1 {} {}\r\nConnection: close\r\nX-Id: {}\r\n", p.code, reason(p.code), p.id);
    if !p.location.is_empty() { h.push_str(&format!("Location: {}\r\n", p.location)); }
    let mut out;
    match p.framing.as_str() {
        "chunked" => {
            h.push_str("Transfer-Encoding: chunked\r\n\r\n");
            out = h.into_bytes();
            let cut = body.len() / 2;
            for part in [&body[..cut], &body[cut..]] { if !part.is_empty() { out.extend(format!("{:x}\r\n", part.len()).as_bytes()); out.extend_from_slice(part); out.extend(b"\r\n"); } }
            out.extend(b"0\r\n\r\n");
        }
        "none" => { h.push_str("\r\n"); out = h.into_bytes(); }
        _ => { h.push_str(&format!("Content-Length: {}\r\n\r\n", body.len())); out = h.into_bytes(); out.extend_from_slice(&body); }
    }
    out
}

fn serve<S: Read + Write>(s: &mut S, endpoint: &str, wire: &str, st: &Shared) {
    let mut buf = vec![]; let mut tmp = [0u8; 4096];
    loop {
        match s.read(&mut tmp) {
            Ok(0) => break,
            Ok(n) => { buf.extend_from_slice(&tmp[..n]); if buf.windows(4).any(|w| w == b"\r\n\r\n") { break; } if buf.len() > 65536 { break; } }
            Err(_) => break,
        }
    }
    if buf.is_empty() { return; }
    let head = String::from_utf8_lossy(&buf).to_string();
    let target = head.split(' ').nth(1).unwrap_or("").to_string();
    let path = target.split('?').next().unwrap_or("").to_string();
    let host = head.lines().find(|l| l.to_ascii_lowercase().starts_with("host:")).map(|l| l[5..].trim().to_string()).unwrap_or_default();
    let planned = {
        let mut g = st.lock().unwrap();
        g.seen.push(json!({"at": endpoint, "path": path, "wire": wire, "host": host}));
        g.table.get(&(endpoint.to_string(), path.clone())).cloned()
    };
    let p = planned.unwrap_or(Planned { code: 404, location: String::new(), framing: "cl".into(), id: 1000 });
    let _ = s.write_all(&render(&p));
    let _ = s.flush();
}

fn tls_config(cert: &str, key: &str) -> Arc<rustls::ServerConfig> {
    Arc::new(rustls::ServerConfig::builder().with_safe_defaults().with_no_client_auth()
        .with_single_cert(tlsclient::load_certs(cert), tlsclient::load_key(key)).expect("server config"))
}

fn bind_retry(ip: &str, port: u16) -> Result<TcpListener, String> {
    let t0 = std::time::Instant::now();
    loop {
        match TcpListener::bind((ip, port)) {
            Ok(l) => return Ok(l),
            Err(e) if e.kind() == std::io::ErrorKind::AddrInUse && t0.elapsed() < Duration::from_secs(40) => std::thread::sleep(Duration::from_millis(250)),
            Err(e) => return Err(format!("cannot bind {}:{}: {}", ip, port, e)),
        }
    }
}

fn start_servers(st: &Shared) -> Result<(), String> {
    let plain = bind_retry(A, 80)?;
    let tls_a = bind_retry(A, 443)?;
    let tls_b = bind_retry(B, 443)?;
    let ep_plain = format!("http://{}", A);
    let s1 = st.clone();
    std::thread::spawn(move || for c in plain.incoming().flatten() {
        let (s2, ep) = (s1.clone(), ep_plain.clone());
        std::thread::spawn(move || { let mut c = c; let _ = c.set_read_timeout(Some(Duration::from_secs(10))); serve(&mut c, &ep, "plain", &s2); });
    });
    for (l, ip, cert, key) in [(tls_a, A, tlsclient::cert_path(), tlsclient::key_path()), (tls_b, B, tlsclient::other_cert_path(), tlsclient::other_key_path())] {
        let cfg = tls_config(&cert, &key);
        let (s1, ep) = (st.clone(), format!("https://{}", ip));
        std::thread::spawn(move || for c in l.incoming().flatten() {
            let (s2, ep, cfg) = (s1.clone(), ep.clone(), cfg.clone());
            std::thread::spawn(move || {
                let _ = c.set_read_timeout(Some(Duration::from_secs(10)));
                let conn = match rustls::ServerConnection::new(cfg) { Ok(c) => c, Err(_) => return };
                let mut t = rustls::StreamOwned::new(conn, c);
                // a handshake that fails (plaintext on the TLS port, a client that rejects the certificate) is an observation too
                let mut one = [0u8; 0];
                if let Err(e) = t.read(&mut one) {
                    if t.conn.is_handshaking() { s2.lock().unwrap().seen.push(json!({"at": ep, "path": "", "wire": "handshake-failed", "host": e.to_string()})); return; }
                }
                serve(&mut t, &ep, "tls", &s2);
                t.conn.send_close_notify(); let _ = t.flush();
            });
        });
    }
    Ok(())
}

fn run_client(url: &str, follow: bool) -> Value {
    let url = url.to_string();
    let r = std::panic::catch_unwind(move || {
        let mut c = Client::new();
        c.get(&url).map(|rq| rq.with_redirects(follow)).and_then(|rq| rq.send()).map_err(|e| e.to_string())
    });
    match r {
        Err(_) => json!({"outcome": "panic"}),
        Ok(Err(e)) => json!({"outcome": "error", "error": e}),
        Ok(Ok(resp)) => {
            let code: u16 = resp.status_code.into();
            let id = resp.headers.get("X-Id").map(|s| s.to_string()).unwrap_or_default();
            let loc = resp.headers.get("Location").map(|s| s.to_string()).unwrap_or_default();
            json!({"outcome": "done", "code": code, "id": id, "location": loc, "body": String::from_utf8_lossy(&resp.body).to_string()})
        }
    }
}

pub fn mode_client(private: bool) -> i32 {
    // the client under test trusts what rustls-native-certs loads: exactly the harness certificate
    std::env::set_var("SSL_CERT_FILE", tlsclient::cert_path());
    let _lock = if private { None } else { Some(port80_lock()) };
    let st: Shared = Arc::new(Mutex::new(State::default()));
    if let Err(e) = start_servers(&st) {
        util::out_line(&json!({"summary": true, "available": false, "reason": e}));
        return 0;
    }
    let (mut n, mut mismatches, mut first) = (0u64, 0u64, vec![]);
    for line in util::stdin_lines() {
        let b: Value = match serde_json::from_str(&line) { Ok(v) => v, Err(_) => continue };
        if b.get("script").is_none() { continue; }
        {
            let mut g = st.lock().unwrap();
            g.table.clear(); g.seen.clear();
            for r in b["script"].as_array().cloned().unwrap_or_default() {
                g.table.insert((r["at"].as_str().unwrap_or("").to_string(), r["path"].as_str().unwrap_or("").to_string()),
                    Planned { code: r["code"].as_u64().unwrap_or(0) as u16, location: r["location"].as_str().unwrap_or("").to_string(), framing: r["framing"].as_str().unwrap_or("cl").to_string(), id: r["id"].as_i64().unwrap_or(-1) });
            }
        }
        let got = run_client(b["start"].as_str().unwrap_or(""), b["follow"].as_bool().unwrap_or(false));
        // handshakes the servers gave up on are reported a moment after the client's error
        std::thread::sleep(Duration::from_millis(if got["outcome"] == "done" { 0 } else { 30 }));
        let seen = st.lock().unwrap().seen.clone();
        n += 1;
        // --- compare with TLC's prediction ---
        let mut why = vec![];
        let exp_reqs = b["reqs"].as_array().cloned().unwrap_or_default();
        let delivered: Vec<&Value> = seen.iter().filter(|s| s["wire"] != "handshake-failed").collect();
        if delivered.len() != exp_reqs.len() { why.push(format!("{} request(s) delivered, {} predicted", delivered.len(), exp_reqs.len())); }
        for (s, e) in delivered.iter().zip(exp_reqs.iter()) {
            if s["at"] != e["at"] || s["path"] != e["path"] || s["wire"] != e["wire"] { why.push(format!("request {} {} over {} where {} {} over {} was predicted", s["at"], s["path"], s["wire"], e["at"], e["path"], e["wire"])); }
            // the Host header names the endpoint's host (certificate verification relies on it)
            let want_host = e["at"].as_str().unwrap_or("").split("//").nth(1).unwrap_or("");
            if s["host"].as_str().unwrap_or("") != want_host { why.push(format!("Host header {} for endpoint {}", s["host"], e["at"])); }
        }
        if got["outcome"] != b["outcome"] { why.push(format!("send() outcome {} ({}), predicted {}", got["outcome"], got["error"], b["outcome"])); }
        else if got["outcome"] == "done" {
            let e = &b["exp"];
            let exp_body = String::from_utf8_lossy(&body_of(&Planned { code: e["code"].as_u64().unwrap_or(0) as u16, location: String::new(), framing: String::new(), id: e["id"].as_i64().unwrap_or(-1) })).to_string();
            if got["code"] != e["code"] || got["id"].as_str().unwrap_or("") != e["id"].to_string() || got["location"] != e["location"] { why.push(format!("returned {} id {} location {}, predicted {} id {} location {}", got["code"], got["id"], got["location"], e["code"], e["id"], e["location"])); }
            else if e["framing"] != "none" && got["body"].as_str().unwrap_or("") != exp_body { why.push(format!("body {:?}, predicted {:?}", got["body"], exp_body)); }
        }
        if !why.is_empty() { mismatches += 1; if first.len() < 5 { first.push(json!({"id": b["id"], "why": why, "behaviour": b, "got": got, "seen": seen})); } }
        util::out_line(&json!({"id": b["id"], "ok": why.is_empty(), "got": got, "seen": seen}));
    }
    util::out_line(&json!({"summary": true, "available": true, "behaviours": n, "mismatches": mismatches, "first": first}));
    0
}
