//! Reference client transport for the TLS harness: either a plain TCP stream or a rustls client connection that is
//! driven by hand (ClientConnection + TcpStream, not StreamOwned), so that the harness controls
//!   * what one "send" is: the plaintext of one Send(n) event is handed to rustls in ONE write, i.e. it becomes
//!     ceil(n / 16384) TLS records (rustls fragments at the 16 KiB record limit), flushed before anything else happens;
//!   * how the ciphertext reaches the server: in one TCP write per send, or (`chop`) cut at random offsets - inside
//!     record headers and record bodies - so that the server's record layer has to reassemble.
//! and can tell a close_notify from a bare TCP FIN / reset.
use crate::util::Rng;
use rustls::{ClientConfig, ClientConnection, RootCertStore};
use std::io::{self, Read, Write};
use std::net::{Shutdown, SocketAddr, TcpStream};
use std::sync::Arc;
use std::time::{Duration, Instant};

pub fn certs_dir() -> String {
    std::env::var("VERIF_TLS_CERTS").unwrap_or_else(|_| concat!(env!("CARGO_MANIFEST_DIR"), "/certs").to_string())
}
pub fn cert_path() -> String { format!("{}/cert.pem", certs_dir()) }
pub fn key_path() -> String { format!("{}/key.pem", certs_dir()) }
pub fn other_cert_path() -> String { format!("{}/other_cert.pem", certs_dir()) }
pub fn other_key_path() -> String { format!("{}/other_key.pem", certs_dir()) }

pub fn load_certs(path: &str) -> Vec<rustls::Certificate> {
    let mut rd = io::BufReader::new(std::fs::File::open(path).unwrap_or_else(|e| panic!("open {}: {}", path, e)));
    let mut out = vec![];
    while let Ok(Some(item)) = rustls_pemfile::read_one(&mut rd) {
        if let rustls_pemfile::Item::X509Certificate(c) = item { out.push(rustls::Certificate(c)); }
    }
    out
}
pub fn load_key(path: &str) -> rustls::PrivateKey {
    let mut rd = io::BufReader::new(std::fs::File::open(path).unwrap_or_else(|e| panic!("open {}: {}", path, e)));
    while let Ok(Some(item)) = rustls_pemfile::read_one(&mut rd) {
        if let rustls_pemfile::Item::PKCS8Key(k) = item { return rustls::PrivateKey(k); }
    }
    panic!("no PKCS8 key in {}", path)
}

/// Client configurations trusting exactly the harness certificate: [0] TLS 1.3 only, [1] TLS 1.2 only, [2] both.
pub fn client_configs() -> Vec<Arc<ClientConfig>> {
    let mut roots = RootCertStore::empty();
    for c in load_certs(&cert_path()) { roots.add(&c).expect("harness certificate not usable as trust anchor"); }
    let mk = |versions: &[&'static rustls::SupportedProtocolVersion]| {
        Arc::new(ClientConfig::builder().with_safe_default_cipher_suites().with_safe_default_kx_groups()
            .with_protocol_versions(versions).expect("versions")
            .with_root_certificates(roots.clone()).with_no_client_auth())
    };
    vec![mk(&[&rustls::version::TLS13]), mk(&[&rustls::version::TLS12]), mk(&[&rustls::version::TLS13, &rustls::version::TLS12])]
}

#[derive(Clone, Copy, PartialEq, Eq, Debug)]
pub enum EofKind { None, Notify, Fin, Reset, TlsError }
impl EofKind { pub fn name(self) -> &'static str { match self { EofKind::None => "none", EofKind::Notify => "close_notify", EofKind::Fin => "fin", EofKind::Reset => "reset", EofKind::TlsError => "tls_error" } } }

pub struct TlsConn { pub conn: ClientConnection, pub sock: TcpStream, pub chop: bool, pub rng: Rng, pub eof: EofKind, pub err: String, pub records_out: u64, pub version: &'static str }

pub enum Conn { Plain(TcpStream), Tls(Box<TlsConn>) }

fn is_timeout(e: &io::Error) -> bool { matches!(e.kind(), io::ErrorKind::WouldBlock | io::ErrorKind::TimedOut) }

impl TlsConn {
    /// Push everything rustls wants to write to the socket; with `chop` the ciphertext is cut at random offsets.
    fn flush_tls(&mut self) -> io::Result<()> {
        let mut ct: Vec<u8> = vec![];
        while self.conn.wants_write() { self.conn.write_tls(&mut ct)?; }
        if ct.is_empty() { return Ok(()); }
        if !self.chop || ct.len() > 70_000 {
            return self.sock.write_all(&ct);
        }
        let mut i = 0;
        while i < ct.len() {
            let left = ct.len() - i;
            let k = match self.rng.below(4) { 0 => 1, 1 => self.rng.range(1, 6.min(left)), 2 => self.rng.range(1, left), _ => left }.min(left);
            self.sock.write_all(&ct[i..i + k])?;
            i += k;
            if i < ct.len() && self.rng.chance(1, 3) { std::thread::sleep(Duration::from_micros(300)); }
        }
        Ok(())
    }

    /// Complete the handshake; `Err` carries what happened (an alert, EOF, a timeout).
    pub fn handshake(&mut self, patience: Duration) -> Result<(), String> {
        let t0 = Instant::now();
        let _ = self.sock.set_read_timeout(Some(Duration::from_millis(200)));
        while self.conn.is_handshaking() {
            self.flush_tls().map_err(|e| format!("write: {}", e))?;
            if !self.conn.is_handshaking() { break; }
            if self.conn.wants_read() {
                match self.conn.read_tls(&mut self.sock) {
                    Ok(0) => return Err("eof during handshake".into()),
                    Ok(_) => { self.conn.process_new_packets().map_err(|e| format!("tls: {}", e))?; }
                    Err(e) if is_timeout(&e) => { if t0.elapsed() > patience { return Err("timeout during handshake".into()); } }
                    Err(e) => return Err(format!("read: {}", e)),
                }
            }
        }
        self.flush_tls().map_err(|e| format!("write: {}", e))?;
        self.version = match self.conn.protocol_version() { Some(rustls::ProtocolVersion::TLSv1_3) => "1.3", Some(rustls::ProtocolVersion::TLSv1_2) => "1.2", _ => "?" };
        Ok(())
    }

    fn send(&mut self, data: &[u8]) -> io::Result<()> {
        // one write per <= 64 KiB (rustls' plaintext buffer limit), each flushed: the records of one Send(n) leave in order
        let mut i = 0;
        while i < data.len() {
            let n = self.conn.writer().write(&data[i..])?;
            if n == 0 { self.flush_tls()?; continue; }
            self.records_out += ((n + 16383) / 16384) as u64;
            i += n;
            self.flush_tls()?;
        }
        Ok(())
    }

    /// Ok(n > 0): plaintext; Ok(0): end of stream (self.eof says how); Err(WouldBlock): nothing within `wait`.
    fn recv(&mut self, buf: &mut [u8], wait: Duration) -> io::Result<usize> {
        loop {
            match self.conn.reader().read(buf) {
                Ok(0) => { if self.eof == EofKind::None { self.eof = EofKind::Notify; } return Ok(0); }
                Ok(n) => return Ok(n),
                Err(e) if e.kind() == io::ErrorKind::WouldBlock => {}
                Err(e) if e.kind() == io::ErrorKind::UnexpectedEof => { if self.eof == EofKind::None { self.eof = EofKind::Fin; } return Ok(0); }
                Err(e) => { self.eof = EofKind::TlsError; self.err = e.to_string(); return Err(io::Error::new(io::ErrorKind::InvalidData, e.to_string())); }
            }
            if self.eof != EofKind::None { return Ok(0); }
            let _ = self.sock.set_read_timeout(Some(wait.max(Duration::from_millis(1))));
            match self.conn.read_tls(&mut self.sock) {
                Ok(0) => { self.eof = EofKind::Fin; /* let rustls see the EOF: the next reader().read says UnexpectedEof or Ok(0) */ }
                Ok(_) => {
                    if let Err(e) = self.conn.process_new_packets() {
                        self.eof = EofKind::TlsError; self.err = e.to_string();
                        let _ = self.flush_tls();
                        return Err(io::Error::new(io::ErrorKind::InvalidData, e.to_string()));
                    }
                    // post-handshake messages (session tickets, key updates) may want an answer
                    if self.conn.wants_write() { let _ = self.flush_tls(); }
                }
                Err(e) if is_timeout(&e) => return Err(io::Error::new(io::ErrorKind::WouldBlock, "nothing yet")),
                Err(_) => { self.eof = EofKind::Reset; return Ok(0); }
            }
            if self.eof == EofKind::Fin {
                // drain plaintext that was decrypted before the FIN
                match self.conn.reader().read(buf) { Ok(n) if n > 0 => return Ok(n), _ => return Ok(0) }
            }
        }
    }
}

/// TCP connect; `rcvbuf > 0` makes the client's receive buffer that small BEFORE connecting (a tiny TCP window: the
/// server's writes block for most of a large response, up to its very last bytes).
pub fn tcp_connect(addr: SocketAddr, rcvbuf: usize) -> io::Result<TcpStream> {
    if rcvbuf == 0 {
        let s = TcpStream::connect(addr)?;
        // a server that stops reading must not hang the client for ever: a blocked write gives up (and the log shows it)
        let _ = s.set_write_timeout(Some(Duration::from_secs(20)));
        return Ok(s);
    }
    use std::os::unix::io::FromRawFd;
    let v4 = match addr { SocketAddr::V4(a) => a, SocketAddr::V6(_) => return TcpStream::connect(addr) };
    unsafe {
        let fd = libc::socket(libc::AF_INET, libc::SOCK_STREAM | libc::SOCK_CLOEXEC, 0);
        if fd < 0 { return Err(io::Error::last_os_error()); }
        let n: libc::c_int = rcvbuf as libc::c_int;
        libc::setsockopt(fd, libc::SOL_SOCKET, libc::SO_RCVBUF, &n as *const _ as *const libc::c_void, std::mem::size_of::<libc::c_int>() as libc::socklen_t);
        let sa = libc::sockaddr_in { sin_family: libc::AF_INET as libc::sa_family_t, sin_port: v4.port().to_be(), sin_addr: libc::in_addr { s_addr: u32::from_ne_bytes(v4.ip().octets()) }, sin_zero: [0; 8] };
        if libc::connect(fd, &sa as *const _ as *const libc::sockaddr, std::mem::size_of::<libc::sockaddr_in>() as libc::socklen_t) != 0 {
            let e = io::Error::last_os_error(); libc::close(fd); return Err(e);
        }
        Ok(TcpStream::from_raw_fd(fd))
    }
}

impl Conn {
    pub fn connect_plain(addr: SocketAddr) -> io::Result<Conn> {
        let s = tcp_connect(addr, 0)?;
        let _ = s.set_nodelay(true);
        Ok(Conn::Plain(s))
    }

    /// TCP connect + TLS handshake. Outer Err: the TCP connection could not be made (tool trouble);
    /// inner Err: the handshake with the server under test did not complete (data).
    pub fn connect_tls(addr: SocketAddr, cfg: Arc<ClientConfig>, name: &str, chop: bool, seed: u64, patience: Duration, rcvbuf: usize) -> io::Result<Result<Conn, String>> {
        let sock = tcp_connect(addr, rcvbuf)?;
        let _ = sock.set_nodelay(true);
        let sn = rustls::ServerName::try_from(name).map_err(|_| io::Error::new(io::ErrorKind::InvalidInput, "server name"))?;
        let conn = ClientConnection::new(cfg, sn).map_err(|e| io::Error::new(io::ErrorKind::Other, e.to_string()))?;
        let mut t = TlsConn { conn, sock, chop, rng: Rng::new(seed), eof: EofKind::None, err: String::new(), records_out: 0, version: "?" };
        match t.handshake(patience) { Ok(()) => Ok(Ok(Conn::Tls(Box::new(t)))), Err(e) => Ok(Err(e)) }
    }

    pub fn sock(&self) -> &TcpStream { match self { Conn::Plain(s) => s, Conn::Tls(t) => &t.sock } }
    pub fn local_port(&self) -> u16 { self.sock().local_addr().map(|a| a.port()).unwrap_or(0) }

    pub fn write_all(&mut self, data: &[u8]) -> io::Result<()> {
        match self { Conn::Plain(s) => s.write_all(data), Conn::Tls(t) => t.send(data) }
    }

    /// One read: Ok(0) = end of stream, Err(WouldBlock) = nothing arrived within `wait`, other Err = broken stream.
    pub fn read_wait(&mut self, buf: &mut [u8], wait: Duration) -> io::Result<usize> {
        match self {
            Conn::Plain(s) => {
                let _ = s.set_read_timeout(Some(wait.max(Duration::from_millis(1))));
                match s.read(buf) { Err(e) if is_timeout(&e) => Err(io::Error::new(io::ErrorKind::WouldBlock, "nothing yet")), r => r }
            }
            Conn::Tls(t) => t.recv(buf, wait),
        }
    }

    /// End the sending side. TLS: `notify` = close_notify first (the orderly way), otherwise a bare TCP FIN.
    pub fn shutdown_write(&mut self, notify: bool) {
        match self {
            Conn::Plain(s) => { let _ = s.shutdown(Shutdown::Write); }
            Conn::Tls(t) => {
                if notify { t.conn.send_close_notify(); let _ = t.flush_tls(); }
                let _ = t.sock.shutdown(Shutdown::Write);
            }
        }
    }

    pub fn info(&self) -> serde_json::Value {
        match self {
            Conn::Plain(_) => serde_json::json!({"tls": false}),
            Conn::Tls(t) => serde_json::json!({"tls": true, "version": t.version, "eof": t.eof.name(), "err": t.err, "records_out": t.records_out, "chop": t.chop}),
        }
    }
}
