//! TLS harness, tokio runtime: the real `humphrey::App` (features "tls" + "tokio") started through its public
//! builder and `App::run_tls` on a multi-thread tokio runtime. Everything else lives in src/common.rs.
use humphrey::http::cors::Cors;
use humphrey::http::{Request, Response, StatusCode};
use humphrey::monitor::MonitorConfig;
use humphrey::App;
use hvtls::common::{self, AppOpts, Runtime};
use std::net::SocketAddr;
use std::sync::atomic::{AtomicBool, Ordering};
use std::sync::{Arc, Mutex};
use tokio_util::sync::CancellationToken;

struct Tokio;

impl Runtime for Tokio {
    const NAME: &'static str = "tokio";
    fn spawn(o: &AppOpts, mon: MonitorConfig) -> (Box<dyn Fn() + Send + Sync>, Arc<AtomicBool>, Arc<Mutex<Option<String>>>) {
        let returned = Arc::new(AtomicBool::new(false));
        let err = Arc::new(Mutex::new(None));
        let token = CancellationToken::new();
        let (o, r2, e2, t2) = (o.clone(), returned.clone(), err.clone(), token.clone());
        std::thread::spawn(move || {
            let addr = SocketAddr::new(o.ip, o.port);
            let res = std::panic::catch_unwind(std::panic::AssertUnwindSafe(|| {
                let rt = tokio::runtime::Builder::new_multi_thread().worker_threads(o.threads.clamp(2, 4)).enable_all().build().unwrap();
                rt.block_on(async move {
                    let mut app: App<()> = App::new()
                        .with_stateless_route("/plain", |_r: Request| async { Response::new(StatusCode::OK, "plain") })
                        .with_stateless_route("/cors", |_r: Request| async { Response::new(StatusCode::OK, "cors") })
                        .with_stateless_route("/echo", |r: Request| async move { Response::new(StatusCode::OK, r.content.unwrap_or_default()) })
                        .with_stateless_route("/empty", |_r: Request| async { Response::empty(StatusCode::OK) })
                        .with_stateless_route("/panic", |_r: Request| async { if true { panic!("handler panic (scripted)") } Response::empty(StatusCode::OK) })
                        .with_cors_config("/cors", Cors::wildcard())
                        .with_monitor(mon)
                        .with_cert(&o.cert, &o.key)
                        .with_forced_https(o.force_https);
                    if o.with_shutdown { app = app.with_shutdown(t2); }
                    app.run_tls(addr).await.map_err(|e| e.to_string())
                })
            }));
            *e2.lock().unwrap() = match res { Ok(Ok(())) => None, Ok(Err(e)) => Some(e), Err(_) => Some("run_tls panicked".to_string()) };
            r2.store(true, Ordering::SeqCst);
        });
        (Box::new(move || token.cancel()), returned, err)
    }
}

fn main() { common::main_with::<Tokio>() }
