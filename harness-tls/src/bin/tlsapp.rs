//! TLS harness, threaded runtime: the real `humphrey::App` (feature "tls") started through its public builder and
//! `App::run_tls`. Everything else lives in src/common.rs.
use humphrey::http::cors::Cors;
use humphrey::http::{Request, Response, StatusCode};
use humphrey::monitor::MonitorConfig;
use humphrey::App;
use hvtls::common::{self, AppOpts, Runtime};
use std::net::SocketAddr;
use std::sync::atomic::{AtomicBool, Ordering};
use std::sync::{Arc, Mutex};
use std::time::Duration;

struct Threaded;

impl Runtime for Threaded {
    const NAME: &'static str = "threaded";
    fn spawn(o: &AppOpts, mon: MonitorConfig) -> (Box<dyn Fn() + Send + Sync>, Arc<AtomicBool>, Arc<Mutex<Option<String>>>) {
        let returned = Arc::new(AtomicBool::new(false));
        let err = Arc::new(Mutex::new(None));
        let (tx, rx) = std::sync::mpsc::channel::<()>();
        let (o, r2, e2) = (o.clone(), returned.clone(), err.clone());
        std::thread::spawn(move || {
            let addr = SocketAddr::new(o.ip, o.port);
            let res = std::panic::catch_unwind(std::panic::AssertUnwindSafe(|| {
                let mut app: App<()> = App::new_with_config(o.threads, ())
                    .with_stateless_route("/plain", |_r: Request| Response::new(StatusCode::OK, "plain"))
                    .with_stateless_route("/cors", |_r: Request| Response::new(StatusCode::OK, "cors"))
                    .with_stateless_route("/echo", |r: Request| Response::new(StatusCode::OK, r.content.unwrap_or_default()))
                    .with_stateless_route("/empty", |_r: Request| Response::empty(StatusCode::OK))
                    .with_stateless_route("/panic", |_r: Request| -> Response { panic!("handler panic (scripted)") })
                    .with_cors_config("/cors", Cors::wildcard())
                    .with_connection_timeout(o.timeout_ms.map(Duration::from_millis))
                    .with_monitor(mon)
                    .with_cert(&o.cert, &o.key)
                    .with_forced_https(o.force_https);
                if o.with_shutdown { app = app.with_shutdown(rx); } else { std::mem::forget(rx); }
                app.run_tls(addr).map_err(|e| e.to_string())
            }));
            *e2.lock().unwrap() = match res { Ok(Ok(())) => None, Ok(Err(e)) => Some(e), Err(_) => Some("run_tls panicked".to_string()) };
            r2.store(true, Ordering::SeqCst);
        });
        (Box::new(move || { let _ = tx.send(()); }), returned, err)
    }
}

fn main() { common::main_with::<Threaded>() }
