//! Runtime-independent part of the TLS harness. The two bins (tlsapp = threaded, tlsapp_tokio = tokio) supply
//! `Runtime::start`, which builds the REAL App through the public builder (with_cert, with_forced_https,
//! with_connection_timeout, with_shutdown, with_monitor) and calls the real entry point `App::run_tls`.
//!
//! Modes (argv[1]):
//!   conn [par]     stdin: C01 connection jobs (same format as harness/src/bin/conn.rs); every connection is made
//!                  over TLS; stdout: one connection record per job for Trace_HttpConn / Trace_TlsConn
//!   scen           stdin: scenarios (spec/tls/TlsApp.tla vocabulary): TLS-port connections with good and bad
//!                  handshakes, port-80 connections to the force-HTTPS listener, life cycle; stdout: one event log per
//!                  scenario for Trace_TlsApp
//!   client         stdin: redirect chains generated from spec/tls/TlsClient.tla; the real humphrey::Client is run
//!                  against scripted plain (port 80) and TLS (port 443) servers; stdout: outcomes / event logs
use crate::connlib_tls as connlib;
use crate::tlsclient;
use crate::util::{self, Rng};
use serde_json::{json, Value};
use std::net::{IpAddr, SocketAddr, TcpListener, TcpStream};
use std::sync::atomic::{AtomicBool, Ordering};
use std::sync::{Arc, Mutex};
use std::time::{Duration, Instant};

#[derive(Clone, Debug)]
pub struct AppOpts {
    pub ip: IpAddr,
    pub port: u16,
    pub threads: usize,
    pub timeout_ms: Option<u64>,
    pub force_https: bool,
    pub with_shutdown: bool,
    pub cert: String,
    pub key: String,
}

pub struct AppHandle {
    pub addr: SocketAddr,
    pub mon: connlib::Mon,
    /// asks the app to shut down (with_shutdown); no-op when the app was built without
    pub stop: Box<dyn Fn() + Send + Sync>,
    /// set when run_tls has returned (Ok or Err)
    pub returned: Arc<AtomicBool>,
    pub run_error: Arc<Mutex<Option<String>>>,
}

pub trait Runtime {
    const NAME: &'static str;
    /// Spawn the app (in the background) and return at once; the caller probes for readiness.
    fn spawn(opts: &AppOpts, mon: humphrey::monitor::MonitorConfig) -> (Box<dyn Fn() + Send + Sync>, Arc<AtomicBool>, Arc<Mutex<Option<String>>>);
}

pub fn free_port(ip: IpAddr) -> u16 { TcpListener::bind((ip, 0)).unwrap().local_addr().unwrap().port() }

/// Start an app and wait until its TLS port accepts connections. `Err` = the environment (port taken, ...), never data.
pub fn start<R: Runtime>(opts: &AppOpts) -> Result<AppHandle, String> {
    let mut last = String::new();
    for attempt in 0..6 {
        let mut o = opts.clone();
        if o.port == 0 { o.port = free_port(o.ip); }
        let addr = SocketAddr::new(o.ip, o.port);
        let (moncfg, mon) = connlib::mon_new();
        let (stop, returned, run_error) = R::spawn(&o, moncfg);
        let t0 = Instant::now();
        loop {
            if returned.load(Ordering::SeqCst) { last = format!("run_tls returned at once: {:?}", run_error.lock().unwrap()); break; }
            if TcpStream::connect(addr).is_ok() { return Ok(AppHandle { addr, mon, stop, returned, run_error }); }
            if t0.elapsed() > Duration::from_secs(30) { last = "app did not start listening within 30 s".into(); break; }
            std::thread::sleep(Duration::from_millis(10));
        }
        if opts.port != 0 { std::thread::sleep(Duration::from_millis(200 << attempt)); }
    }
    Err(last)
}

pub fn default_opts(ip: &str) -> AppOpts {
    AppOpts { ip: ip.parse().unwrap(), port: 0, threads: 64, timeout_ms: None, force_https: false, with_shutdown: false,
              cert: tlsclient::cert_path(), key: tlsclient::key_path() }
}

pub fn tls_params(name: &str) -> connlib::TlsParams { connlib::TlsParams { cfgs: tlsclient::client_configs(), name: name.to_string() } }

// ------------------------------------------------------------------------------------------------------------
// mode conn: the C01 job families over TLS
// ------------------------------------------------------------------------------------------------------------
fn mode_conn<R: Runtime>(par: usize) -> i32 {
    let seed = util::seed_from_env();
    let ip = "127.0.7.1";
    let plain = match start::<R>(&default_opts(ip)) { Ok(h) => h, Err(e) => { eprintln!("cannot start app: {}", e); return 2; } };
    // only the threaded runtime has a connection timeout
    let timed = if R::NAME == "threaded" {
        let mut o = default_opts(ip); o.timeout_ms = Some(connlib::IDLE_TIMEOUT_MS);
        match start::<R>(&o) { Ok(h) => Some(h), Err(e) => { eprintln!("cannot start app: {}", e); return 2; } }
    } else { None };
    let jobs: Vec<connlib::Job> = util::stdin_lines().filter_map(|l| serde_json::from_str::<Value>(&l).ok()).map(|v| connlib::parse_job(&v)).collect();
    let queue = Arc::new(Mutex::new(jobs.into_iter().rev().collect::<Vec<_>>()));
    // the certificate names localhost, 127.0.0.1, ::1 and 127.0.7.1-4: the client verifies the IP it connects to
    let tls = tls_params(ip);
    let plain = Arc::new(plain);
    let timed = Arc::new(timed);
    let mut hs = vec![];
    for _ in 0..par {
        let (q, plain, timed, tls) = (queue.clone(), plain.clone(), timed.clone(), tls.clone());
        hs.push(std::thread::spawn(move || loop {
            let job = { q.lock().unwrap().pop() };
            let job = match job { Some(j) => j, None => break };
            let h: &AppHandle = if job.timeout { match timed.as_ref() { Some(h) => h, None => { util::out_line(&json!({"id": job.id, "error": "no timeout instance on this runtime"})); continue; } } } else { &plain };
            let rec = connlib::run_job(&job, h.addr, seed, Some(&h.mon), Some(&tls));
            util::out_line(&rec);
        }));
    }
    for h in hs { let _ = h.join(); }
    0
}

pub fn main_with<R: Runtime>() -> ! {
    util::quiet_panics();
    let netns = crate::netns::enter_private_netns();
    let mut wmem = String::new();
    if netns.is_ok() {
        if let Ok(v) = std::env::var("VERIF_TLS_WMEM") { if !v.is_empty() { wmem = match crate::netns::set_tcp_wmem(&v) { Ok(()) => v, Err(e) => format!("failed: {}", e) }; } }
    }
    let args: Vec<String> = std::env::args().collect();
    let mode = args.get(1).map(|s| s.as_str()).unwrap_or("");
    util::out_line(&json!({"harness": "tls", "runtime": R::NAME, "mode": mode, "private_netns": netns.is_ok(), "tcp_wmem": wmem, "netns_note": netns.as_ref().err().cloned().unwrap_or_default()}));
    let rc = match mode {
        "conn" => mode_conn::<R>(args.get(2).and_then(|s| s.parse().ok()).unwrap_or(24)),
        "scen" => crate::scen::mode_scen::<R>(netns.is_ok()),
        "client" => crate::clientpart::mode_client(netns.is_ok()),
        _ => { eprintln!("usage: tlsapp conn [par] | scen | client"); 2 }
    };
    let _ = Rng::new(0);
    std::process::exit(rc);
}
