//! TLS conformance harness (growth item g-tls, part of C01): shared code of the threaded and the tokio bin.
#[path = "../../harness/src/util.rs"]
pub mod util;
pub mod netns;
pub mod tlsclient;
pub mod connlib_tls;
pub mod common;
pub mod scen;
pub mod clientpart;
