"""C01, CORS part - every response carries the matched route's CORS headers.

`run_part(ctx, tier)` is called by checks/c01.py; it adds its numbers to the C01 context and reports mismatches
with ctx.violation(...). It neither writes evidence nor calls ctx.finish().

spec/cors/Cors.tla: the builder calls of App / SubApp / Cors in any order are the actions, the response of the
dispatch (get_handler, OPTIONS branch, general branch, Cors::set_headers on the header list) is Respond, the
documented intent (computed from the call HISTORY) is Expected.

TWO LEVELS OF JUDGING (false-alarm audit). C01 states only that a response carries "the matched route's CORS
headers". Level 1 is the code model (Respond / Expected: status 204/200/404, the raw Access-Control-* lines with
their ", " joins, multiplicity and order, the identity of the handler that ran, the crate-doc reading of a Cors
value, "handler-set headers win", "nothing on an unmatched request"). A disagreement at level 1 is judged at
level 2 against the statement alone (Cors!AcceptSets / Acceptable, leniencies L-Status, L-Unmatched, L-Tokens,
L-Names, L-MethodsAny, L-Echo, L-Own): accepted => ctx.drift("cors", ...) (SPEC-DRIFT, exit code unchanged),
rejected => ctx.violation(...). What gates: on a matched route the token sets of Access-Control-Allow-Origin /
-Methods / -Headers are the configured ones of THAT route (configuration derived from the call history).

1. TLC: Dev = {} satisfies Inv_RouteCorsIntent / Inv_Response / Inv_Unmatched / Inv_HandlerWins /
   Inv_OptionsRouteOnly / Inv_CorsValues / Inv_Judge for every builder sequence of <= 4 (thorough 5) calls over 2
   patterns x 2 handler kinds x 2 Cors values x 2 host patterns; for every Cors builder chain of <= 3 (thorough 4)
   calls x 7 handler kinds (header computation); and, history-free (VIEW), for builder sequences of ANY length
   within structural bounds. 18 plausible bugs (Dev; quick: 8 of them) must each violate the code model; 11 of them
   (quick: 4) must also violate Inv_Judge (the statement rejects them) and two leniency witnesses (override /
   duplicate handler headers, `*` for wildcard methods, CORS on 404, handler run on OPTIONS) must satisfy it.
2. spec -> code: TLC prints every builder history of <= 3 calls (thorough: <= 4 over a narrower alphabet) and, by
   -simulate, random histories of 9 calls, each with Expected (level 1) and AcceptSets (level 2) for 36 requests
   (GET/OPTIONS/POST x 4 Host values x 3 paths, with / without an Origin header); harness/src/bin/cors.rs
   (threaded) and harness-tokio/src/bin/cors.rs build the REAL App through the public builder in exactly that
   order, run it on loopback and compare.
3. code -> spec: random builder sequences of 2..16 calls with random Cors chains on both runtimes, the log
   (calls + observed responses) validated by TLC against Trace_Cors (both levels).
4. self-test (after a clean run only): a flipped status must be reported as drift and a foreign origin as a
   mismatch by the harness; a doubled header line must be drift and a foreign header name rejected by Trace_Cors.
"""
import copy
import uuid
import json
import os
import random
import sys
from concurrent.futures import ThreadPoolExecutor

sys.path.insert(0, os.path.join(os.path.dirname(os.path.dirname(os.path.abspath(__file__))), "lib"))
import vlib
from vlib import run_tlc, build_harness, run_bin, parse_jsonl, SPEC

D = os.path.join(SPEC, "cors")
ACTIONS = ["WithRoute", "WithCors", "WithCorsConfig", "SubNew", "SubRoute", "SubCors", "SubCorsConfig", "WithHost",
           "WithDefaultSubapp"]
DEVS = ["CorsOnlyFuture", "CorsOnlyExisting", "NewRouteIgnoresSubCors", "ConfigFirstOnly", "ConfigByMatch",
        "ConfigSetsSubCors", "AppCorsAllHosts", "AppConfigAllHosts", "DefSubKeepsOldCors", "ErrorGetsCors",
        "OptionsNoCors", "OptionsRunsHandler", "OverrideHandler", "DuplicateHandler", "MethodsWildcardStar",
        "OriginsLastOnly", "HeadersGuardChecksMethods", "OriginAfterWildcardResets"]
# quick runs one representative per class (builder override, pattern selection, host scope, OPTIONS branch, handler-set headers, values)
# bugs that the statement itself (second level, Inv_Judge) must reject
JUDGE_DEVS = ["CorsOnlyFuture", "OptionsNoCors", "AppCorsAllHosts", "HeadersGuardChecksMethods", "ConfigByMatch", "OriginsLastOnly",
              "CorsOnlyExisting", "NewRouteIgnoresSubCors", "ConfigSetsSubCors", "AppConfigAllHosts", "DefSubKeepsOldCors"]
QUICK_DEVS = ["CorsOnlyFuture", "CorsOnlyExisting", "ConfigByMatch", "AppCorsAllHosts", "OptionsNoCors", "OverrideHandler",
              "DuplicateHandler", "MethodsWildcardStar"]


def _tlc(module, cfg, **kw):
    kw.setdefault("work_id", "c01cors")
    kw.setdefault("timeout", 1500)
    return run_tlc(module, cfg, D, **kw)


def run_part(ctx, tier):
    thorough = tier == "thorough"
    wd = vlib.workdir("C01cors")
    bindir = build_harness(["cors"])
    tbindir = build_harness(["cors"], tokio=True)
    exes = {"threaded": os.path.join(bindir, "cors"), "tokio": os.path.join(tbindir, "cors")}

    # ---- 1. model checking, sensitivity and generation: independent TLC runs, a few at a time ----
    jobs = []   # (key, note, callable)

    def job(key, note, module, cfg, **kw):
        jobs.append((key, note, lambda: _tlc(module, cfg, **kw)))

    if thorough:
        job("mc", "CORS builder sequences <= 5 calls", "MC_Cors.tla", "MC_Cors_thorough.cfg", workers=8, heap="8g")
        job("mccov", "CORS builder sequences <= 4 calls (action coverage)", "MC_Cors.tla", "MC_Cors_quick.cfg", workers=4, coverage=True)
        job("values", "CORS header computation: chains <= 4 x 7 handler kinds", "MC_Cors.tla", "MC_Cors_values_thorough.cfg", workers=4)
        job("deep", "CORS builder sequences of any length (VIEW, <= 1 route per sub-app, 2 Cors values, 1 host)", "MC_Cors.tla", "MC_Cors_deep_mid.cfg", workers=4)
        job("deep2", "CORS builder sequences of any length (VIEW, <= 2 routes per sub-app, 1 Cors value, 1 host)", "MC_Cors.tla", "MC_Cors_deep_thorough.cfg", workers=4)
        job("gen", "CORS vector generation Gen_Cors_thorough", "MC_Cors.tla", "Gen_Cors_thorough.cfg", workers=1, heap="6g")
        job("gen3", "CORS vector generation Gen_Cors_quick", "MC_Cors.tla", "Gen_Cors_quick.cfg", workers=1)
    else:
        job("mccov", "CORS builder sequences <= 4 calls", "MC_Cors.tla", "MC_Cors_quick.cfg", workers=6, coverage=True)
        job("values", "CORS header computation: chains <= 3 x 7 handler kinds", "MC_Cors.tla", "MC_Cors_values_quick.cfg", workers=2)
        job("deep", "CORS builder sequences of any length (VIEW, <= 1 route per sub-app, 2 Cors values, 1 handler kind, 1 host)", "MC_Cors.tla", "MC_Cors_deep_quick.cfg", workers=3)
        job("gen3", "CORS vector generation Gen_Cors_quick", "MC_Cors.tla", "Gen_Cors_quick.cfg", workers=1)
    job("sim", "CORS random histories of 9 calls (TLC -simulate)", "MC_Cors.tla", "Sim_Cors.cfg", workers=1,
        simulate=1500 if thorough else 250, depth=12, seed_val=ctx.seed)
    devs = DEVS if thorough else QUICK_DEVS
    for d in devs:
        job("dev:" + d, "CORS sensitivity Dev={%s}" % d, "MC_Cors.tla", "MC_Cors_dev_%s.cfg" % d, workers=1, heap="1g", timeout=600)

    # second level (the statement alone, Cors!Inv_Judge): bugs it must still reject, leniencies it must admit
    jdevs = JUDGE_DEVS if thorough else JUDGE_DEVS[:4]
    for d in jdevs:
        job("jdev:" + d, "CORS judge sensitivity Dev={%s}" % d, "MC_Cors.tla", "MC_Cors_judge_dev_%s.cfg" % d, workers=1, heap="1g", timeout=600)
    for w in ("lenient1", "lenient2"):
        job("jlen:" + w, "CORS judge leniency witness " + w, "MC_Cors.tla", "MC_Cors_judge_%s.cfg" % w, workers=1, heap="1g", timeout=600)

    res = {}
    with ThreadPoolExecutor(max_workers=6) as ex:
        futs = [(key, note, ex.submit(fn)) for key, note, fn in jobs]
        for key, note, f in futs:
            res[key] = (note, f.result())      # ToolError of a run propagates

    for key in ("mc", "mccov", "values", "deep", "deep2"):
        if key in res:
            note, r = res[key]
            ctx.add_tlc(note, r)
            ctx.require_tlc_ok(key, r)
    ctx.require_cover("MC_Cors_quick", res["mccov"][1], ACTIONS)
    for d in devs:
        note, r = res["dev:" + d]
        ctx.add_tlc(note, r)
        if r.violation != "invariant":
            raise vlib.ToolError("CORS model lost sensitivity: Dev={%s} violates nothing" % d)
    for d in jdevs:
        note, r = res["jdev:" + d]
        ctx.add_tlc(note, r)
        if r.violation != "invariant":
            raise vlib.ToolError("CORS judge lost sensitivity: Dev={%s} is accepted by Inv_Judge" % d)
    for w in ("lenient1", "lenient2"):
        note, r = res["jlen:" + w]
        ctx.add_tlc(note, r)
        if r.violation is not None:
            raise vlib.ToolError("CORS judge is stricter than the statement: witness %s violates Inv_Judge" % w)
    model_ok = all(res[k][1].violation is None for k in ("mc", "mccov", "values", "deep", "deep2") if k in res)

    # ---- 2. vectors from TLC replayed into real apps on both runtimes ----
    reqs = None
    vectors = []
    for key in ("gen3", "gen", "sim"):
        if key not in res:
            continue
        note, g = res[key]
        if g.violation:
            raise vlib.ToolError("CORS generation failed: %s" % g.out[-1500:])
        ctx.add_tlc(note, g)
        seen = set()
        for p in g.prints:
            if "reqs" in p:
                if reqs is not None and p["reqs"] != reqs:
                    raise vlib.ToolError("CORS generation: request vectors differ between runs")
                reqs = p["reqs"]
            elif "calls" in p:
                k = json.dumps(p["calls"], sort_keys=True)
                if k not in seen:
                    seen.add(k)
                    vectors.append(p)
    if not reqs or len(vectors) < 100:
        raise vlib.ToolError("CORS generation produced %d vectors" % len(vectors))
    uniq = {}
    for v in vectors:
        uniq.setdefault(json.dumps(v["calls"], sort_keys=True), v)
    vectors = list(uniq.values())
    # Every App::run leaves its pool's detached recovery thread behind (thread/recovery.rs: it never ends), so one
    # harness process is given at most CHUNK apps.
    CHUNK = 2500
    head = json.dumps({"reqs": reqs}) + "\n"
    chunks = [head + "\n".join(json.dumps(v, separators=(",", ":")) for v in vectors[i:i + CHUNK]) + "\n"
              for i in range(0, len(vectors), CHUNK)]

    def replay(rt):
        tot = None
        for data in chunks:
            p = run_bin(exes[rt], ["replay", "--workers", "8"], stdin_data=data, timeout=1500)
            s = [x for x in parse_jsonl(p.stdout) if x.get("summary")]
            if p.returncode != 0 or not s:
                raise vlib.ToolError("cors replay (%s) rc=%s: %s" % (rt, p.returncode, p.stderr[-1500:]))
            s = s[0]
            if tot is None:
                tot = s
            else:
                for k in ("jobs", "skipped_defsub", "apps", "requests", "mismatches", "nontrivial", "errors", "not_stopped", "drifts"):
                    tot[k] += s[k]
                for k in ("first_errors", "first", "samples", "first_drift"):
                    tot[k] = (tot[k] + s[k])[:10]
        return tot

    def rand(rt):
        napps = 2400 if thorough else 350
        p = run_bin(exes[rt], ["random", str(napps), "12", "--workers", "8"], timeout=1500)
        recs = parse_jsonl(p.stdout)
        summ = [x for x in parse_jsonl(p.stderr) if x.get("summary")]
        if p.returncode != 0 or not summ or not recs:
            raise vlib.ToolError("cors random (%s) rc=%s: %s" % (rt, p.returncode, p.stderr[-1500:]))
        if summ[0]["errors"] > max(3, len(recs) // 200):
            raise vlib.ToolError("cors random (%s): %d connection errors: %s" % (rt, summ[0]["errors"], summ[0]["first_errors"]))
        return recs

    with ThreadPoolExecutor(max_workers=4) as ex:
        f_rep = {rt: ex.submit(replay, rt) for rt in exes}
        f_rnd = {rt: ex.submit(rand, rt) for rt in exes}
        rep = {rt: f.result() for rt, f in f_rep.items()}
        rnd = {rt: f.result() for rt, f in f_rnd.items()}

    clean = model_ok
    for rt, s in rep.items():
        if s["apps"] + s["errors"] < s["jobs"] or s["errors"] > max(3, s["jobs"] // 200) or s["not_stopped"] > 0:
            raise vlib.ToolError("cors replay (%s): %d/%d apps ran, %d errors, %d did not stop: %s"
                                 % (rt, s["apps"], s["jobs"], s["errors"], s["not_stopped"], s["first_errors"]))
        ctx.cov["evaluations"] += s["requests"]
        ctx.cov["distinct_nontrivial"] += s["nontrivial"]
        ctx.cov["traces_validated_against_impl"] += s["apps"]
        ctx.add_part("cors vectors " + rt, apps=s["apps"], requests=s["requests"], with_cors_headers=s["nontrivial"],
                     skipped_no_with_default_subapp=s["skipped_defsub"], mismatches=s["mismatches"],
                     differs_from_code_model_but_statement_holds=s["drifts"])
        for x in s["samples"][:2]:
            ctx.sample({"cors": rt, "calls": x["calls"], "req": x["req"], "got": x["got"]}, limit=12)
        if s["drifts"]:
            clean = False
            f0 = s["first_drift"][0]
            ctx.drift("cors", "%d response(s) of real %s apps differ from the CORS code model (status / raw header lines / handler) but still carry the matched "
                      "route's CORS headers; first: calls=%s req=%s code model=%s got=%s"
                      % (s["drifts"], rt, json.dumps(f0["calls"]), json.dumps(f0["req"]), json.dumps(f0["code_model_expected"]), json.dumps(f0["got"])),
                      {"kind": "cors-vectors-drift", "runtime": rt, "first": s["first_drift"]})
        if s["mismatches"]:
            clean = False
            f0 = s["first"][0]
            ctx.violation("CORS: %d response(s) of real %s apps do not carry the matched route's CORS headers; first: calls=%s req=%s statement accepts=%s got=%s"
                          % (s["mismatches"], rt, json.dumps(f0["calls"]), json.dumps(f0["req"]), json.dumps(f0["statement_accepts"]), json.dumps(f0["got"])),
                          {"kind": "cors-vectors", "runtime": rt, "first": s["first"]})

    # ---- 3. random builder sequences on the real code, validated by TLC ----
    def validate(label, recs):
        # unique per invocation: several C01 runs (seed rechecks, other tiers) may be under way at the same time
        tr = os.path.join(wd, "trace-%s-%d-%s.ndjson" % (label, os.getpid(), uuid.uuid4().hex[:8]))
        vlib.write_lines(tr, recs)
        try:
            return _tlc("Trace_Cors.tla", "Trace_Cors.cfg", workers=1, env={"TRACE": tr}, deque=True, heap="6g")
        finally:
            os.remove(tr)

    with ThreadPoolExecutor(max_workers=2) as ex:
        f_val = {rt: ex.submit(validate, rt, rnd[rt]) for rt in exes}
        val = {rt: f.result() for rt, f in f_val.items()}
    for rt, t in val.items():
        nreq = sum(1 for r in rnd[rt] if r["t"] == "req")
        napp = sum(1 for r in rnd[rt] if r["t"] == "app")
        ctx.add_tlc("CORS trace validation %s (%d random apps, %d requests)" % (rt, napp, nreq), t)
        ctx.cov["evaluations"] += nreq
        ctx.cov["traces_validated_against_impl"] += napp
        stats = next((p["stats"] for p in t.prints if "stats" in p), None)
        rej = next((p["rejected"] for p in t.prints if "rejected" in p), None)
        unf = next((p["unfoldable"] for p in t.prints if "unfoldable" in p), [])
        dri = next((p["drifted"] for p in t.prints if "drifted" in p), [])

        def app_of(line):
            return next((rnd[rt][i] for i in range(min(line, len(rnd[rt])) - 1, -1, -1) if rnd[rt][i]["t"] == "app"), None)

        if unf:
            raise vlib.ToolError("Trace_Cors (%s): the harness logged builder calls the builder machine cannot fold: %s" % (rt, json.dumps(unf[0])[:800]))
        if dri:
            clean = False
            a0 = app_of(dri[0]["line"])
            ctx.drift("cors", "%d+ record(s) logged from real %s apps differ from the CORS code model but are accepted by the statement (Cors!Acceptable); first: %s (calls=%s)"
                      % (len(dri), rt, json.dumps(dri[0]["rec"]), json.dumps(a0["calls"] if a0 else None)),
                      {"kind": "cors-trace-drift", "runtime": rt, "drifted": dri, "app": a0})
        if t.violation is None and stats:
            ctx.cov["distinct_nontrivial"] += stats[1]
            ctx.add_part("cors random " + rt, apps=napp, requests=stats[0], with_cors_headers=stats[1], options_hits=stats[2],
                         handler_set_headers=stats[3], unmatched=stats[4], rejected=0, drifted=len(dri))
        elif rej:
            clean = False
            ctx.add_part("cors random " + rt, apps=napp, requests=nreq, rejected=len(rej), drifted=len(dri))
            # give the replay file the builder calls of the app the first rejected record belongs to
            appline = app_of(rej[0]["line"])
            ctx.violation("CORS: %d record(s) logged from real %s apps do not carry the matched route's CORS headers (rejected by Trace_Cors at both levels); first: %s (calls=%s)"
                          % (len(rej), rt, json.dumps(rej[0]["rec"]), json.dumps(appline["calls"] if appline else None)),
                          {"kind": "cors-trace", "runtime": rt, "rejected": rej, "app": appline})
        else:
            raise vlib.ToolError("Trace_Cors (%s) ended without a verdict: %s" % (rt, t.out[-1500:]))

    # ---- 4. self-test of both comparison paths (only meaningful after a clean run) ----
    if clean:
        rng = random.Random(ctx.seed)
        cand = [v for v in vectors if any(e["ac"]["o"] for e in v["exp"])]
        # (a) the code model's expectation flipped (preflight status 204 -> 200): must be a drift, not a mismatch
        soft = copy.deepcopy(rng.choice(cand))
        i = next(k for k, e in enumerate(soft["exp"]) if e["ac"]["o"])
        soft["exp"][i]["status"] = 299
        # (b) expectation AND the statement's accepted sets flipped: must be a mismatch
        bad = copy.deepcopy(soft)
        bad["acc"][i]["o"] = [["http://evil.test"]]
        p = run_bin(exes["threaded"], ["replay", "--workers", "1"],
                    stdin_data=json.dumps({"reqs": reqs}) + "\n" + json.dumps(soft) + "\n" + json.dumps(bad) + "\n", timeout=300)
        s = [x for x in parse_jsonl(p.stdout) if x.get("summary")]
        if not s or s[0]["mismatches"] != 1 or s[0]["drifts"] != 1:
            raise vlib.ToolError("cors self-test: flipped vectors gave %s (want 1 drift for a flipped status, 1 mismatch for a foreign origin)"
                                 % (json.dumps({k: s[0][k] for k in ("mismatches", "drifts")}) if s else "no summary"))
        recs = rnd["tokio"]
        k = next(j for j, r in enumerate(recs) if r["t"] == "req" and r["got"]["ac"]["h"])
        a = max(j for j in range(k) if recs[j]["t"] == "app")
        dup = copy.deepcopy(recs[k])       # a second, identical header line: same tokens -> drift only
        dup["got"]["ac"]["h"] = dup["got"]["ac"]["h"] + dup["got"]["ac"]["h"]
        evil = copy.deepcopy(recs[k])      # a header name that is not configured -> rejected
        evil["got"]["ac"]["h"] = [evil["got"]["ac"]["h"][0] + ", x-evil"]
        evil["got"]["tok"]["h"] = sorted(evil["got"]["tok"]["h"] + ["x-evil"])
        t = validate("selftest", [copy.deepcopy(recs[a]), dup, evil])
        rej = next((p["rejected"] for p in t.prints if "rejected" in p), [])
        dri = next((p["drifted"] for p in t.prints if "drifted" in p), [])
        if [x["line"] for x in rej] != [3] or [x["line"] for x in dri] != [2]:
            raise vlib.ToolError("cors self-test: Trace_Cors judged the corrupted log as rejected=%s drifted=%s (want [3] and [2])"
                                 % ([x["line"] for x in rej], [x["line"] for x in dri]))
        ctx.add_part("cors self-test", corrupted_vector_detected=True, corrupted_trace_rejected=True, lenient_paths_report_drift=True)

    ctx.assumptions += ["CORS part: route / host pattern matching is tabulated in Cors.tla (RouteMatchTable, HostMatchTable); its semantics are C04/C05's",
                        "CORS part, two levels: the code model (status, raw Access-Control-* lines, handler identity; intent of a Cors value per the crate docs) only "
                        "reports SPEC-DRIFT; a VIOLATION needs the statement itself (Cors!Acceptable: on a matched route the token sets of Allow-Origin/-Methods/-Headers "
                        "are the configured ones, leniencies L-Status/L-Unmatched/L-Tokens/L-Names/L-MethodsAny/L-Echo/L-Own) to reject the observation"]
    try:
        os.rmdir(wd)
    except OSError:
        pass


if __name__ == "__main__":
    tier = sys.argv[1] if len(sys.argv) > 1 else "quick"
    vlib.EVIDENCE = os.path.join(vlib.WORK, "C01cors", "evidence")      # never /verif/evidence/C01.json
    vlib.REPLAYS = os.path.join(vlib.WORK, "C01cors", "replays")
    c = vlib.Ctx("C01", tier, "model_checking")
    try:
        run_part(c, tier)
    except vlib.ToolError as e:
        print("TOOL ERROR: %s" % e, file=sys.stderr)
        sys.exit(2)
    for r in c.cov["tlc_runs"]:
        print("  %-95s distinct=%-8d generated=%-9d %6.1fs %s" % (r["name"][:95], r["distinct"], r["generated"], r["wall_s"], r["result"]))
    for k, v in c.cov["parts"].items():
        print("  part %-28s %s" % (k, json.dumps(v)))
    rc = c.finish()
    sys.exit(rc)
