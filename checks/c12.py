"""C12 - the asynchronous WebSocket app delivers connect / message / disconnect exactly once, in order;
a unicast reaches only its addressee, a broadcast every current member exactly once; shutdown ends run().

1. TLC proves on WsAsyncApp.tla (real phase order of the loop iteration, FIFO pool with N workers, clients,
   external sender) every property for the repaired pool (Dev = {}), for the pool as written with one
   worker, and the dispatch-level + delivery properties for the pool as written with two workers; the
   liveness ShutdownEndsRun; sensitivity: the open deviation InvocationInversion and five plausible bugs
   must each be refuted, six reachability claims must each be witnessed.
2. spec -> code (method D): (a) TLC searches the shortest behaviour of the code as written in which a
   message handler starts before the connect handler of the same client and the harness forces exactly
   that schedule on the real AsyncWebsocketApp with its two gates; (b) TLC -simulate samples lock-step
   behaviours, the harness replays them and compares, per loop iteration, what the real loop did with
   what TLC computed (dispatches, removals, admissions, flushes and their receivers).
3. code -> spec (method C): free-running randomised scenarios (1..8 reference clients, pools 1..8, poll
   interval 0..10 ms, heartbeat, real App link and internal App) are logged through the hook points, the
   handlers and the clients, and Trace_WsAsyncApp.tla decides every run.  A run rejected with Dev = {}
   but explained with Dev = {"InvocationInversion"} is exactly the known schedule-dependent finding.
4. self-test of the binding: corrupted logs / corrupted expectations must be rejected."""
import concurrent.futures as cf
import copy
import json
import os
import shutil
import vlib
from vlib import Ctx, run_tlc, build_harness, run_bin, parse_jsonl, SPEC, ToolError, log

D = os.path.join(SPEC, "wsasync")
DEV = "InvocationInversion"
WHAT_DEV = ("handler bodies of one client start in another order than they were dispatched (pool >= 2 workers: "
            "e.g. message(c,1) or disconnect(c) starts before connect(c))")

ACTIONS_CORE = ["Cl_Connect", "Srv_Enqueue", "Cl_Send", "Cl_Close", "Cl_Vanish", "Env_Shutdown", "Loop_Shutdown",
                "Loop_Begin", "Loop_RecvMsg", "Loop_RecvErr", "Loop_RecvNone", "Loop_Admit", "Loop_AdmitDone",
                "Loop_Flush", "Loop_FlushDone", "Worker_Take", "Worker_Invoke", "Worker_Finish"]

# (cfg, note, expectation, coverage actions or None, module)
QUICK_MC = [
    ("quick", "Dev={} 1 client, pool 2, echo, ext bc; invariants + liveness", "ok", ACTIONS_CORE + ["Ext_Send"]),
    ("hb", "Dev={} heartbeat: ping rounds, pongs, timeouts; 1 client x <=2 msgs", "ok",
     [a for a in ACTIONS_CORE if a != "Loop_Flush"] + ["Cl_Pong", "Loop_RecvCtl", "Loop_Timeout", "Loop_AdmitDrop"]),
    ("aswritten_n1", "as written, 1 worker, 2 clients, bc replies: all properties", "ok", None),
    ("aswritten_n2", "as written, 2 workers: dispatch + delivery properties", "ok", None),
    ("lockstep", "lock-step sub-behaviours (generation mode)", "ok", None),
    ("quiescent", "quiescent shutdown: QuiescentComplete", "ok", ACTIONS_CORE + ["Cl_Ping", "Loop_RecvCtl"]),
]
THOROUGH_MC = [
    ("t_quick2", "Dev={} 2 clients x 1 msg, pool 2", "ok", [a for a in ACTIONS_CORE if a != "Loop_Flush"]),
    ("t_uni", "Dev={} 2 clients x <=2 msgs, pool 2, echo", "ok", ACTIONS_CORE),
    ("t_bc", "Dev={} 2 clients, pool 2, bc replies + ext unicast", "ok", None),
    ("t_hb", "Dev={} heartbeat, 2 clients (no messages): ping rounds, pongs, timeouts", "ok", None),
    ("t_hb1", "Dev={} heartbeat, 1 client x <=2 msgs + ping, pool 2, echo", "ok", None),
    ("t_aswritten", "as written, 2 clients, 2 workers, bc replies: dispatch + delivery", "ok", None),
    ("t_aswritten_n1", "as written, 1 worker, 2 clients x <=2 msgs: all properties", "ok", None),
    ("t_c3", "Dev={} 3 clients connect/close/vanish, greeting + departure broadcast", "ok", None),
    ("t_live", "liveness with 2 clients", "ok", None),
]
MUST_VIOLATE = [
    ("dev_InvocationInversion", "open deviation"),
    ("dev_DoubleDisconnect", "plausible bug"), ("dev_RemoveOnNone", "plausible bug"),
    ("dev_LateConnect", "plausible bug"), ("dev_BroadcastSkipsSender", "plausible bug"),
    ("dev_UnicastToAll", "plausible bug"),
    ("dev_PingSkippedWhenActive", "seeded change: active client never pinged"),
    ("dev_FlushWriteMayTruncate", "seeded change: flush may truncate"),
    ("dev_CloseOvertakesMessages", "plausible bug"), ("dev_BroadcastAbortsOnDeadPeer", "plausible bug"),
    ("reach_ParallelHandlers", "reachability"), ("reach_BroadcastToTwo", "reachability"),
    ("reach_UnicastDropped", "reachability"), ("reach_QuiescentDone", "reachability"),
    ("reach_TimeoutLive", "reachability"), ("reach_MsgAfterVanish", "reachability"),
]


def jtmp():
    """TLC unpacks its standard modules into java.io.tmpdir: keep that under .work/C12, not /tmp"""
    d = os.path.join(vlib.workdir("C12"), "jtmp%d" % os.getpid())
    os.makedirs(d, exist_ok=True)
    return {"_JAVA_OPTIONS": "-Djava.io.tmpdir=" + d}


def mc(name, workers, coverage, timeout):
    return run_tlc("MC_WsAsyncApp.tla", "MC_WsAsyncApp_%s.cfg" % name, D, workers=workers, coverage=coverage,
                   timeout=timeout, work_id="c12-" + name, env=jtmp())


def trace_tlc(path, aswritten, tag):
    cfg = "Trace_WsAsyncApp_aswritten.cfg" if aswritten else "Trace_WsAsyncApp.cfg"
    return run_tlc("Trace_WsAsyncApp.tla", cfg, D, workers=1, env=dict(jtmp(), TRACE=path), timeout=1500,
                   work_id="c12-tr-" + tag, deque=True, heap="3g")


def split_runs(events):
    runs, cur = [], None
    for e in events:
        if e.get("ev") == "Reset":
            cur = [e]
            runs.append(cur)
        elif cur is not None:
            cur.append(e)
    return runs


def rejected_of(t):
    """rejected runs reported by the trace spec (list of records), or raises when TLC failed otherwise"""
    if t.violation is None:
        return []
    if t.violation == "invariant" and t.violated_name == "AllAccepted" and t.prints:
        return t.prints[-1].get("rejected", [])
    raise ToolError("trace validation failed unexpectedly (%s %s):\n%s" % (t.violation, t.violated_name, t.out[-3000:]))


def validate_batches(ctx, batches, counters, tag="tr"):
    tag = "%s%d" % (tag, os.getpid())
    """Trace-validate several batches [(origin, runs)] at once. Dev={} first (all chunks concurrently);
    the rejected runs are re-examined with the pool as written in one more TLC run.
    Returns {origin: (accepted, attributed, violations)}."""
    wd = vlib.workdir("C12")
    # globally unique run ids
    allruns = []
    origin_of = {}
    n = 0
    for origin, runs in batches:
        for r in runs:
            n += 1
            for e in r:
                e["run"] = n
            origin_of[n] = origin
            allruns.append(r)
    out = {origin: [len(runs), 0, 0] for origin, runs in batches}
    if not allruns:
        return {o: tuple(v) for o, v in out.items()}
    chunks, cur, size = [], [], 0
    for r in allruns:
        if cur and size + len(r) > 9000:
            chunks.append(cur)
            cur, size = [], 0
        cur.append(r)
        size += len(r)
    if cur:
        chunks.append(cur)
    paths = []
    for i, ch in enumerate(chunks):
        p = os.path.join(wd, "%s-%d.ndjson" % (tag, i))
        vlib.write_lines(p, [e for r in ch for e in r])
        paths.append(p)
    with cf.ThreadPoolExecutor(max_workers=5) as ex:
        res = list(ex.map(lambda ip: trace_tlc(ip[1], False, "%s%d" % (tag, ip[0])), enumerate(paths)))
    byrun = {r[0]["run"]: r for r in allruns}
    rejected = []
    for i, t in enumerate(res):
        ctx.add_tlc("trace validation chunk %d: %d runs, %d records (Dev={})" % (i, len(chunks[i]), sum(len(r) for r in chunks[i])), t)
        rejected += rejected_of(t)
    for p in paths:
        os.remove(p)
    if rejected:
        rr = [byrun[b["run"]] for b in rejected if b["run"] in byrun]
        p = os.path.join(wd, "%s-aw.ndjson" % tag)
        vlib.write_lines(p, [e for r in rr for e in r])
        t2 = trace_tlc(p, True, tag + "aw")
        os.remove(p)
        ctx.add_tlc("trace validation: %d rejected runs re-examined (Dev={InvocationInversion})" % len(rr), t2)
        still = {b["run"]: b for b in rejected_of(t2)}
        for b in rejected:
            run = b["run"]
            origin = origin_of.get(run, "?")
            out[origin][0] -= 1
            if run in still:
                b2 = still[run]
                out[origin][2] += 1
                hint = ""
                if b2["why"] == "unexplained" and b2["rec"].get("ev") == "Loop_Timeout":
                    hint = (" [the heartbeat reaped client %s although it is open, answers every ping and neither the loop nor "
                            "its reader stalled: disconnect dispatched for a live client]" % b2["rec"].get("c"))
                if b2["why"] == "unexplained" and b2["rec"].get("ev") == "C_RxBad":
                    hint = (" [client %s received a frame that is not, byte for byte, a message handed to the app: truncated / "
                            "garbled delivery]" % b2["rec"].get("c"))
                if b2["why"] == "unexplained" and b2["rec"].get("ev") == "End":
                    hint = " [at the end of the run a message written to a client that read to EOF was never received completely, or a dispatched event never ran]"
                ctx.violation("%s run %s: %s at record %s %s%s%s" % (
                    origin, run, b2["why"], b2["idx"], json.dumps(b2["rec"]), (" properties " + ",".join(b2["inv"])) if b2["inv"] else "", hint),
                    {"kind": "trace", "origin": origin, "verdict": b2, "events": byrun.get(run, [])})
            else:
                out[origin][1] += 1
                counters.setdefault("inversion_examples", [])
                if len(counters["inversion_examples"]) < 3:
                    counters["inversion_examples"].append({"origin": origin, "first_overtaking_start": b["rec"]})
                ctx.violation(WHAT_DEV, {"kind": "trace", "origin": origin, "verdict": b, "events": byrun.get(run, [])}, dev=DEV)
    return {o: tuple(v) for o, v in out.items()}


def harness_random(binp, nruns, first, maxc, seed_shift, special=(0, 0, 0, 0, 0)):
    p = run_bin(binp, ["random", str(nruns), str(first), str(maxc)] + [str(x) for x in special], timeout=1500,
                env={"VERIF_SEED": vlib.seed() + seed_shift})
    if p.returncode != 0:
        raise ToolError("wsasync random failed rc=%s: %s" % (p.returncode, p.stderr[-2000:]))
    recs = parse_jsonl(p.stdout)
    summ = [x for x in recs if x.get("summary")]
    if not summ:
        raise ToolError("wsasync random printed no summary")
    return [x for x in recs if "ev" in x], summ[0]


def harness_replay(binp, behaviours, settle):
    data = "\n".join(json.dumps(b) for b in behaviours) + "\n"
    p = run_bin(binp, ["replay", str(settle)], stdin_data=data, timeout=1500)
    if p.returncode != 0:
        raise ToolError("wsasync replay failed rc=%s: %s" % (p.returncode, p.stderr[-2000:]))
    recs = parse_jsonl(p.stdout)
    results = [x for x in recs if x.get("result")]
    if len(results) != len(behaviours):
        raise ToolError("wsasync replay consumed %d of %d behaviours" % (len(results), len(behaviours)))
    return [x for x in recs if "ev" in x], results


def nontrivial(run):
    adm = {e["c"] for e in run if e["ev"] == "Loop_Admit"}
    return len(adm) >= 2 and any(e["ev"] == "Loop_RecvMsg" for e in run) and any(e["ev"] == "Loop_Remove" for e in run)


def gen(cfg, simulate=None, depth=None, tag="gen", seed_val=None):  # noqa
    return run_tlc("Gen_WsAsyncApp.tla", cfg, D, workers=1, simulate=simulate, depth=depth, seed_val=seed_val,
                   timeout=1500, work_id="c12-" + tag, heap="3g", env=jtmp())


def replay_and_judge(ctx, binp, behaviours, origin, counters, strict):
    """lock-step replay with escalating settle times; returns the trace runs of the final attempts"""
    pending = list(range(len(behaviours)))
    final_events = {}
    results = {}
    for settle in (3, 40, 400):
        if not pending:
            break
        evs, res = harness_replay(binp, [behaviours[i] for i in pending], settle)
        byid = {r[0]["run"]: r for r in split_runs(evs)}
        nxt = []
        for k, i in enumerate(pending):
            results[i] = res[k]
            final_events[i] = byid.get(res[k]["run"], [])
            if not res[k]["ok"]:
                nxt.append(i)
        pending = nxt
    iters = sum(r["iterations"] for r in results.values())
    counters["iterations_compared"] = counters.get("iterations_compared", 0) + iters
    for i in pending:
        r = results[i]
        if (r["fail"] or {}).get("skipped"):
            counters["not_run_after_hangs"] = counters.get("not_run_after_hangs", 0) + 1
            continue
        forced = not (r["fail"] or {}).get("hang")
        if not strict and not forced:
            counters["not_forceable"] = counters.get("not_forceable", 0) + 1
            continue
        # The lock-step comparison pins the phase order of one loop iteration (drain every stream, then admit, then
        # flush everything) and the gate points - today's code, not the statement of C12: a difference is reported
        # as drift of the code model; the log of the same replay is still judged by the trace spec, which gates.
        ctx.drift("loop-iteration model (lock-step replay)", "%s: behaviour %d: %s" % (origin, i, json.dumps(r["fail"])[:1500]),
                  {"kind": "behaviour", "origin": origin, "behaviour": behaviours[i], "result": r})
        counters["lockstep_drift"] = counters.get("lockstep_drift", 0) + 1
    # renumber the runs so that they are unique within one validation batch
    out = []
    for n, i in enumerate(sorted(final_events)):
        run = copy.deepcopy(final_events[i])
        for e in run:
            e["run"] = n + 1
        if run:
            out.append(run)
    return out, results


def selftest(ctx, binp, good_runs, behaviours, hb_runs=()):
    """corrupt one logged field / one expected value and require rejection"""
    wd = vlib.workdir("C12")
    muts = []
    base = None
    for r in good_runs:
        if any(e["ev"] == "Loop_RecvMsg" for e in r) and any(e["ev"] == "Loop_Remove" for e in r) and len(r) < 1500:
            base = r
            break
    if base is None:
        raise ToolError("self-test: no suitable accepted run")

    def mutate(name, f):
        r = copy.deepcopy(base)
        if f(r):
            for e in r:
                e["run"] = len(muts) + 1
            muts.append((name, r))

    def first(r, ev):
        return next((i for i, e in enumerate(r) if e["ev"] == ev), None)

    def m_msgid(r):
        i = first(r, "Loop_RecvMsg")
        r[i]["m"] += 1
        return True

    def m_drop_remove(r):
        i = first(r, "Loop_Remove")
        del r[i]
        return True

    def m_dup_disconnect(r):
        i = first(r, "Loop_Remove")
        j = max(k for k in range(i) if r[k]["ev"] in ("Loop_RecvErr", "Loop_Timeout"))
        r.insert(i + 1, copy.deepcopy(r[j]))
        r.insert(i + 2, copy.deepcopy(r[i]))
        return True

    def m_msg_before_admit(r):
        i = first(r, "Loop_RecvMsg")
        c = r[i]["c"]
        j = next(k for k, e in enumerate(r) if e["ev"] == "Loop_Admit" and e["c"] == c)
        e = r.pop(i)
        r.insert(j, e)
        return True

    def m_bcast_member(r):
        i = next((k for k, e in enumerate(r) if e["ev"] == "Loop_FlushBc" and len(e["lst"]) >= 1), None)
        if i is None:
            return False
        r[i]["lst"] = r[i]["lst"][1:]
        return True

    def m_uni_wrong(r):
        i = next((k for k, e in enumerate(r) if e["ev"] == "Loop_FlushUni" and e["lst"]), None)
        if i is None:
            return False
        r[i]["lst"] = [r[i]["lst"][0] % 8 + 1]
        r[i]["c"] = r[i]["lst"][0]
        return True

    def m_invoke_twice(r):
        i = first(r, "Invoke")
        j = next(k for k in range(i + 1, len(r)) if r[k]["ev"] == "H_Done" and r[k]["w"] == r[i]["w"])
        r.insert(j + 1, copy.deepcopy(r[i]))
        r.insert(j + 2, copy.deepcopy(r[j]))
        return True

    def m_rx_wrong(r):
        i = first(r, "C_Rx")
        if i is None:
            return False
        r[i]["c"] = r[i]["c"] % 8 + 1
        return True

    def closed_removed_client(r):
        closed = [e["c"] for e in r if e["ev"] == "C_Close"]
        for c in closed:
            if any(e["ev"] == "Loop_RecvErr" and e["c"] == c for e in r) and any(e["ev"] == "C_Rx" and e["c"] == c for e in r):
                return c
        return None

    def m_lost_rx(r):
        c = closed_removed_client(r)
        if c is None:
            return False
        i = max(k for k, e in enumerate(r) if e["ev"] == "C_Rx" and e["c"] == c)
        del r[i]
        return True

    def m_lost_message(r):
        i = first(r, "C_Close")
        if i is None:
            return False
        c = r[i]["c"]
        if not any(e["ev"] == "Loop_RecvErr" and e["c"] == c for e in r):
            return False
        n = sum(1 for e in r if e["ev"] == "C_Send" and e["c"] == c)
        e = copy.deepcopy(r[i])
        e["ev"], e["m"], e["n"] = "C_Send", n + 1, 1
        r.insert(i, e)
        return True

    for name, f in (("a written message never received by a client that read to EOF", m_lost_rx),
                    ("a sent message never dispatched", m_lost_message),
                    ("message id altered", m_msgid),
                    ("disconnect dispatched twice", m_dup_disconnect), ("message dispatched before connect", m_msg_before_admit),
                    ("broadcast misses a member", m_bcast_member), ("unicast written to another client", m_uni_wrong),
                    ("handler invoked twice", m_invoke_twice), ("reception by another client", m_rx_wrong)):
        try:
            mutate(name, f)
        except StopIteration:
            pass
    # the heartbeat reaps a client that is open and answered every ping, with no measured stall to excuse it
    for r in hb_runs:
        k = next((i for i, e in enumerate(r) if e["ev"] == "C_Pong"
                  and any(x["ev"] == "Loop_Admit" and x["c"] == e["c"] for x in r[:i])
                  and not any(x["ev"] in ("Loop_Remove", "C_Close", "C_Vanish") and x["c"] == e["c"] for x in r[:i])), None)
        if k is None or len(r) > 3000:
            continue
        r2 = copy.deepcopy(r)
        t = copy.deepcopy(r2[k])
        t["ev"], t["n"] = "Loop_Timeout", 0
        rm = copy.deepcopy(t)
        rm["ev"], rm["n"] = "Loop_Remove", 1
        r2[k + 1:k + 1] = [t, rm]
        for e in r2:
            e["run"] = len(muts) + 1
        muts.append(("heartbeat reaps an open client that answered every ping (no stall measured)", r2))
        break
    else:
        raise ToolError("self-test: no heartbeat run with an answered ping")
    p = os.path.join(wd, "selftest%d.ndjson" % os.getpid())
    vlib.write_lines(p, [e for _, r in muts for e in r])
    t = trace_tlc(p, True, "self")
    os.remove(p)
    ctx.add_tlc("self-test: %d corrupted logs must be rejected" % len(muts), t)
    rej = {b["run"] for b in rejected_of(t)}
    missed = [name for k, (name, _) in enumerate(muts) if (k + 1) not in rej]
    if missed:
        raise ToolError("self-test: corrupted logs were accepted: %s" % missed)
    # corrupted expectation in a behaviour
    n_beh = 0
    for b in behaviours:
        steps = b["steps"]
        k = next((i for i, s in enumerate(steps) if s["a"] == "Loop_Flush" and s["msg"]["k"] == "bc" and s["to"]), None)
        if k is None:
            continue
        b2 = copy.deepcopy(b)
        b2["steps"][k]["to"] = b2["steps"][k]["to"][1:]
        _, res = harness_replay(binp, [b2], 3)
        if res[0]["ok"]:
            raise ToolError("self-test: a behaviour with a corrupted expectation was reported as matching")
        n_beh += 1
        break
    ctx.add_part("self-test", corrupted_logs_rejected=len(muts), kinds=[n for n, _ in muts], corrupted_behaviours_rejected=n_beh)


def run(tier, replay):
    try:
        return run_inner(tier, replay)
    finally:
        shutil.rmtree(os.path.join(vlib.workdir("C12"), "jtmp%d" % os.getpid()), ignore_errors=True)


def run_inner(tier, replay):
    ctx = Ctx("C12", tier, "model_checking")
    bindir = build_harness(["wsasync"])
    binp = os.path.join(bindir, "wsasync")
    thorough = tier == "thorough"
    counters = {}
    if replay:
        return run_replay(ctx, binp, replay)

    # ---- 1. every TLC job that does not need the implementation, concurrently ---------------------------
    jobs = list(QUICK_MC) + (THOROUGH_MC if thorough else [])
    # quick: the open deviation, the seeded changes and the cheapest plausible bugs; thorough: all of them
    quick_must = ("dev_InvocationInversion", "dev_PingSkippedWhenActive", "dev_FlushWriteMayTruncate", "dev_CloseOvertakesMessages",
                  "dev_BroadcastAbortsOnDeadPeer", "dev_DoubleDisconnect", "dev_LateConnect", "reach_ParallelHandlers")
    must = [m for m in MUST_VIOLATE if thorough or m[0] in quick_must]
    n_ideal = 250 if thorough else 40
    n_asw = 250 if thorough else 40
    sims = (("Gen_WsAsyncApp_sim_ideal.cfg", n_ideal, True, "lock-step replay (repaired-pool behaviours)"),
            ("Gen_WsAsyncApp_sim_aswritten.cfg", n_asw, False, "lock-step replay (as-written behaviours)"))
    with cf.ThreadPoolExecutor(max_workers=4) as ex:
        futs = {}
        fw = ex.submit(gen, "Gen_WsAsyncApp_inversion.cfg", None, None, "inv")
        fs = {cfg: ex.submit(gen, cfg, num, 220, "sim" + str(i), vlib.seed()) for i, (cfg, num, _, _) in enumerate(sims)}
        for name, note, exp, cover in sorted(jobs, key=lambda j: not j[0].startswith("t_")):
            big = name.startswith("t_")
            futs[name] = ex.submit(mc, name, 4 if big else 3, cover is not None, 3000 if big else 900)
        for name, kind in must:
            futs[name] = ex.submit(mc, name, 1, False, 600)
        results = {k: f.result() for k, f in futs.items()}
        g = fw.result()
        simres = {k: f.result() for k, f in fs.items()}
    for name, note, exp, cover in jobs:
        r = results[name]
        ctx.add_tlc("MC_WsAsyncApp_%s: %s" % (name, note), r)
        ctx.require_tlc_ok("MC_WsAsyncApp_" + name, r)
        if cover:
            ctx.require_cover("MC_WsAsyncApp_" + name, r, cover)
    for name, kind in must:
        r = results[name]
        ctx.add_tlc("MC_WsAsyncApp_%s (%s): must be violated" % (name, kind), r)
        if r.violation != "invariant":
            raise ToolError("model lost sensitivity: MC_WsAsyncApp_%s.cfg no longer violates its invariant" % name)
    ctx.cov["exhaustive"] = True

    batches = []
    # ---- 2a. the inversion witness, forced on the real code ----------------------------------------------
    ctx.add_tlc("witness search: shortest behaviour with message(c,1) started before connect(c) (pool as written, 2 workers)", g)
    if g.violation != "invariant" or g.violated_name != "InversionWitness" or not g.prints:
        raise ToolError("TLC did not produce the inversion witness: %s" % g.out[-2000:])
    witness = g.prints[-1]
    wruns, wres = replay_and_judge(ctx, binp, [witness], "gated inversion witness", counters, strict=False)
    exhibited = bool(wres[0]["ok"] and wres[0]["start_order_differs_from_dispatch_order"])
    ctx.add_part("inversion witness", steps=len(witness["steps"]), forced_on_real_code=exhibited,
                 schedule=[s["a"] + " " + json.dumps(s["task"]) for s in witness["steps"] if s["a"].startswith("Worker_")])
    batches.append(("gated inversion witness", wruns))

    # ---- 2b. sampled lock-step behaviours -----------------------------------------------------------------
    beh_all = []
    for cfg, num, strict, origin in sims:
        s = simres[cfg]
        if s.violation:
            ctx.require_tlc_ok(cfg, s)
            continue
        beh = s.prints[:num]
        ctx.add_tlc("behaviour sampling %s (%d behaviours)" % (cfg, len(beh)), s)
        if len(beh) < num // 2:
            raise ToolError("generation %s produced only %d behaviours" % (cfg, len(beh)))
        if not strict and not exhibited:
            ctx.add_part(origin, skipped="the tree does not exhibit the deviation")
            continue
        runs, res = replay_and_judge(ctx, binp, beh, origin, counters, strict)
        ok = sum(1 for r in res.values() if r["ok"])
        ctx.add_part(origin, behaviours=len(beh), replayed_exactly=ok,
                     with_inverted_starts=sum(1 for b in beh if b["inverted"]),
                     unicasts_to_a_client_that_left=sum(1 for b in beh for st in b["steps"]
                                                        if st["a"] == "Loop_Flush" and st["msg"]["k"] == "uni" and not st["to"]),
                     close_polled_after_messages_in_one_iteration=sum(
                         1 for b in beh for i, st in enumerate(b["steps"][1:], 1)
                         if st["a"] == "Loop_RecvErr" and b["steps"][i - 1]["a"] == "Loop_RecvMsg" and b["steps"][i - 1]["c"] == st["c"]),
                     steps=sum(len(b["steps"]) for b in beh))
        ctx.cov["evaluations"] += sum(r["iterations"] for r in res.values())
        ctx.cov["traces_validated_against_impl"] += len(beh)
        beh_all += beh
        batches.append((origin + " log", runs))
        if len(ctx.cov["samples"]) < 2 and beh:
            b = beh[0]
            ctx.sample({"behaviour_steps": [s["a"] + (":%s" % s["c"] if "c" in s else "") for s in b["steps"]][:60]})

    # ---- 3. free-running random scenarios --------------------------------------------------------------------
    nrand = 360 if thorough else 45
    nproc = 3
    per = nrand // nproc
    with cf.ThreadPoolExecutor(max_workers=nproc) as ex:
        # the first runs of every process are "chatty client under a short heartbeat" scenarios
        nchat = 2 if thorough else 1
        # ... followed by "burst of 256 KiB unicasts and broadcasts at idle clients, one of them reading late"
        # then "several clients x several messages (+ Close) per write within one poll interval" and "unicasts and
        # broadcasts flushed after a client vanished (reset: seen by the read; dropped: seen by the heartbeat)"
        nbig = 2 if thorough else 1
        nvol = 3 if thorough else 1
        ndead = 4 if thorough else 1
        # ... and "every client stops answering pings and resets its connection around the moment its pong timeout
        # expires": read error and heartbeat timeout in one loop iteration still mean ONE disconnect
        nrst = 6 if thorough else 2
        outs = list(ex.map(lambda k: harness_random(binp, per, 1 + k * per, 8, k, (nchat, nbig, nvol, ndead, nrst)), range(nproc)))
    events = [e for evs, _ in outs for e in evs]
    runs = split_runs(events)
    stats = {}
    for _, s in outs:
        for k, v in s["events"].items():
            stats[k] = stats.get(k, 0) + v
    scen = [x for _, s in outs for x in s["scenarios"]]
    batches.append(("random scenario", runs))

    verdicts = validate_batches(ctx, batches, counters)
    for origin, rr in batches:
        ctx.cov["evaluations"] += sum(len(r) for r in rr)
        ctx.cov["distinct_nontrivial"] += sum(1 for r in rr if nontrivial(r))
    ctx.cov["traces_validated_against_impl"] += len(runs) + len(wruns)
    acc, att, vio = verdicts["random scenario"]
    wacc, watt, wvio = verdicts["gated inversion witness"]
    if exhibited and watt != 1 and wvio == 0:
        raise ToolError("the forced inversion was not attributed by the trace spec")
    ctx.add_part("trace verdicts (accepted with Dev={}, attributed to InvocationInversion, violations)", **{o: list(v) for o, v in verdicts.items()})
    ctx.add_part("random scenarios", runs=len(runs), accepted_dev_none=acc, attributed_to_InvocationInversion=att, violations=vio,
                 events=stats, pools=sorted({x["workers"] for x in scen}), clients=sorted({x["clients"] for x in scen}),
                 heartbeat_runs=sum(1 for x in scen if x["heartbeat"]), chatty_heartbeat_runs=sum(1 for x in scen if x.get("chatty")),
                 bigpush_late_reader_runs=sum(1 for x in scen if x.get("bigpush")),
                 volley_runs=sum(1 for x in scen if x.get("volley")),
                 rst_at_pong_expiry_runs=sum(1 for x in scen if x.get("rstexpiry")),
                 deadwrite_runs={k: sum(1 for x in scen if x.get("deadwrite") and x.get("dead_by") == k) for k in ("rst", "fin")},
                 messages_and_close_in_one_write=sum(x.get("plans", []).__str__().count("VolleyClose") for x in scen),
                 internal_app_runs=sum(1 for x in scen if x["internal_app"]),
                 early_shutdown_runs=sum(1 for x in scen if x["early_shutdown"]),
                 poll_us=sorted({x["poll_us"] for x in scen})[:12])
    for x in scen[:4]:
        ctx.sample({k: x[k] for k in ("clients", "workers", "poll_us", "heartbeat", "policy", "plans")})
    if counters.get("inversion_examples"):
        ctx.add_part("InvocationInversion examples", examples=counters["inversion_examples"])

    # ---- 4. self-test of the binding ----------------------------------------------------------------------------
    if ctx.violations:
        ctx.add_part("self-test", skipped="violations were found; the self-test runs only after a clean validation")
    else:
        good = [r for r in runs if r[0]["nw"] == 1]
        selftest(ctx, binp, good if good else runs, beh_all, [r for r in runs if r[0]["hb"] == 1])

    ctx.add_part("lock-step", **{k: v for k, v in counters.items() if k != "inversion_examples"})
    ctx.cov["rule"] = ("evaluations = log records validated by TLC + loop iterations compared with TLC's prediction; "
                       "non-trivial = runs in which >= 2 clients were admitted, >= 1 message dispatched and >= 1 stream removed")
    ctx.assumptions += [
        "the projection (socket port -> client id, payload tag -> message identity) in harness/src/bin/wsasync.rs is trusted",
        "phase order of the loop iteration is compared only in the lock-step replays; free-running logs are checked for what the property names",
        "byte-level splits inside a frame are not generated (C11); timing bounds are not claimed: hangs are detected by 8-15 s waits",
        "Dev={} models the minimal repair (per-client serialisation of handler starts); the code as written is Dev={InvocationInversion}",
        "ShutdownEndsRun assumes every loop action completes (weak fairness of the loop): reference clients keep reading and finish the "
        "frames they start; a peer that stops reading or stalls inside a frame can block the single-threaded loop in a blocking "
        "write/read - outside the property's quantifier, not generated",
    ]
    return ctx.finish()


def run_replay(ctx, binp, path):
    obj = json.load(open(path))
    case = obj.get("case", {})
    if case.get("kind") == "trace":
        run = case["events"]
        for e in run:
            e["run"] = 1
        v = validate_batches(ctx, [("replayed log", [run])], {}, tag="rp")
        log("replayed log: accepted=%d attributed=%d violations=%d" % v["replayed log"])
    elif case.get("kind") == "behaviour":
        runs, res = replay_and_judge(ctx, binp, [case["behaviour"]], "replayed behaviour", {}, strict=True)
        log("replayed behaviour: %s" % json.dumps(res[0])[:2000])
        validate_batches(ctx, [("replayed behaviour log", runs)], {}, tag="rp")
    else:
        log("replay file of kind %s: re-running the model checking part only" % case.get("kind"))
        r = mc(case.get("run", "MC_WsAsyncApp_quick2").replace("MC_WsAsyncApp_", ""), 4, False, 900)
        ctx.add_tlc("replay", r)
        ctx.require_tlc_ok("replay", r)
    return ctx.finish()
