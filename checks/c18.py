"""C18 - SHA-1, Base64, percent-encoding and HTTP dates are exact.

Everything the real functions are compared with is computed by TLC from spec/codec/*.tla:

1. Model checking (Dev = {} / Mut = {}): the streaming SHA-1 machine equals the RFC's function on every length of
   the bound (RFC 3174 vectors are ASSUMEs); the Base64 and percent decoder models (one action per loop
   iteration of the Rust code) stop with an outcome the denotation allows on every text of the bound; the
   decomposition lemmas JoinEnc / JoinDec; Dec(Enc(b)) = b on every byte pair; the calendar state machine agrees
   with its month-jump formulation and with the model of date.rs's conversion in every state; the clock.
   Sensitivity: every named deviation of the code as found (B64PlusSlashShift, B64PadPanic, B64LaxPadding,
   PercentPlusHex) and a few plausible bugs (padding boundary, length in bytes, missing century / 4-year
   corrections, month wrap) MUST be refuted by TLC, otherwise exit 2.
2. spec -> code (method A): TLC prints digests, encodings, allowed decode outcomes, per-symbol tables and one
   line per calendar month; `codec replay` runs the real functions on all of it (incl. all 2^24 three-byte
   groups and all 68^4 four-symbol texts through the TLC tables).
3. code -> spec: `codec random` logs what the real functions return on random inputs; Trace_Codec makes TLC
   explain every record.
4. Binding self-test: three corrupted vector lines and one corrupted trace record must be rejected."""
import concurrent.futures as cf
import copy
import json
import os
import random

import vlib
from vlib import Ctx, run_tlc, build_harness, run_bin, parse_jsonl, SPEC

D = os.path.join(SPEC, "codec")
# many small TLC runs side by side: keep each JVM's helper threads few
JVM = {"JAVA_TOOL_OPTIONS": "-XX:ParallelGCThreads=2 -XX:CICompilerCount=2 -XX:TieredStopAtLevel=4"}
DEVS = ("B64PlusSlashShift", "B64PadPanic", "B64LaxPadding", "PercentPlusHex")


def sha1_long_cfg(path, lens, kinds):
    with open(path, "w") as f:
        f.write("CONSTANTS\n  MaxLen = 0\n  EmitMax = 0\n  Lens = {%s}\n  Kinds = {%s}\n  Mut = {}\n"
                "INIT Init\nNEXT Next\nINVARIANTS GenInv Test3 TypeOK\nCHECK_DEADLOCK FALSE\n"
                % (", ".join(map(str, lens)), ", ".join(map(str, kinds))))


def run(tier, replay):
    ctx = Ctx("C18", tier, "exploration")
    thorough = tier == "thorough"
    bindir = build_harness(["codec"])
    codec = os.path.join(bindir, "codec")
    wd = vlib.workdir("C18")
    rnd = random.Random(ctx.seed)

    # a seeded "random" long message for the streaming machine (kind 1 stream), plus RFC TEST3 in thorough
    long_len = rnd.randrange(700000, 1048577) if thorough else rnd.randrange(9000, 20000)
    # plus the lengths at which the bit count crosses 2^16 (8192 bytes) and, thorough, 2^19 bits / RFC TEST3
    long_lens = [long_len, 8191, 8192] + ([1000000, 65535, 65536] if thorough else [])
    long_cfg = os.path.join(wd, "Gen_Sha1_long.cfg")
    sha1_long_cfg(long_cfg, long_lens, [1, 4] if thorough else [1])

    # (name, module, cfg, workers, kind, required actions / expected violation, heap)
    jobs = [
        ("sha1 streaming = RFC function", "MC_Sha1.tla", "MC_Sha1_thorough.cfg" if thorough else "MC_Sha1_quick.cfg", 8 if thorough else 4, "mc", ["Absorb", "FinishOne", "FinishTwo"]),
        ("sha1 mutation PadFits56", "MC_Sha1.tla", "MC_Sha1_mut_PadFits56.cfg", 2, "sens", "invariant"),
        ("sha1 mutation LenInBytes", "MC_Sha1.tla", "MC_Sha1_mut_LenInBytes.cfg", 2, "sens", "invariant"),
        ("sha1 vectors", "MC_Sha1.tla", "Gen_Sha1_thorough.cfg" if thorough else "Gen_Sha1_quick.cfg", 8 if thorough else 4, "gen", None),
        ("sha1 long messages %s" % (long_lens), "MC_Sha1.tla", long_cfg, 8 if thorough else 3, "gen", None),
        ("base64 decoder model", "MC_Base64.tla", "MC_Base64_algo_thorough.cfg" if thorough else "MC_Base64_algo_quick.cfg", 4, "mc", ["Alg_Group", "Alg_Reject", "Alg_End"]),
        ("base64 dev B64PlusSlashShift", "MC_Base64.tla", "MC_Base64_dev_B64PlusSlashShift.cfg", 2, "sens", "invariant"),
        ("base64 dev B64PadPanic", "MC_Base64.tla", "MC_Base64_dev_B64PadPanic.cfg", 2, "sens", "invariant"),
        ("base64 dev B64LaxPadding", "MC_Base64.tla", "MC_Base64_dev_B64LaxPadding.cfg", 2, "sens", "invariant"),
        ("base64 tables, encode and decode vectors", "MC_Base64Tab.tla", "Gen_Base64_thorough.cfg" if thorough else "Gen_Base64_quick.cfg", 2, "gen", None),
        ("percent decoder model", "MC_Percent.tla", "MC_Percent_algo.cfg", 2, "mc", ["Alg_Plain", "Alg_Escape", "Alg_Truncated", "Alg_End"]),
        ("percent every escape", "MC_Percent.tla", "MC_Percent_esc.cfg", 2, "mc", ["Alg_Escape", "Alg_End"]),
        ("percent byte pairs round-trip", "MC_Percent.tla", "MC_Percent_pairs.cfg", 2, "mc", []),
        ("percent dev PercentPlusHex", "MC_Percent.tla", "MC_Percent_dev_PercentPlusHex.cfg", 1, "sens", "invariant"),
        ("percent encoder mutation Latin1Alnum", "MC_Percent.tla", "MC_Percent_mut_Latin1Alnum.cfg", 1, "sens", "invariant"),
        ("percent encode, decode and escape vectors", "MC_Percent.tla", "Gen_Percent.cfg", 1, "gen", None),
        ("clock of one day", "MC_HttpDate.tla", "MC_HttpDate_clock.cfg", 1, "mcgen", ["Tick_Second", "Tick_Minute", "Tick_Hour"]),
        ("calendar by month jumps to 9999", "MC_HttpDate.tla", "MC_HttpDate_months.cfg", 1, "mcgen", ["Month_Jump", "Year_Jump"]),
        ("date mutation NoCentury4Fix", "MC_HttpDate.tla", "MC_HttpDate_mut_NoCentury4Fix.cfg", 1, "sens", "invariant"),
        ("date mutation NoYear4Fix", "MC_HttpDate.tla", "MC_HttpDate_mut_NoYear4Fix.cfg", 1, "sens", "invariant"),
        ("date mutation WrapAt11", "MC_HttpDate.tla", "MC_HttpDate_mut_WrapAt11.cfg", 1, "sens", "invariant"),
    ]
    if thorough:
        jobs += [
            ("calendar day by day to 9999", "MC_HttpDate.tla", "MC_HttpDate_thorough.cfg", 1, "mcgen", ["Day_Within", "Day_MonthEnd", "Day_YearEnd"]),
            ("base64 encoder lemma, all 2^24 groups", "MC_Base64Tab.tla", "MC_Base64_enclemma_thorough.cfg", 8, "mc", []),
            ("base64 decoder lemma, all 68^4 texts", "MC_Base64Tab.tla", "MC_Base64_declemma_thorough.cfg", 8, "mc", []),
        ]
    else:
        jobs += [
            ("calendar day by day to 2105", "MC_HttpDate.tla", "MC_HttpDate_quick.cfg", 1, "mcgen", ["Day_Within", "Day_MonthEnd", "Day_YearEnd"]),
            ("base64 encoder and decoder lemmas, samples (256x32x2, 2x256x32 bytes; 2x68x68x4 symbols)", "MC_Base64Tab.tla", "MC_Base64_lemmas_quick.cfg", 4, "mc", []),
        ]

    n_rand = 600 if thorough else 150
    tr = os.path.join(wd, "random.ndjson")

    def trace_job():
        # 3. random executions of the real code validated by TLC (runs alongside the TLC jobs above)
        p = run_bin(codec, ["random", str(n_rand), "4000" if thorough else "1500"])
        if p.returncode != 0:
            raise vlib.ToolError("codec random failed: " + p.stderr[-1000:])
        with open(tr, "w") as f:
            f.write(p.stdout)
        recs = parse_jsonl(p.stdout)
        t = run_tlc("Trace_Codec.tla", "Trace_Codec.cfg", D, workers=1, env=dict(JVM, TRACE=tr), timeout=3000, work_id="c18-trace", deque=True)
        return recs, t

    def do(job):
        if job == "trace":
            return job, trace_job()
        name, module, cfg, workers, kind, _ = job
        return job, run_tlc(module, cfg, D, workers=workers, coverage=(kind in ("mc", "mcgen") and bool(job[5])),
                            timeout=3000, heap="6g" if thorough else "4g", env=JVM,
                            work_id="c18-" + "".join(ch for ch in name if ch.isalnum())[:40])

    # widest first; a handful of TLC processes at a time
    jobs.sort(key=lambda j: -j[3])
    results = []
    trace_result = None
    with cf.ThreadPoolExecutor(max_workers=4 if thorough else 6) as ex:
        for job, r in ex.map(do, ["trace"] + jobs):
            if job == "trace":
                trace_result = r
            else:
                results.append((job, r))

    gen_lines = []
    for (name, module, cfg, workers, kind, arg), r in results:
        ctx.add_tlc(name, r, note=os.path.basename(cfg))
        if kind == "sens":
            if r.violation != arg:
                raise vlib.ToolError("model lost sensitivity: %s (%s) is no longer refuted by TLC" % (name, cfg))
            continue
        ctx.require_tlc_ok(name, r)
        if r.violation:
            continue
        if kind in ("mc", "mcgen") and arg:
            ctx.require_cover(name, r, arg)
        if cfg == "MC_HttpDate_months.cfg" and r.distinct != 96360:
            # Year_Jump must land on states the month jumps reach anyway (12 months x 8030 years)
            ctx.violation("calendar: year jumps and month jumps reach different states (%d distinct)" % r.distinct, {"kind": "spec-internal"})
        if kind in ("gen", "mcgen"):
            if not r.prints:
                raise vlib.ToolError("generation %s printed nothing:\n%s" % (name, r.out[-1500:]))
            gen_lines.extend(r.prints)
    if ctx.violations:
        return ctx.finish()

    # the two calendar formulations print the same months where they overlap: pass each month once
    months, others, clock = {}, [], []
    for x in gen_lines:
        k = x.get("k")
        if k == "month":
            key = (x["y"], x["m"])
            if key in months and months[key] != x:
                ctx.violation("calendar formulations disagree on %s" % (key,), {"kind": "spec-internal", "a": months[key], "b": x})
            months[key] = x
        elif k == "minute":
            clock.append(x)
        else:
            others.append(x)
    month_lines = [months[k] for k in sorted(months)]
    others.sort(key=lambda x: 0 if x.get("k") == "punres" else 1)
    vectors = clock + month_lines + others
    data = "\n".join(json.dumps(x, separators=(",", ":")) for x in vectors) + "\n"

    def replay_lines(text):
        p = run_bin(codec, ["replay"], stdin_data=text, timeout=3000)
        res = [x for x in parse_jsonl(p.stdout) if x.get("summary")]
        if p.returncode != 0 or not res:
            raise vlib.ToolError("codec replay failed rc=%s: %s" % (p.returncode, p.stderr[-2000:]))
        return res[0]

    s = replay_lines(data)
    if s["lines"] != len(vectors):
        raise vlib.ToolError("harness consumed %d of %d lines" % (s["lines"], len(vectors)))
    expected_parts = {"sha1", "b64_enc_all_3byte_groups", "b64_dec_all_4symbol_texts", "b64_enc_1_2_bytes", "b64_enc_lengths_0_64",
                      "b64_dec_texts", "pct_enc_1_2_bytes", "pct_dec_texts", "pct_dec_every_escape", "date_days", "date_concurrent"}
    if set(s["parts"]) != expected_parts:
        raise vlib.ToolError("harness parts %s != %s" % (sorted(s["parts"]), sorted(expected_parts)))
    for name, p in sorted(s["parts"].items()):
        ctx.cov["evaluations"] += p["evaluations"]
        ctx.cov["distinct_nontrivial"] += p["nontrivial"]
        ctx.add_part(name, evaluations=p["evaluations"], nontrivial=p["nontrivial"], mismatches=p["mismatches"])
        for x in p["samples"]:
            ctx.sample(x, limit=14)
        if p.get("drift"):
            ctx.drift("C18 beyond the statement: " + name, "%d case(s); first: %s" % (p["drift"], json.dumps(p["drift_first"][0], ensure_ascii=False)[:500]),
                      {"kind": "codec-drift", "part": name, "first": p["drift_first"]})
        if p["mismatches"]:
            by_dev = {}
            for f in p["first"]:
                by_dev.setdefault(f.get("dev") or None, []).append(f)
            for dev, fs in by_dev.items():
                ctx.violation("%s: %d case(s) disagree with the specification; first: %s" % (name, p["mismatches"], json.dumps(fs[0], ensure_ascii=False)[:500]),
                              {"kind": "codec-vectors", "part": name, "first": fs}, dev=dev if dev in DEVS else None)
    ctx.cov["traces_validated_against_impl"] += len(vectors)
    ctx.add_part("calendar", months=len(month_lines), every_second_of=s["every_second_days"])

    recs, t = trace_result
    ctx.add_tlc("trace validation of %d random executions" % len(recs), t)
    ctx.cov["evaluations"] += len(recs)
    ctx.cov["traces_validated_against_impl"] += len(recs)
    ctx.add_part("random_executions", records=len(recs), by_kind={k: sum(1 for r in recs if r["k"] == k) for k in ("sha1", "b64e", "b64d", "pe", "pd", "date")})
    for pr in t.prints:
        if isinstance(pr, dict) and pr.get("drift"):
            ctx.drift("C18 beyond the statement: random executions", "%d percent-encoding(s) are equivalent to, but not, the normal form; first: %s"
                      % (len(pr["drift"]), json.dumps(pr["drift"][0])[:400]), {"kind": "codec-trace-drift", "records": pr["drift"]})
    if t.violation:
        rej = next((pr["rejected"] for pr in reversed(t.prints) if isinstance(pr, dict) and "rejected" in pr), [])
        ctx.violation("random executions rejected by Trace_Codec (%s); first: %s" % (t.violated_name, json.dumps(rej[:1])[:600]),
                      {"kind": "codec-trace", "rejected": rej})
    elif t.distinct < len(recs):
        raise vlib.ToolError("trace validation consumed too few records")

    if ctx.violations:
        # a broken tree: report what was found; the binding self-test presumes a clean run
        return ctx.finish()
    # 4. binding self-test (quick and thorough): corrupted vectors / a corrupted record must be rejected.
    #    Only after a clean validation: on a broken tree the verdict is the violation found above.
    if ctx.violations:
        for f in (tr, long_cfg):
            if os.path.exists(f):
                os.remove(f)
        return ctx.finish()
    def first(pred):
        return copy.deepcopy(next(x for x in others if pred(x)))
    c1 = first(lambda x: x.get("k") == "sha1" and x["len"] == 56)
    c1["d"][19] ^= 1
    c2 = first(lambda x: x.get("k") == "dec" and x["t"] == [81, 81, 61, 61])
    c2["allowed"] = [{"r": "ok", "v": [64]}]
    c3 = copy.deepcopy(month_lines[0])
    c3["days"][0] = "Fri, 01"
    st = replay_lines("\n".join(json.dumps(x) for x in clock + [c1, c2, c3]) + "\n")
    got = (st["parts"]["sha1"]["mismatches"], st["parts"]["b64_dec_texts"]["mismatches"], st["parts"]["date_days"]["mismatches"])
    if got[0] != 1 or got[1] != 1 or got[2] < 3:
        raise vlib.ToolError("binding self-test: corrupted vectors were not rejected as expected: %s" % (got,))
    small = []
    for kind, cnt in (("sha1", 2), ("b64e", 8), ("b64d", 8), ("pe", 8), ("pd", 8), ("date", 3)):
        of_kind = [r for r in recs if r["k"] == kind]
        if kind == "sha1":
            of_kind.sort(key=lambda r: r["n"])
        if kind == "b64e":
            of_kind = [r for r in of_kind if len(r["b"]) >= 4]
        small += copy.deepcopy(of_kind[:cnt])
    idx = next(i for i, r in enumerate(small) if r["k"] == "b64e" and len(r["b"]) >= 4)
    small[idx] = dict(small[idx], b=[small[idx]["b"][0] ^ 1] + small[idx]["b"][1:])
    vlib.write_lines(tr, small)
    t2 = run_tlc("Trace_Codec.tla", "Trace_Codec.cfg", D, workers=1, env=dict(JVM, TRACE=tr), timeout=1500, work_id="c18-trace2", deque=True)
    if t2.violation != "invariant" or not t2.prints or len(next((pr["rejected"] for pr in reversed(t2.prints) if "rejected" in pr), [])) != 1:
        raise vlib.ToolError("binding self-test: corrupted trace record was not rejected")
    ctx.add_part("binding_self_test", corrupted_vectors_rejected=list(got), corrupted_trace_record_rejected=True)
    os.remove(tr)
    os.remove(long_cfg)

    ctx.cov["rule"] = ("inputs are enumerated by TLC from the property's quantifier (SHA-1: every length 0..%d x %d contents + long streams; "
                       "Base64: every 1-/2-byte input, all 2^24 3-byte groups, lengths 0..64, all 68^4 4-symbol texts, all texts <= %d over {A,Q,/,+,=,-} and <= 9 over {A,/,=}; "
                       "percent: every byte / byte pair, every %%xy, all texts <= 4 over the 9 symbols; dates: %d calendar months, each day at 00:00:00, 23:59:59 and a random second, every second of the listed days); "
                       "non-trivial counts distinct inputs: SHA-1 lengths beyond one block or at a padding boundary, byte groups / texts that decode to a value, encodings, calendar days"
                       % (1100 if thorough else 200, 3 if thorough else 2, 6 if thorough else 5, len(month_lines)))
    ctx.cov["exhaustive"] = True
    ctx.assumptions += [
        "Sha1.tla / Base64.tla / Percent.tla / HttpDate.tla are faithful transcriptions of RFC 3174, RFC 4648 s.4, RFC 3986 s.2.1-2.3, RFC 7231 s.7.1.1.1 (cross-checked once against CPython, which is not used by the check)",
        "DESIGN 5a leniencies for Base64 decoding: unpadded final group and non-zero trailing bits may be accepted or rejected",
        "the harness mirrors the 5-line byte-stream generator of Sha1.tla; the mirror is compared with the bytes TLC prints for every message <= EmitMax",
        "timestamps are formed as day*86400 + second (multiplication only)",
    ]
    return ctx.finish()
