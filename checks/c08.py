"""C08 - thread pool: every task executed exactly once, N-fold parallelism, panic isolation, stop/drop terminate.

1. Model checking (spec/pool/ThreadPool.tla, one action per hook point of thread/pool.rs + recovery.rs):
   all interleavings of caller, N workers and the recovery thread, every subset of panicking tasks,
   every lifecycle script; invariants + liveness under weak fairness, Dev = {}.  Sensitivity: each named
   deviation / plausible bug must violate the property it is aimed at; the parallelism claim is checked by
   requiring TLC to VIOLATE `NeverAllRunning` (and NOT to violate it under RunUnderLock).
2. spec -> code (binding D, gated schedule replay): behaviours taken from TLC - witness traces of the
   reachability invariants (dumped as JSON), edge-covering paths over the dumped state graph, `-simulate`
   samples seeded by VERIF_SEED - are forced through the real pool: the hook callback parks every thread
   and the controller releases exactly the one whose action is next, compares the reported point and its
   arguments and the projected state, and calls it a hang when the expected point is not reached within
   1 s + 4 s + 15 s.
3. code -> spec (binding C, trace validation): randomised real runs (N 1..8, up to 200 tasks, bodies
   return / panic / spin / sleep, perturbed schedules, all lifecycle variants) are logged through the
   hooks and validated by TLC with Trace_ThreadPool; the logs of all gated runs are validated as well.
4. Self-test of the binding on every run: a corrupted log must be rejected by TLC, a corrupted
   behaviour must be rejected by the harness."""
import concurrent.futures
import copy
import hashlib
import json
import os
import random
import shutil

import vlib
from vlib import Ctx, run_tlc, build_harness, run_bin, parse_jsonl, SPEC

D = os.path.join(SPEC, "pool")
ACTIONS = ["Pool_Start", "Pool_Execute", "Pool_Stop", "Pool_DropBegin", "Pool_DropHandles", "Pool_DropEnd",
           "Worker_Lock", "Worker_RecvMsg", "Worker_RecvDisc", "Worker_Run", "Worker_Finish", "Worker_Panic",
           "Worker_Die", "Rec_Wake", "Rec_Recv", "Rec_Join", "Rec_Respawn"]

# (cfg, deviation, expected kind, expected name)
SENSITIVITY = [
    ("MC_ThreadPool_dev_DropJoinsRecovery.cfg", "DropJoinsRecovery", "temporal", "CallerNeverBlocks"),
    ("MC_ThreadPool_dev_DropJoinsRecovery_exit.cfg", "DropJoinsRecovery", "temporal", "AllWorkersExit"),
    ("MC_ThreadPool_dev_RestartSharesHandles.cfg", "RestartSharesHandles", "temporal", "CallerNeverBlocks"),
    ("MC_ThreadPool_dev_RunUnderLock.cfg", "RunUnderLock", "invariant", "LockNotHeldWhileRunning"),
    ("MC_ThreadPool_dev_RunUnderLock_poison.cfg", "RunUnderLock", "invariant", "NeverPoisoned"),
    ("MC_ThreadPool_dev_RunUnderLock_isolated.cfg", "RunUnderLock", "invariant", "NoPrematureExit"),
    ("MC_ThreadPool_dev_ContinueOnDisconnect.cfg", "ContinueOnDisconnect", "temporal", "AllWorkersExit"),
    ("MC_ThreadPool_dev_NoRespawn.cfg", "NoRespawn", "temporal", "PanicIsolated"),
    ("MC_ThreadPool_dev_NoRespawn_tasks.cfg", "NoRespawn", "temporal", "EventuallyEachOnce"),
    ("MC_ThreadPool_dev_StopJoinsWorkers.cfg", "StopJoinsWorkers", "temporal", "CallerNeverBlocks"),
    ("MC_ThreadPool_dev_RequeueOnPanic.cfg", "RequeueOnPanic", "invariant", "AtMostOnce"),
    ("MC_ThreadPool_dev_ShutdownPerStop2.cfg", "ShutdownPerStop2", "invariant", "SingleShutdown"),
]
WITNESSES = [  # Gen cfg, what the schedule shows
    ("Gen_ThreadPool_wit_par2.cfg", "2 tasks running at once on a 2-thread pool"),
    ("Gen_ThreadPool_wit_par3.cfg", "3 tasks running at once on a 3-thread pool"),
    ("Gen_ThreadPool_wit_respawned_runs.cfg", "a respawned worker runs the next task"),
    ("Gen_ThreadPool_wit_second_respawn.cfg", "a respawned worker panics again and is respawned again"),
    ("Gen_ThreadPool_wit_drop_busy_nostop.cfg", "drop without stop while a task runs and another is queued"),
    ("Gen_ThreadPool_wit_stop_busy.cfg", "after stop one worker has consumed the Shutdown while another runs a task and a third sits in recv"),
    ("Gen_ThreadPool_wit_respawn_after_drop.cfg", "the recovery thread respawns a worker whose handle Drop has already taken"),
    ("Gen_ThreadPool_wit_old_panic_after_restart.cfg", "restart: a task of the first start panics after the second start; its recovery thread is about to join it while the new generation works"),
    ("Gen_ThreadPool_wit_two_generations_run.cfg", "restart without stop: tasks of both generations run at the same time"),
    ("Gen_ThreadPool_wit_stop_while_dead.cfg", "stop() while a panicked worker has not been replaced yet"),
    ("Gen_ThreadPool_wit_stop_after_respawn.cfg", "stop() after a panicked worker was replaced"),
    ("Gen_ThreadPool_wit_stop_busy_queued.cfg", "stop() returns while one task runs and another is still queued"),
    ("Gen_ThreadPool_wit_two_panics_low.cfg", "two panics: worker 0 of 0..2 replaced, then worker 1 dies"),
    ("Gen_ThreadPool_wit_two_panics_mid.cfg", "two panics: worker 1 of 0..2 replaced, then worker 2 dies"),
    ("Gen_ThreadPool_wit_double_stop.cfg", "stop; stop: two workers leave through the two Shutdowns"),
]


def par(jobs, conc):
    """jobs: list of (key, fn). Runs them `conc` at a time, returns {key: result}; re-raises the first error."""
    out = {}
    with concurrent.futures.ThreadPoolExecutor(max_workers=conc) as ex:
        futs = {ex.submit(fn): key for key, fn in jobs}
        for f in concurrent.futures.as_completed(futs):
            out[futs[f]] = f.result()
    return out


# ------------------------------------------------------------------------------------------------
# behaviours from TLC
# ------------------------------------------------------------------------------------------------

def obs_of_state(st, n, gens):
    def per_gen(f):     # TLC dumps a function over 1..G as a list, over 0..N-1 as an object
        rows = f if isinstance(f, list) else [f[str(g)] for g in range(1, gens + 1)]
        return [[r[str(i)] for i in range(n)] if isinstance(r, dict) else r for r in rows]
    return {"cpc": st["cpc"], "wpc": per_gen(st["wpc"]), "ran": st["ran"], "done": st["done"]}


def behaviour_from_dump(path, n, tasks, gens):
    d = json.load(open(path))
    states = [s[1] for s in d["counterexample"]["state"]]
    pan_set = set(states[0]["pan"])
    steps = []
    for st in states[1:]:
        lab = st["hist"][0]
        steps.append({"a": lab["a"], "g": lab["g"], "w": lab["w"], "x": lab["x"], "s": obs_of_state(st, n, gens)})
    return {"n": n, "tasks": tasks, "gens": gens, "pan": [t in pan_set for t in range(1, tasks + 1)], "complete": False, "steps": steps}


def cfg_consts(cfg):
    txt = open(os.path.join(D, cfg)).read()
    import re
    return int(re.search(r"N = (\d+)", txt).group(1)), int(re.search(r"MaxTasks = (\d+)", txt).group(1))


def cfg_gens(cfg):
    import re
    return int(re.search(r"G = (\d+)", open(os.path.join(D, cfg)).read()).group(1))


def edge_cover_paths(edges, n, tasks, limit, rng, gens=1):
    """edges: list of {s, l, t} printed by TLC for the complete graph. Returns (behaviours, n_edges, n_covered, n_states).
    Paths start in an initial state and end in a final state; each path greedily maximises the number of not yet
    covered edges (dynamic programme over the acyclic graph, refreshed every 40 paths)."""
    key = lambda s: json.dumps(s, sort_keys=True, separators=(",", ":"))
    ids = {}
    states = []
    adj = []
    has_in = []

    def nid(s):
        k = key(s)
        i = ids.get(k)
        if i is None:
            i = len(states)
            ids[k] = i
            states.append(s)
            adj.append([])
            has_in.append(False)
        return i
    seen = set()
    for e in edges:
        u, v = nid(e["s"]), nid(e["t"])
        lab = (e["l"]["a"], e["l"]["g"], e["l"]["w"], e["l"]["x"])
        if (u, lab, v) in seen:
            continue
        seen.add((u, lab, v))
        adj[u].append((lab, v))
        has_in[v] = True
    inits = [i for i in range(len(states)) if not has_in[i]]
    n_edges = sum(len(a) for a in adj)
    # topological order (the graph of Dev = {} is acyclic: every action makes progress)
    indeg = [0] * len(states)
    for u in range(len(states)):
        for (_, v) in adj[u]:
            indeg[v] += 1
    topo = [i for i in range(len(states)) if indeg[i] == 0]
    qi = 0
    while qi < len(topo):
        u = topo[qi]
        qi += 1
        for (_, v) in adj[u]:
            indeg[v] -= 1
            if indeg[v] == 0:
                topo.append(v)
    if len(topo) != len(states):
        raise vlib.ToolError("state graph of Dev={} is not acyclic")
    covered = set()
    paths = []
    best = [0] * len(states)
    while len(covered) < n_edges and len(paths) < limit:
        # best[u] = most uncovered edges on a path from u to a final state (recomputed every 40 paths)
        for u in reversed(topo):
            m = 0
            for k, (_, v) in enumerate(adj[u]):
                c = best[v] + (0 if (u, k) in covered else 1)
                if c > m:
                    m = c
            best[u] = m
        for _ in range(40):
            if len(paths) >= limit:
                break
            cur = max(inits, key=lambda i: (best[i], rng.random()))
            path = []
            gain = 0
            while adj[cur]:
                sc = [(best[v] + (0 if (cur, k) in covered else 1), rng.random(), k) for k, (_, v) in enumerate(adj[cur])]
                k = max(sc)[2]
                if (cur, k) not in covered:
                    gain += 1
                path.append((cur, k))
                cur = adj[cur][k][1]
            if gain == 0:
                break
            for e in path:
                covered.add(e)
            first = states[path[0][0]]
            steps = []
            for (a, j) in path:
                lab, v = adj[a][j]
                t = states[v]
                steps.append({"a": lab[0], "g": lab[1], "w": lab[2], "x": lab[3],
                              "s": {"cpc": t["cpc"], "wpc": t["wpc"], "ran": t["ran"], "done": t["done"]}})
            paths.append({"n": n, "tasks": tasks, "gens": gens, "pan": first["pan"], "complete": True, "steps": steps})
    return paths, n_edges, len(covered), len(states)


def beh_key(b):
    h = hashlib.sha1()
    h.update(json.dumps([b["n"], b["pan"], b.get("finish"), [(s["a"], s.get("g", 1), s["w"], s["x"]) for s in b["steps"]]]).encode())
    return h.hexdigest()


def beh_str(b):
    return "N=%d panicking=%s: " % (b["n"], [i + 1 for i, p in enumerate(b["pan"]) if p]) + " ".join(
        "%s(%s)" % (s["a"], ",".join(str(v) for v in (["g%d" % s.get("g", 1)] if b.get("gens", 1) > 1 else []) +
                                       ([s["w"]] if s["w"] >= 0 else []) + [s["x"]])) for s in b["steps"])


# ------------------------------------------------------------------------------------------------
# harness runs
# ------------------------------------------------------------------------------------------------

def split_runs(lines):
    """A log file holds several runs, each starting with a Reset record."""
    runs, cur = [], []
    for ln in lines:
        if '"Reset"' in ln and cur:
            runs.append(cur)
            cur = []
        cur.append(ln)
    if cur:
        runs.append(cur)
    return runs


def run_gated(pool_bin, behaviours, work, tag, chunk=300):
    """Forces the behaviours through the real pool.  Returns (n_ok, fails, trace files, steps, not run).
    fails = [(behaviour, result, log lines of that run or None)]: runs in which the real code left the model's
    schedule (result["diverged"]) and was then released to finish freely, and/or did not finish (result["hang"])."""
    fails = []
    files = []
    n_ok = 0
    steps = 0
    todo = list(behaviours)
    part = 0
    while todo:
        batch, todo = todo[:chunk], todo[chunk:]
        tf = os.path.join(work, "gated-%s-%d.ndjson" % (tag, part))
        part += 1
        data = "".join(json.dumps(b, separators=(",", ":")) + "\n" for b in batch)
        p = run_bin(pool_bin, ["gated", tf], stdin_data=data, timeout=900)
        res = parse_jsonl(p.stdout)
        summ = [x for x in res if x.get("summary")]
        by_id = {b["id"]: b for b in batch}
        bad = [x for x in res if not x.get("summary") and not x.get("ok", True)]
        div_runs = split_runs(open(tf + ".div").read().splitlines()) if os.path.exists(tf + ".div") else []
        for k, x in enumerate(bad):
            fails.append((by_id.get(x.get("id")), x, div_runs[k] if k < len(div_runs) else None))
        if p.returncode != 0 or not summ:
            # the harness never exits non-zero by itself: the pool took the process down (abort, double panic ...)
            seen = sum(1 for x in res if not x.get("summary"))
            crashed = batch[min(len(batch) - 1, seen)]
            fails.append((crashed, {"ok": False, "crash": "harness process ended with rc=%s: %s" % (p.returncode, p.stderr[-600:])}, None))
            break
        s = summ[0]
        n_ok += s["ok"]
        steps += s["steps"]
        files.append(tf)
        if s["behaviours"] < len(batch):
            # the process stopped early (a run that did not finish, or three divergences): go on after it
            todo = batch[s["behaviours"]:] + todo
        if len(fails) >= 3:
            break
    return n_ok, fails, files, steps, len(todo)


def judge(path, work_id):
    """The property by itself (Trace_PoolProp) on a recorded log: (satisfied, offending records)."""
    r = run_tlc("Trace_PoolProp.tla", "Trace_PoolProp.cfg", D, workers=1, env={"TRACE": path}, timeout=900, work_id=work_id,
                deque=True, heap="2g")
    badl = []
    for x in r.prints:
        if isinstance(x, dict) and "bad" in x:
            badl = x["bad"]
    return (r.violation is None), badl, r


def judge_lines(lines, work, work_id):
    tp = os.path.join(work, work_id + ".ndjson")
    with open(tp, "w") as f:
        f.write("\n".join(lines) + "\n")
    try:
        return judge(tp, work_id)
    finally:
        os.remove(tp)


def validate_trace(path, work_id, cfg="Trace_ThreadPool.cfg"):
    return run_tlc("Trace_ThreadPool.tla", cfg, D, workers=1, env={"TRACE": path}, timeout=1500, work_id=work_id,
                   deque=True, heap="4g")


def rejection(r):
    for x in r.prints:
        if isinstance(x, dict) and "rejected_at" in x:
            return x
    return None


def model_state_before(path, pos, work):
    """Second pass on a rejected log: the model state just before the inexplicable record."""
    lines = open(path).read().splitlines()
    tp = os.path.join(work, "prefix.ndjson")
    with open(tp, "w") as f:
        f.write("\n".join(lines[:pos - 1]) + "\n")
    try:
        r = run_tlc("Trace_ThreadPool.tla", "Trace_ThreadPool_last.cfg", D, workers=1, env={"TRACE": tp}, timeout=600,
                    work_id="c08-last", deque=True)
        for x in r.prints:
            if isinstance(x, dict) and "last_state" in x:
                return x["last_state"]
    except vlib.ToolError:
        pass
    finally:
        os.remove(tp)
    return None


def run(tier, replay):
    ctx = Ctx("C08", tier, "model_checking")
    thorough = tier == "thorough"
    bindir = build_harness(["pool"])
    pool_bin = os.path.join(bindir, "pool")
    work = os.path.join(vlib.workdir("C08"), "run-%d" % os.getpid())   # private: tiers may run side by side
    os.makedirs(work, exist_ok=True)
    rng = random.Random(ctx.seed)
    try:
        return _run(ctx, thorough, pool_bin, work, rng, replay)
    finally:
        shutil.rmtree(work, ignore_errors=True)


def _run(ctx, thorough, pool_bin, work, rng, replay):
    if replay:
        # a replay must not replace the evidence of the last full run
        evp = os.path.join(vlib.EVIDENCE, "C08.json")
        old = open(evp).read() if os.path.exists(evp) else None
        try:
            return _replay(ctx, pool_bin, work, replay)
        finally:
            if old is not None:
                with open(evp, "w") as f:
                    f.write(old)
    # ---------------------------------------------------------------- 1. model checking
    if thorough:
        mcs = [("MC_ThreadPool_thorough_n3t4.cfg", 4), ("MC_ThreadPool_thorough_g2n2.cfg", 4), ("MC_ThreadPool_thorough_n3.cfg", 2),
               ("MC_ThreadPool_thorough_n2.cfg", 2), ("MC_ThreadPool_thorough_g2n1.cfg", 2), ("MC_ThreadPool_thorough_g3n1.cfg", 2),
               ("MC_ThreadPool_thorough_n1.cfg", 1)]
    else:
        mcs = [("MC_ThreadPool_quick_g2n2.cfg", 3), ("MC_ThreadPool_quick_n2t3.cfg", 2), ("MC_ThreadPool_quick_g2n1.cfg", 2),
               ("MC_ThreadPool_quick_g2n2t1.cfg", 1), ("MC_ThreadPool_quick_n2.cfg", 1), ("MC_ThreadPool_quick_n1.cfg", 1)]
    # the exhaustive runs go on in the background while the harness phases run (they need little CPU)
    bg = concurrent.futures.ThreadPoolExecutor(max_workers=3)
    mc_futs = {cfg: bg.submit(lambda cfg=cfg, w=w: run_tlc("MC_ThreadPool.tla", cfg, D, workers=w, coverage=True, timeout=5400,
                                                           heap="6g", work_id="c08-" + cfg[:-4])) for cfg, w in mcs}
    jobs = []
    sens = SENSITIVITY + ([("MC_ThreadPool_dev_RestartSharesHandles_isolated.cfg", "RestartSharesHandles", "temporal", "PanicIsolated")]
                          if thorough else [])
    for cfg, dev, kind, name in sens:
        big = cfg.endswith("_isolated.cfg") and "Restart" in cfg      # 250 k states: more workers, generous timeout
        jobs.append((("dev", cfg), (lambda cfg=cfg, big=big: run_tlc("MC_ThreadPool.tla", cfg, D, workers=4 if big else 1,
                                                                     timeout=3000 if big else 1200, work_id="c08-" + cfg[:-4]))))
    jobs.append((("nopar", "x"), lambda: run_tlc("MC_ThreadPool.tla", "MC_ThreadPool_dev_RunUnderLock_par.cfg", D, workers=1, timeout=600,
                                                  work_id="c08-nopar")))
    for cfg in ("MC_ThreadPool_par_n1.cfg", "MC_ThreadPool_par_n2.cfg", "MC_ThreadPool_par_n3.cfg"):
        jobs.append((("par", cfg), (lambda cfg=cfg: run_tlc("MC_ThreadPool.tla", cfg, D, workers=1, timeout=600, work_id="c08-" + cfg[:-4]))))
    wit_cfgs = WITNESSES if thorough else [w for w in WITNESSES if "par3" not in w[0]]
    for cfg, what in wit_cfgs:
        dump = os.path.join(work, cfg[:-4] + ".json")
        jobs.append((("wit", cfg), (lambda cfg=cfg, dump=dump: run_tlc("Gen_ThreadPool.tla", cfg, D, workers=1, timeout=600,
                                                                        work_id="c08-" + cfg[:-4], extra=["-dumpTrace", "json", dump]))))
    res = par(jobs, 4 if thorough else 6)

    for cfg, dev, kind, name in sens:
        r = res[("dev", cfg)]
        ctx.add_tlc("sensitivity: Dev={%s} must violate %s" % (dev, name), r)
        if r.violation != kind or (r.violated_name and r.violated_name != name):
            raise vlib.ToolError("model lost sensitivity: Dev={%s} gives %s %s, expected %s %s" % (dev, r.violation, r.violated_name, kind, name))
    r = res[("nopar", "x")]
    ctx.add_tlc("sensitivity: with RunUnderLock two tasks never run at once (NeverAllRunning holds)", r)
    if r.violation is not None:
        raise vlib.ToolError("RunUnderLock unexpectedly allows parallel tasks")
    for cfg in ("MC_ThreadPool_par_n1.cfg", "MC_ThreadPool_par_n2.cfg", "MC_ThreadPool_par_n3.cfg"):
        r = res[("par", cfg)]
        n, t = cfg_consts(cfg)
        ctx.add_tlc("ParallelismReachable N=%d: NeverAllRunning must be violated" % n, r)
        if r.violation != "invariant" or r.violated_name != "NeverAllRunning":
            ctx.violation("the model cannot reach %d tasks running at once on a %d-thread pool" % (n, n),
                          {"kind": "tlc", "cfg": cfg, "result": r.violation})

    # ---------------------------------------------------------------- 2. behaviours for the gated replay
    behaviours = []
    origin = {}
    for cfg, what in wit_cfgs:
        r = res[("wit", cfg)]
        ctx.add_tlc("witness schedule: %s" % what, r)
        if r.violation != "invariant":
            raise vlib.ToolError("witness %s not reachable in the model (%s)" % (cfg, r.violation))
        n, t = cfg_consts(cfg)
        b = behaviour_from_dump(os.path.join(work, cfg[:-4] + ".json"), n, t, cfg_gens(cfg))
        # the schedule ends where the witness state is reached; the lifecycle is then finished freely, once
        # with stop + drop and once with drop alone (the rest of the run is judged by the trace validation)
        for fin in ("drop", "stop"):
            bb = dict(b)
            bb["finish"] = fin
            origin[beh_key(bb)] = "witness: " + what + " (then " + ("stop, drop" if fin == "stop" else "drop") + ")"
            behaviours.append(bb)
    n_wit = len(behaviours)

    # (cfg, maximal number of paths): thorough covers every edge of the N=1/3-task and N=2/2-task graphs
    edge_cfgs = [("Gen_ThreadPool_edges_n1.cfg", 100000 if thorough else 300), ("Gen_ThreadPool_edges_quick.cfg", 100000 if thorough else 400)]
    if thorough:
        edge_cfgs.append(("Gen_ThreadPool_edges_thorough.cfg", 2000))
        edge_cfgs.append(("Gen_ThreadPool_edges_g2.cfg", 1500))     # two starts
    ejobs = [(cfg, (lambda cfg=cfg: run_tlc("Gen_ThreadPool.tla", cfg, D, workers=1, timeout=1500, heap="4g", work_id="c08-" + cfg[:-4])))
             for cfg, _ in edge_cfgs]
    sims = [("Gen_ThreadPool_sim.cfg", 2000 if thorough else 250), ("Gen_ThreadPool_sim_g2.cfg", 1500 if thorough else 150)]
    if thorough:
        sims.append(("Gen_ThreadPool_sim_n3.cfg", 1000))
    for cfg, num in sims:
        ejobs.append((cfg, (lambda cfg=cfg, num=num: run_tlc("Gen_ThreadPool.tla", cfg, D, workers=1, timeout=900, simulate=num, depth=400,
                                                            seed_val=ctx.seed, work_id="c08-" + cfg[:-4]))))
    eres = par(ejobs, 4)
    cover = {}
    for cfg, limit in edge_cfgs:
        g = eres[cfg]
        if g.violation or not g.prints:
            raise vlib.ToolError("edge dump %s failed: %s" % (cfg, g.out[-1500:]))
        ctx.add_tlc("state graph dump %s" % cfg, g)
        n, t = cfg_consts(cfg)
        paths, n_edges, n_cov, n_states = edge_cover_paths(g.prints, n, t, limit, rng, cfg_gens(cfg))
        cover[cfg] = {"N": n, "tasks": t, "starts": cfg_gens(cfg), "states": n_states, "edges": n_edges, "edges_covered": n_cov, "paths": len(paths)}
        for b in paths:
            origin.setdefault(beh_key(b), "edge cover " + cfg)
        behaviours += paths
        del g.prints[:]
    for cfg, num in sims:
        g = eres[cfg]
        if g.violation or len(g.prints) < num // 2:
            raise vlib.ToolError("simulation %s produced %d behaviours: %s" % (cfg, len(g.prints), g.out[-1500:]))
        ctx.add_tlc("simulated behaviours %s (seed %d)" % (cfg, ctx.seed), g)
        for b in g.prints:
            origin.setdefault(beh_key(b), "simulate " + cfg)
        behaviours += g.prints
    # distinct behaviours only
    uniq = {}
    for b in behaviours:
        uniq.setdefault(beh_key(b), b)
    behaviours = list(uniq.values())
    for i, b in enumerate(behaviours):
        b["id"] = i

    # ---------------------------------------------------------------- 3. force them through the real pool
    n_ok, fails, gfiles, gsteps, skipped = run_gated(pool_bin, behaviours, work, "d")
    for k, (b, f, log) in enumerate(fails):
        where = origin.get(beh_key(b), "?") if b else "?"
        if "crash" in f:
            # a task (or the pool) took the whole process down: "a task that panics affects nothing but itself"
            ctx.violation("gated replay (%s): %s" % (where, f["crash"]), {"kind": "gated", "behaviour": b, "result": f})
            continue
        dv, hg = f.get("diverged"), f.get("hang")
        sat, badl = (False, [])
        if log:
            sat, badl, jr = judge_lines(log, work, "c08-jg%d" % k)
            ctx.add_tlc("property-level judgement of a forced run that left the model's schedule", jr)
        desc = "gated replay of a TLC behaviour (%s): %s; last events %s" % (
            where, "; ".join("%s at step %s %s: %s" % (x.get("kind"), x.get("step"), x.get("action"), x.get("detail")) for x in (dv, hg) if x),
            f.get("last_events"))
        if f.get("completed") and sat:
            # the code did not take the steps in the order / with the arguments of ThreadPool.tla, but the run as a whole
            # (forced prefix + free completion) satisfies the property itself
            ctx.drift("code model ThreadPool.tla (forced schedule)", desc + " - the run satisfies C08 as judged by Trace_PoolProp",
                      {"kind": "gated", "behaviour": b, "result": f})
            continue
        dev = None
        begin = [x for x in (b or {}).get("steps", []) if x["a"] == "Pool_DropBegin"]
        if not f.get("completed") and begin and begin[0]["x"] == 1 and not any(x["a"] == "Pool_Stop" for x in b["steps"]):
            dev = "DropJoinsRecovery"
        ctx.violation(desc + "; property-level judgement: %s" % json.dumps(badl[:3]),
                      {"kind": "gated", "behaviour": b, "result": f, "judge": badl[:5]}, dev=dev)
    nontrivial_beh = sum(1 for b in behaviours[:n_ok + len(fails)] if any(s["a"] == "Worker_Run" for s in b["steps"]))
    ctx.add_part("gated schedule replay", behaviours=len(behaviours), forced_ok=n_ok, failed=len(fails), not_run=skipped,
                 model_steps_forced=gsteps, witnesses=n_wit, edge_cover=cover)
    for b in behaviours[:2] + behaviours[n_wit:n_wit + 1]:
        ctx.sample({"forced_behaviour": beh_str(b)[:900], "origin": origin.get(beh_key(b))})

    # ---------------------------------------------------------------- 4. randomised real runs
    # (runs, max N, max tasks, scale?, trace cfg). "scale" runs: many threads x hundreds of tasks, exact counts;
    # the last thorough chunk uses the default pool size of Humphrey's App (32 threads)
    T0, TB = "Trace_ThreadPool.cfg", "Trace_ThreadPool_big.cfg"
    chunks = ([(200, 8, 200, False, T0)] * 4 + [(200, 3, 12, False, T0), (20, 8, 200, True, T0), (8, 32, 600, True, TB)] if thorough
              else [(50, 8, 200, False, T0), (30, 3, 10, False, T0), (3, 8, 200, True, T0)])
    trace_cfg = {}
    rfiles = []
    fingerprints = set()
    total_runs = 0
    total_events = 0
    shapes = 0
    monitored = 0
    barriers = 0
    restarts = 0
    outliving = 0
    hangs = []
    for i, (runs, maxn, maxt, scale, tcfg) in enumerate(chunks):
        tf = os.path.join(work, "random-%d.ndjson" % i)
        trace_cfg[tf] = tcfg
        p = run_bin(pool_bin, ["random", str(runs), tf, str(maxn), str(maxt)] + (["scale"] if scale else []), env={"VERIF_SEED": ctx.seed * 1000 + i}, timeout=900)
        summ = [x for x in parse_jsonl(p.stdout) if x.get("summary")]
        if p.returncode != 0 or not summ:
            ctx.violation("randomised runs: the harness process ended with rc=%s (the pool took the process down): %s" % (p.returncode, p.stderr[-600:]),
                          {"kind": "crash", "chunk": i, "stderr": p.stderr[-3000:]})
            continue
        s = summ[0]
        total_runs += s["runs"]
        total_events += s["events"]
        shapes = max(shapes, s["distinct_shapes"])
        monitored += s.get("monitored_runs", 0)
        barriers += s.get("barrier_runs", 0)
        restarts += s.get("restart_runs", 0)
        outliving += s.get("outliving_runs", 0)
        fingerprints.update(s["fingerprints"])
        rfiles.append(tf)
        if i == 0:
            for x in s["samples"][:2]:
                ctx.sample({"random_run": x})
        if s["hang"]:
            hangs.append((tf, s["hang"]))
            if len(hangs) >= 2:
                break       # fail fast: two hanging chunks are enough (each costs the full escalating wait)

    # ---------------------------------------------------------------- 5. TLC validates every recorded log
    dall = os.path.join(work, "gated-all.ndjson")
    with open(dall, "w") as f:
        for g in gfiles:
            f.write(open(g).read())
    def checked(tf, i):
        return checked_cfg(tf, "c08-tr%d" % i, trace_cfg.get(tf, T0))

    def checked_cfg(tf, wid, cfg):
        try:
            return validate_trace(tf, wid, cfg=cfg)
        except vlib.ToolError as e:
            # a log TLC cannot even evaluate (a field outside every domain of the model) is a rejected log, not a tool problem
            if "timed out" not in str(e) and ("Attempted to" in str(e) or "outside the domain" in str(e) or "not in the domain" in str(e)):
                r = vlib.TLCResult()
                r.violation = "postcondition"
                r.out = str(e)
                return r
            raise
    # Two levels.  Level 1: the code model (Trace_ThreadPool) must explain every record - it follows today's
    # implementation step by step (hook order, one Shutdown per stop, handle tables, monitor counts ...).
    # Level 2: the property by itself (Trace_PoolProp), from records that do not depend on the pool's internals.
    # Level 2 rejects => VIOLATION.  Level 1 rejects but level 2 accepts => SPEC-DRIFT (the model needs updating;
    # the property holds on that run), exit code unchanged.
    allf = rfiles + [dall]
    vjobs = [(("l1", tf), (lambda tf=tf, i=i: checked(tf, i))) for i, tf in enumerate(allf)]
    vjobs += [(("jg", tf), (lambda tf=tf, i=i: judge(tf, "c08-jf%d" % i))) for i, tf in enumerate(allf)]
    vres = par(vjobs, 4)
    validated_runs = 0
    judged_runs = 0
    clean_files = []        # accepted entirely by both levels: material for the self-test
    explained = [0]         # model states printed for drift reports (one extra TLC run each): only the first two
    for fi, tf in enumerate(allf):
        lines = open(tf).read().splitlines()
        resets = [i for i, ln in enumerate(lines) if '"Reset"' in ln]

        def bounds(pos):            # pos: 1-based record number -> [start, end) of its run, 0-based
            st = max([i for i in resets if i <= pos - 1] or [0])
            en = min([i for i in resets if i > st] or [len(lines)])
            return st, en
        hang = [h for (hf, h) in hangs if hf == tf]
        sat, badl, jr = vres[("jg", tf)]
        ctx.add_tlc("property-level judgement (Trace_PoolProp) of %s (%d records)" % (os.path.basename(tf), len(lines)), jr)
        judged_runs += len(resets)
        bad_runs = set()
        if not sat and not badl:
            raise vlib.ToolError("Trace_PoolProp failed without naming a record: %s" % jr.out[-800:])
        for x in badl:
            st, en = bounds(x["at"])
            if st in bad_runs:
                continue
            bad_runs.add(st)
            dev = None
            if hang and x["rec"].get("ev") == "C_Hang":
                # the harness saw a hang: is the log exactly what the (repaired) deviation predicts?
                r2 = validate_trace(tf, "c08-djr", cfg="Trace_ThreadPool_djr.cfg")
                if r2.violation is None and hang[0].get("what", "").startswith("drop()") and not hang[0].get("stop"):
                    dev = "DropJoinsRecovery"
            ctx.violation("recorded run violates C08 - %s (record %d: %s)%s" % (
                x["why"], x["at"] - st, json.dumps(x["rec"]), ("; " + json.dumps(hang[0])) if hang and x["rec"].get("ev") == "C_Hang" else ""),
                {"kind": "trace", "judge": x, "log": lines[st:en][:3000]}, dev=dev)
        # level 1, run by run after a rejection (one inexplicable run must not hide the others)
        r = vres[("l1", tf)]
        offset = 0
        cur = tf
        for attempt in range(4):
            nrec = len(lines) - offset
            ctx.add_tlc("trace validation (code model) of %s%s (%d records)" % (os.path.basename(tf), "" if attempt == 0 else " after record %d" % offset, nrec), r)
            if r.violation is None:
                validated_runs += sum(1 for i in resets if i >= offset)
                if attempt == 0 and sat and lines:
                    clean_files.append(tf)
                break
            if r.violation != "postcondition":
                if not bad_runs:
                    ctx.drift("code model ThreadPool.tla (recorded runs)", "invariant %s of the code model fails on a state of a recorded run of %s; every run of the "
                              "file satisfies C08 as judged by Trace_PoolProp" % (r.violated_name, os.path.basename(tf)),
                              {"kind": "trace", "file": os.path.basename(tf), "tlc": r.trace[-120:]})
                break
            rej = rejection(r)
            pos = (rej["rejected_at"] if rej else 1) + offset
            st, en = bounds(pos)
            validated_runs += sum(1 for i in resets if offset <= i < st)
            if st not in bad_runs:
                mst = None
                if rej and explained[0] < 2:
                    explained[0] += 1
                    mst = model_state_before(cur, pos - offset, work)
                ctx.drift("code model ThreadPool.tla (recorded runs)",
                          "record %d of a run (%s) is not explained by the code model; model state before it: %s - the run satisfies C08 as judged by Trace_PoolProp" % (
                              pos - st, json.dumps(lines[min(pos - 1, len(lines) - 1)])[:300], json.dumps(mst)),
                          {"kind": "trace", "rejected_at": pos - st, "model_state": mst, "log": lines[st:en][:3000]})
            # one inexplicable run must not hide the others - but a tree that drifts everywhere is not worth many passes
            if en >= len(lines) or attempt == 3 or len(ctx.drifts) >= 8:
                break
            offset = en
            cur = os.path.join(work, "rest-%d-%d.ndjson" % (fi, attempt))
            with open(cur, "w") as f:
                f.write("\n".join(lines[offset:]) + "\n")
            r = checked_cfg(cur, "c08-trr%d" % fi, trace_cfg.get(tf, T0))
    ctx.add_part("randomised real runs", runs=total_runs, events=total_events, lifecycle_shapes=shapes, runs_with_monitor_stream=monitored, barrier_runs_n_tasks_waiting_for_each_other=barriers, runs_with_restart=restarts, runs_with_tasks_outliving_stop_and_drop=outliving,
                 distinct_interleavings=len(fingerprints), hangs=len(hangs),
                 runs_judged_by_property_alone=judged_runs, spec_drifts=len(ctx.drifts))

    # ---------------------------------------------------------------- the exhaustive runs started at the beginning
    for cfg, w in mcs:
        r = mc_futs[cfg].result()
        n, t = cfg_consts(cfg)
        ctx.add_tlc("exhaustive N=%d tasks<=%d starts<=%d all panic subsets all scripts, Dev={} (%s)" % (n, t, cfg_gens(cfg), cfg), r)
        ctx.require_tlc_ok(cfg, r)
        if r.violation is None:
            ctx.require_cover(cfg, r, ACTIONS)
    bg.shutdown()

    # ---------------------------------------------------------------- 6. the binding rejects corrupted inputs
    if not ctx.violations:
        selftest(ctx, pool_bin, work, clean_files, behaviours if not fails else None)

    ctx.cov["evaluations"] = n_ok + len(fails) + total_runs
    ctx.cov["distinct_nontrivial"] = nontrivial_beh + len(fingerprints)
    ctx.cov["traces_validated_against_impl"] = validated_runs
    ctx.cov["rule"] = ("evaluations = real executions of the pool: TLC behaviours forced step by step (gated) + randomised runs; "
                       "non-trivial = distinct forced behaviours (by action sequence) in which at least one task body is entered + "
                       "distinct event interleavings (fnv64 of the whole log) of random runs with at least one task; "
                       "traces_validated = runs whose complete hook log TLC accepted with Trace_ThreadPool (random and gated runs)")
    ctx.cov["exhaustive"] = True
    ctx.assumptions += [
        "std::sync::mpsc is FIFO per sender and recv fails only when every Sender is gone and the queue is empty; Mutex gives mutual exclusion",
        "task bodies terminate; thread spawning does not fail",
        "the hook callback and the [a,b] arguments at the points in thread/pool.rs, thread/recovery.rs are the only trusted projection; liveness of threads is read from /proc/self/task",
        "DESIGN 5a: execute only between start and stop; the recovery thread is not a worker thread (it never ends by construction)",
        "liveness is checked under weak fairness of the caller, each worker and the recovery thread",
    ]
    return ctx.finish()


def selftest(ctx, pool_bin, work, clean_files, behaviours):
    """Both levels must see what they are meant to see, otherwise the check is blind (exit 2):
    - a log corrupted in a hook detail is rejected by the code model and ACCEPTED by the property-level judge
      (such a difference on a real tree would be SPEC-DRIFT, not a violation);
    - a log corrupted in what the property is about (a body entered twice, a body never entered, a call that
      never returned, live workers at the end) is rejected by both;
    - a behaviour with a corrupted expectation is reported as a divergence by the gated replay.
    The corruptions are applied to material of THIS run that both levels accepted; on a tree whose runs the code
    model no longer explains (drift) there may be none - the part is then skipped and said so."""
    recs = []
    for tf in clean_files:
        lines = open(tf).read().splitlines()[:4000]
        resets = [i for i, ln in enumerate(lines) if '"Reset"' in ln]
        if len(resets) >= 2:
            lines = lines[:resets[-1]]          # cut at a run boundary
        elif len(lines) == 4000:
            continue
        cand = [json.loads(ln) for ln in lines]
        if any(r["ev"] == "Task_Start" for r in cand) and any(r["ev"] == "Quiesced" for r in cand):
            recs = cand
            break
    if not recs:
        ctx.add_part("binding self-test", skipped="no recorded material of this run was accepted by both levels (see SPEC-DRIFT lines)")
        return
    muts = []   # (what, records, the property-level judge must reject it)

    def first(pred):
        return next((k for k, r in enumerate(recs) if pred(r)), None)
    i = first(lambda r: r["ev"] == "Worker_Recv" and r["b"] == 0)
    if i is not None:
        m = copy.deepcopy(recs)
        m[i]["b"] = 2
        muts.append(("Worker_Recv reports a disconnected channel instead of a task", m, False))
    i = first(lambda r: r["ev"] == "Worker_Lock")
    if i is not None:
        m = copy.deepcopy(recs)
        del m[i]
        muts.append(("one Worker_Lock record dropped", m, False))
    i = first(lambda r: r["ev"] == "Rec_Joined" and r["b"] == 1)
    if i is not None:
        m = copy.deepcopy(recs)
        m[i]["b"] = 0
        muts.append(("Rec_Joined claims the handle was gone", m, False))
    i = first(lambda r: r["ev"] == "Task_Start")
    if i is not None:
        m = copy.deepcopy(recs)
        m.insert(i + 1, dict(m[i]))
        muts.append(("a task body entered twice", m, True))
        m = copy.deepcopy(recs)
        del m[i]
        muts.append(("a task body never entered", m, True))
    i = first(lambda r: r["ev"] == "C_Ret" and r["a"] == 4)
    if i is not None:
        m = copy.deepcopy(recs)
        del m[i]
        muts.append(("drop() never returned (caller-level record; the code model only follows the hooks)", m, True))
    i = first(lambda r: r["ev"] == "Quiesced")
    if i is not None:
        m = copy.deepcopy(recs)
        m[i]["b"] = 1
        muts.append(("a worker thread still alive at the end", m, True))
    jobs = []
    for k, (what, m, prop) in enumerate(muts):
        tf = os.path.join(work, "mut-%d.ndjson" % k)
        vlib.write_lines(tf, m)
        jobs.append((("l1", what), (lambda tf=tf, k=k: validate_trace(tf, "c08-mut%d" % k))))
        jobs.append((("jg", what), (lambda tf=tf, k=k: judge(tf, "c08-mutj%d" % k))))
    out = par(jobs, 4)
    rejected = 0
    judged = 0
    for what, m, prop in muts:
        if out[("l1", what)].violation is None and "caller-level" not in what:
            raise vlib.ToolError("binding self-test: corrupted log accepted by Trace_ThreadPool (%s)" % what)
        rejected += 1 if out[("l1", what)].violation is not None else 0
        sat = out[("jg", what)][0]
        if prop and sat:
            raise vlib.ToolError("binding self-test: Trace_PoolProp accepted a log that violates the property (%s)" % what)
        if not prop and not sat:
            raise vlib.ToolError("binding self-test: Trace_PoolProp rejected a log that differs only in a hook detail (%s): %s" % (what, out[("jg", what)][1][:2]))
        judged += 1
    # corrupted behaviours (only when the uncorrupted ones were followed by the real code in this run)
    bad = []
    for b in (behaviours or []):
        k = next((j for j, s in enumerate(b["steps"]) if s["a"] == "Worker_Recv" and s["x"] == 0), None)
        if k is not None and b.get("complete"):
            m = copy.deepcopy(b)
            m["steps"][k]["x"] = 1
            m["id"] = 900001
            bad.append(("Worker_Recv expected to see Shutdown where a task is queued", m))
            break
    for b in (behaviours or []):
        k = next((j for j, s in enumerate(b["steps"]) if s["a"] == "Worker_Run"), None)
        if k is not None and b.get("complete"):
            m = copy.deepcopy(b)
            m["steps"][k]["x"] += 1
            m["id"] = 900002
            bad.append(("Worker_Run expected to start another task", m))
            break
    caught = 0
    for what, m in bad:
        n_ok, fails, files, steps, skipped = run_gated(pool_bin, [m], work, "mut")
        f = fails[0][1] if fails else {}
        if (f.get("diverged") or {}).get("kind") != "mismatch" or not f.get("completed"):
            raise vlib.ToolError("binding self-test: corrupted behaviour not reported as a divergence by the gated replay (%s): %s" % (what, f))
        sat = judge_lines(fails[0][2], work, "c08-mutb")[0] if fails[0][2] else False
        if not sat:
            raise vlib.ToolError("binding self-test: the freely completed run after a divergence was not accepted by Trace_PoolProp (%s)" % what)
        caught += 1
    ctx.add_part("binding self-test", corrupted_logs_rejected_by_code_model=rejected, corrupted_logs_judged_correctly_by_property=judged,
                 corrupted_behaviours_reported_as_divergence=caught)


def _replay(ctx, pool_bin, work, replay):
    case = json.load(open(replay)).get("case", {})
    ctx.cov["evaluations"] = 1
    if case.get("kind") == "gated":
        b = case["behaviour"]
        b.setdefault("id", 0)
        n_ok, fails, files, steps, skipped = run_gated(pool_bin, [b], work, "replay")
        for bb, f, log in fails:
            sat = judge_lines(log, work, "c08-replayj")[0] if log else False
            if "crash" not in f and f.get("completed") and sat:
                ctx.drift("code model ThreadPool.tla (forced schedule)", "replayed behaviour diverges from the model but satisfies C08: %s" % json.dumps(f.get("diverged")),
                          {"kind": "gated", "behaviour": bb, "result": f})
            else:
                ctx.violation("gated replay: %s" % json.dumps({k: f.get(k) for k in ("diverged", "hang", "crash")}), {"kind": "gated", "behaviour": bb, "result": f})
        if not fails:
            r = validate_trace(files[0], "c08-replay")
            ctx.add_tlc("trace validation of the replayed run", r)
            sat, badl, jr = judge(files[0], "c08-replayj")
            if not sat:
                ctx.violation("replayed run violates C08: %s" % json.dumps(badl[:2]), {"kind": "trace", "log": open(files[0]).read().splitlines()})
            elif r.violation:
                ctx.drift("code model ThreadPool.tla (recorded runs)", "replayed run not explained by the code model", {"kind": "trace"})
    elif case.get("kind") == "trace" and case.get("log"):
        tf = os.path.join(work, "replay.ndjson")
        with open(tf, "w") as f:
            f.write("\n".join(case["log"]) + "\n")
        r = validate_trace(tf, "c08-replay")
        ctx.add_tlc("trace validation of the stored log", r)
        sat, badl, jr = judge(tf, "c08-replayj")
        if not sat:
            ctx.violation("stored log violates C08: %s" % json.dumps(badl[:2]), case)
        elif r.violation:
            ctx.drift("code model ThreadPool.tla (recorded runs)", "stored log not explained by the code model: %s" % json.dumps(rejection(r)), case)
    else:
        raise vlib.ToolError("replay file has no replayable case")
    ctx.cov["distinct_nontrivial"] = 2
    ctx.cov["rule"] = "replay of one stored case"
    ctx.sample(case.get("kind"))
    return ctx.finish()
