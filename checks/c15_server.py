"""C15, spec growth "serverapp" - the RUNNING server built from a configuration behaves as the configuration says.

spec/serverapp/ServerApp.tla: a configuration (hosts in file order with their routes in file order: pattern, type,
target, `websocket` target; default host; server-level `websocket`; log level and sinks; cache; threads; timeout),
Serve(cfg, request) = which configured route answers and with what class of answer, the same question answered the
way main()/init_app_routes/get_handler/inner_request_handler/inner_websocket_handler do it (CodeAnswer), the log
masks and the Logger's gates, one connection with keep-alive and the file cache, and proxy_websocket's byte pump.

run_part(ctx, tier):
1. TLC, exhaustive: every configuration of the bound x every request of the bound: CodeAnswer = Serve,
   RouteOrderRespected, HostOrderRespected, RedirectExact, WsProxiedIffConfigured, independence of the other settings,
   LogLevelMonotone / MaskExact / NoSilentDrop, LinesMonotone, CacheCoherent; the pump machine: order, no loss, close
   after data, both streams dropped at exit, close propagation and delivery (liveness).  Vacuity guards: every action of
   the configuration graph (edge labels of the dumped graph - `-coverage` does not terminate on this module) and of
   the pump machine (-coverage) is taken.
2. Sensitivity: the genuine deviation PumpIgnoresEof (the code as found, repaired by 68bdbad) and 16 plausible bugs
   must each be refuted by TLC.
3. spec -> code: TLC prints a seeded family of configurations with the standard session (every request of the bound
   on its own connection, kept-alive connections, a non-HTTP request, silence up to the timeout, a request while all
   workers are held) and the expected answer of every step, the pump script with its expected outcome for every
   proxied upgrade, and the expected log lines; harness/src/bin/serverapp.rs renders each configuration to a real
   file, starts the REAL `humphrey` binary, plays the session (plain TCP; upgrade + masked frames both ways through the
   pump; either side closes) and compares.  The observations are also logged and validated by TLC (Trace_ServerApp).
4. code -> spec: random, wider configurations and sessions on the real server, logged, validated by Trace_ServerApp.
5. binding self-test: a corrupted expectation in a vector and corrupted observations in a log must be rejected (and
   the log with a missed close must be accepted under Dev = {PumpIgnoresEof}: the deviation models the code as found).

The owner of checks/c15.py calls run_part(ctx, tier); `python3 checks/c15_server.py quick|thorough` runs it alone
(evidence and replay files then go to .work/C15srv, never to evidence/C15.json)."""
import copy
import json
import os
import re
import shutil
import sys
import time
from concurrent.futures import ThreadPoolExecutor

sys.path.insert(0, os.path.join(os.path.dirname(os.path.dirname(os.path.abspath(__file__))), "lib"))
sys.path.insert(0, os.path.dirname(os.path.abspath(__file__)))
import vlib
from vlib import run_tlc, build_harness, run_bin, parse_jsonl, SPEC

D = os.path.join(SPEC, "serverapp")
GENUINE = ["PumpIgnoresEof"]
BUGS = ["HostIndexOffByOne", "RoutesReversed", "LastHostWins", "WsRouteForEvery", "WsOnlyFallsThrough", "DefaultWsHonoured",
        "Redirect302", "RedirectAppendsPath", "CacheKeyIgnoresHost", "WarnMaskMissesTimeout", "DebugGateIsInfo",
        "MonitorSeverityByLevel", "PumpEcho", "PumpTruncatesChunk", "PumpEofDropsTail", "PumpLeavesOtherOpen"]
BUGS_QUICK = ["HostIndexOffByOne", "RoutesReversed", "WsRouteForEvery", "RedirectAppendsPath", "WarnMaskMissesTimeout",
              "PumpTruncatesChunk", "PumpLeavesOtherOpen"]
GROW_ACTIONS = ["AddDefRoute", "AddHost", "AddHostRoute"]
PUMP_ACTIONS = ["P_ReadSrc", "P_ReadDst", "P_WriteDst", "P_WriteSrc", "P_Park", "E_ClientSend", "E_TargetSend", "E_ClientClose",
                "E_TargetClose"]
TO = 2400


def build_server():
    import c19      # one cargo target dir per checkout, never /repo/target (see c19.build_server)
    return c19.build_server()


def tlc(cfg, module="MC_ServerApp.tla", **kw):
    kw.setdefault("timeout", TO)
    kw.setdefault("work_id", "c15srv" + re.sub(r"\W", "", cfg)[:24])
    return run_tlc(module, cfg, D, **kw)


def harness(sabin, args, stdin_data=None, what=""):
    p = run_bin(sabin, args, stdin_data=stdin_data, timeout=2400)
    out = parse_jsonl(p.stdout)
    summ = [x for x in out if x.get("summary")]
    if p.returncode != 0 or not summ:
        raise vlib.ToolError("serverapp %s failed rc=%s: %s" % (what, p.returncode, p.stderr[-2000:]))
    s = summ[0]
    if s["errors"]:
        raise vlib.ToolError("serverapp %s: %s" % (what, s["errors"][:3]))
    return s, [x["mismatch"] for x in out if "mismatch" in x], [x["rec"] for x in out if "rec" in x]


def validate(recs, path, cfg="Trace_ServerApp.cfg", label=""):
    vlib.write_lines(path, recs)
    t = tlc(cfg, module="Trace_ServerApp.tla", workers=1, env={"TRACE": path}, deque=True, heap="3g")
    summ = [x for x in t.prints if isinstance(x, dict) and "records" in x]
    if not summ:
        raise vlib.ToolError("Trace_ServerApp (%s) printed no summary:\n%s" % (label, t.out[-1500:]))
    if summ[-1]["records"] != len(recs):
        raise vlib.ToolError("Trace_ServerApp (%s) read %d of %d records" % (label, summ[-1]["records"], len(recs)))
    return t, summ[-1]


def text(chars):
    return "".join(chars)


def describe_step(st):
    rq = st["rq"]
    return "%s %s%s" % (st.get("op") or rq.get("kind", "?"), ("Host: %s " % text(rq["host"])) if rq["hh"] else "(no Host) ", text(rq["path"]))


def conf_of(cfg):
    """A readable rendering of a model configuration (the harness writes the real file; this is for messages)."""
    def routes(rs, ind):
        return "".join("%sroute %s { %s%s%s }\n" % (ind, text(r["pat"]), r["type"] if r["type"] != "websocket" else "",
                                                   (" #%d" % r["tgt"]) if r["tgt"] else "",
                                                   (" websocket #%d" % r["wt"]) if r["wt"] else "") for r in rs)
    s = "threads %d timeout %d websocket #%d log %s console=%s file=%s cache=%s\n" % (
        cfg["threads"], cfg["timeout"], cfg["dws"], cfg["level"], cfg["console"], cfg["file"], cfg["cache"])
    s += routes(cfg["def"], "")
    for h in cfg["hosts"]:
        s += 'host "%s" {\n%s}\n' % (text(h["pat"]), routes(h["routes"], "  "))
    return s


def report_mismatches(ctx, mm, source):
    seen = {}
    for m in mm:
        key = (m["what"], json.dumps(m.get("exp"), sort_keys=True), json.dumps(m.get("got"), sort_keys=True)[:60])
        seen.setdefault(key, []).append(m)
    for (what, exp, got), ms in list(seen.items())[:12]:
        m = ms[0]
        if what in ("answer", "pump", "the connection was closed before this step"):
            msg = ("%s: %d step(s): %s: the configuration demands %s%s, the server %s; configuration file:\n%s" % (
                source, len(ms), describe_step(m) if "rq" in m else "?", exp,
                (" then the scripted exchange over the pump (first difference: %s)" % json.dumps(m.get("pump_diff"))) if what == "pump" else "",
                ("answered " + got) if what != "the connection was closed before this step"
                else "did not get that far (it had closed the connection, or had stopped answering altogether)",
                m.get("conf", "")))
        else:
            msg = "%s: %s; configuration file:\n%s" % (source, what, m.get("conf", ""))
        dev = None
        if what == "pump" and m.get("pump_diff", {}).get("ev") in ("teof", "ceof") and m["pump_diff"].get("expected_seen") is True:
            dev = "PumpIgnoresEof"      # the other side was not closed: exactly the deviation (if it is listed open)
        ctx.violation(msg, {"kind": "c15srv-vector", "what": what, "cases": len(ms), "cfg": m.get("cfg"), "conf": m.get("conf"),
                            "conn": m.get("conn"), "step": m.get("step"), "op": m.get("op"), "rq": m.get("rq"), "ka": m.get("ka"),
                            "allowed_by_spec": m.get("exp"), "observed": m.get("got"), "pump_diff": m.get("pump_diff")}, dev=dev)


def report_rejected(ctx, summ, recs, path, source):
    """Records Trace_ServerApp could not explain; one whose only trouble is a close that was not propagated, and that the
    trace spec accepts under Dev = {PumpIgnoresEof}, is attributed to that deviation."""
    for rj in summ["rejected"][:8]:
        rec = recs[rj["index"] - 1]
        dev = None
        if all(d["what"] == "pump" for d in rj["diffs"]):
            t2, s2 = validate([rec], path, cfg="Trace_ServerApp_dev_PumpIgnoresEof.cfg", label=source + " attribution")
            if not s2["rejected"]:
                dev = "PumpIgnoresEof"
        d0 = rj["diffs"][0]
        where = ""
        if d0["i"]:
            st = rec["conns"][d0["i"] - 1][d0["j"] - 1]
            where = " at connection %d step %d (%s): observed %s, the configuration demands %s" % (
                d0["i"], d0["j"], describe_step(st), json.dumps(st["obs"]), json.dumps(d0["expected"]))
        msg = "%s: server run %d is not a behaviour of ServerApp: %s%s; configuration:\n%s" % (
            source, rj["index"], ", ".join(d["what"] for d in rj["diffs"]), where, conf_of(rec["cfg"]))
        small = dict(rec)
        if d0["i"]:
            small = dict(rec, conns=[rec["conns"][d0["i"] - 1]])
        ctx.violation(msg, {"kind": "c15srv-trace", "diffs": rj["diffs"], "expected_lines": rj["lines"], "record": small}, dev=dev)


def corrupt_vectors(prints):
    """One flipped expectation per vector; the harness must flag every one of them."""
    out = []
    ups = [x for x in prints if x["startup"] == "up"]
    want = [("redirect", lambda e: dict(e, tgt=e["tgt"] % 3 + 1)), ("notfound", lambda e: dict(e, cls="wsonly")),
            ("proxied", lambda e: dict(e, tgt=3 - e["tgt"])), ("eof", lambda e: dict(e, cls="notfound")),
            ("file", lambda e: dict(e, cls="directory"))]
    for cls, f in want:
        for x in ups:
            hit = [(i, j) for i, c in enumerate(x["conns"]) for j, st in enumerate(c) if st["reached"] and st["exp"]["cls"] == cls]
            if hit:
                i, j = hit[len(hit) // 2]
                y = {"cfg": x["cfg"], "startup": x["startup"], "conns": [copy.deepcopy(x["conns"][i])], "flines": [], "clines": []}
                y["conns"][0][j]["exp"] = f(y["conns"][0][j]["exp"])
                out.append((y, j))
                break
    pumps = [(x, i, j) for x in ups for i, c in enumerate(x["conns"]) for j, st in enumerate(c) if st["reached"] and st["pump"]]
    if pumps:
        x, i, j = pumps[len(pumps) // 2]
        y = {"cfg": x["cfg"], "startup": x["startup"], "conns": [copy.deepcopy(x["conns"][i])], "flines": [], "clines": []}
        ev = [e for e in y["conns"][0][j]["pump"] if e["ev"] in ("tgot", "cgot") and e["data"]][-1]
        ev["data"][len(ev["data"]) // 2] ^= 1          # one expected byte differs
        out.append((y, j))
    star = [x for x in prints if x["startup"] == "panic"]
    if star:
        y = copy.deepcopy(star[0])
        y["startup"] = "up"
        y["conns"] = []
        out.append((y, -1))
    return out


def corrupt_records(recs):
    """(record, difference the trace spec must name)"""
    out = []
    ups = [r for r in recs if r["startup"] == "up"]
    for r in ups:
        hit = [(i, j) for i, c in enumerate(r["conns"]) for j, st in enumerate(c) if st["obs"]["cls"] in ("file", "directory", "redirect", "proxy")]
        if hit:
            i, j = hit[len(hit) // 2]
            y = copy.deepcopy(r)
            y["conns"][i][j]["obs"]["tgt"] = y["conns"][i][j]["obs"]["tgt"] % 2 + 1 if y["conns"][i][j]["obs"]["cls"] != "redirect" else y["conns"][i][j]["obs"]["tgt"] % 3 + 1
            out.append((y, "answer"))
            break
    for r in ups:
        if r["flines"]:
            y = copy.deepcopy(r)
            k = [q for q, l in enumerate(y["flines"]) if l["what"] != "ThreadPoolOverload"]
            if k:
                y["flines"][k[-1]]["n"] += 1
                out.append((y, "file-lines"))
                break
    for r in ups:
        if r["clines"] and r["cfg"]["level"] in ("warn", "info", "debug"):
            y = copy.deepcopy(r)       # a warn line below its level: pretend the 400 was not logged
            k = [q for q, l in enumerate(y["clines"]) if l["what"] == "RequestServedError"]
            if k:
                del y["clines"][k[0]]
                out.append((y, "console-lines"))
                break
    pumps = [(r, i, j) for r in ups for i, c in enumerate(r["conns"]) for j, st in enumerate(c) if st["obs"]["cls"] == "proxied"]
    if pumps:
        r, i, j = pumps[len(pumps) // 2]
        y = copy.deepcopy(r)
        ev = [e for e in y["conns"][i][j]["pump"] if e["ev"] in ("tgot", "cgot") and e["data"]][0]
        ev["data"] = ev["data"][:-1]           # the last byte did not arrive
        out.append((y, "pump"))
        y = copy.deepcopy(r)                   # no close is ever propagated (the code as found)
        for c in y["conns"]:
            for st in c:
                for e in st["pump"]:
                    if e["ev"] in ("teof", "ceof"):
                        e["seen"] = False
        out.append((y, "pump-eof"))
    return out


def run_part(ctx, tier):
    thorough = tier == "thorough"
    t_start = time.time()
    bindir = build_harness(["serverapp"])
    sabin = os.path.join(bindir, "serverapp")
    server = build_server()
    work = os.path.join(vlib.workdir("C15srv"), "run-%d" % os.getpid())
    os.makedirs(work, exist_ok=True)
    try:
        return _run(ctx, thorough, sabin, server, work, t_start)
    finally:
        shutil.rmtree(work, ignore_errors=True)


def _run(ctx, thorough, sabin, server, work, t_start):
    tname = "thorough" if thorough else "quick"
    seed = ctx.seed
    gen_base = 1000 + (seed % 250) * 1000
    gen_count = 320 if thorough else 30
    n_random = 320 if thorough else 20
    mains = (["MC_ServerApp_thorough.cfg", "MC_ServerApp_thorough_hosts.cfg", "MC_ServerApp_thorough_routes.cfg",
              "MC_ServerApp_thorough_hostroutes.cfg"] if thorough else ["MC_ServerApp_quick.cfg"])
    bugs = BUGS if thorough else BUGS_QUICK
    dump = os.path.join(work, "graph.dot")

    jobs = {}
    ex = ThreadPoolExecutor(max_workers=4 if thorough else 5)
    # generation first: the replay on the real server runs while TLC is still exploring
    jobs["gen"] = ex.submit(tlc, "Gen_ServerApp.cfg", workers=4, env={"GEN_BASE": gen_base, "GEN_COUNT": gen_count}, heap="4g")
    for c in mains:
        jobs[c] = ex.submit(tlc, c, workers=4 if thorough else 3, heap="4g")
    jobs["pump"] = ex.submit(tlc, "MC_ServerApp_pump_%s.cfg" % tname, workers=2, coverage=True, heap="2g")
    jobs["cover"] = ex.submit(tlc, "MC_ServerApp_cover.cfg", workers=1, dump=dump, heap="1g")
    for d in GENUINE:
        jobs["dev:" + d] = ex.submit(tlc, "MC_ServerApp_dev_%s.cfg" % d, workers=1, heap="1g")
    for b in bugs:
        jobs["bug:" + b] = ex.submit(tlc, "MC_ServerApp_bug_%s.cfg" % b, workers=1, heap="1g")

    try:
        # ---- 3. spec -> code ----------------------------------------------------------------------
        g = jobs["gen"].result()
        # two seeds may yield the same configuration (TLC prints each distinct one once)
        if g.violation or len(g.prints) < gen_count * 3 // 4:
            raise vlib.ToolError("generation failed (%s, %d records): %s" % (g.violation, len(g.prints), g.out[-1500:]))
        ctx.add_tlc("vector generation Gen_ServerApp.cfg: configurations CfgOf(%d..%d) with the standard session, expected answers, "
                    "pump outcomes and log lines" % (gen_base, gen_base + gen_count - 1), g)
        vectors = g.prints
        data = "".join(json.dumps(x) + "\n" for x in vectors)
        s, mm, recs = harness(sabin, ["replay", server, work, "8"], stdin_data=data, what="replay")
        if s["records"] != len(vectors) or len(recs) != len(vectors):
            raise vlib.ToolError("harness consumed %d of %d vectors" % (s["records"], len(vectors)))
        planned = sum(len(c) for x in vectors if x["startup"] == "up" for c in x["conns"])
        if s["steps"] != planned:
            raise vlib.ToolError("harness played %d of %d steps" % (s["steps"], planned))
        fut_trace1 = ex.submit(validate, recs, os.path.join(work, "replay.ndjson"), "Trace_ServerApp.cfg", "replayed vectors")
        nontrivial = sum(v for k, v in s["by_class"].items() if k not in ("notfound", "eof"))
        ctx.cov["evaluations"] += s["steps"]
        ctx.cov["distinct_nontrivial"] += nontrivial
        ctx.add_part("serverapp vectors", **{k: v for k, v in s.items() if k not in ("samples", "summary", "errors")})
        for x in s["samples"][:3]:
            ctx.sample(x)
        report_mismatches(ctx, mm, "vectors")
        if s["mismatches"] and not mm:
            ctx.violation("vectors: %d mismatches (details truncated)" % s["mismatches"], {"kind": "c15srv-truncated"})

        # ---- 4. code -> spec ----------------------------------------------------------------------
        s2, _, recs2 = harness(sabin, ["random", server, work, str(n_random), "8"], what="random")
        if len(recs2) != n_random:
            raise vlib.ToolError("random: %d of %d server runs were recorded" % (len(recs2), n_random))
        fut_trace2 = ex.submit(validate, recs2, os.path.join(work, "random.ndjson"), "Trace_ServerApp.cfg", "random sessions")
        t1, summ1 = fut_trace1.result()
        ctx.add_tlc("trace validation of the %d replayed server runs (%d steps, %d pumped exchanges, log lines of both sinks)" % (
            summ1["records"], summ1["steps"], summ1["pumps"]), t1)
        report_rejected(ctx, summ1, recs, os.path.join(work, "attr.ndjson"), "replayed vectors (log)")
        t2, summ2 = fut_trace2.result()
        ctx.add_tlc("trace validation of %d random server runs (%d steps, %d pumped exchanges, log lines of both sinks)" % (
            summ2["records"], summ2["steps"], summ2["pumps"]), t2)
        report_rejected(ctx, summ2, recs2, os.path.join(work, "attr.ndjson"), "random sessions")
        ctx.cov["evaluations"] += s2["steps"]
        ctx.cov["distinct_nontrivial"] += sum(v for k, v in s2["by_class"].items() if k not in ("notfound", "eof"))
        ctx.cov["traces_validated_against_impl"] += summ1["records"] + summ2["records"]
        ctx.add_part("serverapp random", **{k: v for k, v in s2.items() if k not in ("samples", "summary", "errors")})

        # "Thread pool overloaded" is timing: its count is free where the level prints it (ServerApp!LinesAgree); say how often
        # the line the model expects (a request that waited for a worker) was really there
        sat = [r for r in recs + recs2 if r["startup"] == "up" and r["cfg"]["level"] != "error" and (r["cfg"]["console"] or r["cfg"]["file"])
               and any(st["op"] == "sat" and st["obs"]["cls"] != "skipped" for c in r["conns"] for st in c)]
        sat_seen = sum(1 for r in sat if any(l["what"] == "ThreadPoolOverload" for l in r["flines"] + r["clines"]))
        ctx.add_part("serverapp overload line", sessions_with_a_request_that_waited_for_a_worker=len(sat), of_which_logged_the_overload=sat_seen)
        if sat and not sat_seen:
            ctx.assumptions.append("serverapp: no 'Thread pool overloaded' line was seen in %d sessions that made a request wait > 300 ms" % len(sat))

        # ---- 5. binding self-test (only meaningful on a clean validation) ---------------------------
        if not ctx.violations and not ctx.known_hits:
            bad = corrupt_vectors(vectors)
            if len(bad) < 5:
                raise vlib.ToolError("binding self-test: only %d corruptible vectors found" % len(bad))
            flagged = 0
            for y, j in bad:
                sc, mc, _ = harness(sabin, ["replay", server, work, "1"], stdin_data=json.dumps(y) + "\n", what="self-test")
                if sc["mismatches"] >= 1 and (j < 0 or any(m.get("step") == j for m in mc)):
                    flagged += 1
            if flagged != len(bad):
                raise vlib.ToolError("binding self-test: %d corrupted expectations, the harness flagged %d" % (len(bad), flagged))
            badr = corrupt_records(recs + recs2)
            if len(badr) < 4:
                raise vlib.ToolError("binding self-test: only %d corruptible records found" % len(badr))
            tb, sb = validate([y for y, _ in badr], os.path.join(work, "corrupt.ndjson"), label="self-test")
            named = {rj["index"]: {d["what"] for d in rj["diffs"]} for rj in sb["rejected"]}
            for k, (y, what) in enumerate(badr):
                want = "pump" if what == "pump-eof" else what
                if want not in named.get(k + 1, set()):
                    raise vlib.ToolError("binding self-test: corrupted record %d (%s) was not rejected by Trace_ServerApp (%s)" % (
                        k + 1, what, named.get(k + 1)))
            eofs = [y for y, what in badr if what == "pump-eof"]
            if eofs:
                td, sd = validate(eofs, os.path.join(work, "corrupt2.ndjson"), cfg="Trace_ServerApp_dev_PumpIgnoresEof.cfg", label="self-test dev")
                if sd["rejected"]:
                    raise vlib.ToolError("Dev={PumpIgnoresEof} does not explain a log in which the other side was not closed")
            ctx.add_part("serverapp binding self-test", corrupted_vectors=len(bad), flagged_by_harness=flagged,
                         corrupted_records=len(badr), rejected_by_trace_spec=len(sb["rejected"]),
                         missed_close_accepted_under_Dev_PumpIgnoresEof=bool(eofs))

        # ---- 1./2. model checking results ----------------------------------------------------------
        res = {k: f.result() for k, f in jobs.items() if k != "gen"}
    finally:
        ex.shutdown(wait=True, cancel_futures=True)

    for c in mains:
        r = res[c]
        ctx.add_tlc("every configuration of the bound x every request: CodeAnswer = Serve, route/host order, redirect, "
                    "websocket proxying, independence, log masks%s, Dev={} (%s)" % (
                        "" if "Inv_LinesMonotone" not in open(os.path.join(D, c)).read() else ", lines monotone, cache coherent", c), r)
        ctx.require_tlc_ok(c, r)
    r = res["cover"]
    counts = {}
    with open(dump, errors="replace") as f:
        for line in f:
            m = re.search(r'->.*label="(\w+)"', line)
            if m:
                counts[m.group(1)] = counts.get(m.group(1), 0) + 1
    os.remove(dump)
    r.coverage = {a: (c, c) for a, c in counts.items()}
    ctx.add_tlc("vacuity guard: every action of the configuration graph is taken (edge labels of the dumped graph)", r)
    ctx.require_tlc_ok("MC_ServerApp_cover", r)
    ctx.require_cover("MC_ServerApp_cover", r, GROW_ACTIONS)
    r = res["pump"]
    ctx.add_tlc("proxy_websocket pump: order, no loss, close after data, exit drops both streams, close propagates, "
                "delivery (liveness), Dev={}", r)
    ctx.require_tlc_ok("MC_ServerApp_pump_%s" % tname, r)
    ctx.require_cover("MC_ServerApp_pump", r, PUMP_ACTIONS)
    for d in GENUINE:
        r = res["dev:" + d]
        ctx.add_tlc("sensitivity: Dev={%s} (the code as found) must violate a pump property" % d, r)
        if r.violation is None:
            raise vlib.ToolError("model lost sensitivity: Dev={%s} no longer violates anything" % d)
    for b in bugs:
        r = res["bug:" + b]
        ctx.add_tlc("sensitivity: Dev={%s} must violate an invariant" % b, r)
        if r.violation is None:
            raise vlib.ToolError("model lost sensitivity: Dev={%s} no longer violates anything" % b)

    ctx.assumptions += [
        "serverapp: Serve(cfg, rq) in ServerApp.tla is the meaning of a configuration for one request; the harness builds `humphrey` "
        "without the tls and plugins features",
        "serverapp: modelled as the code behaves, reported as differences from the documentation: the server-level `websocket` key is "
        "never used; redirects answer 301 (docs: 302); a websocket-only route answers plain requests 404 and shadows later routes; "
        "upgrade requests are dispatched over the routes that have a `websocket` key only; `host \"*\"` panics at start-up; "
        "the monitor prints 'Request error' lines for status 400 only; a `file` route whose file is missing panics in the worker",
        "serverapp: log lines are compared as counts per (severity tag, message shape); the count of 'Thread pool overloaded' is free "
        "wherever the level prints it (it depends on scheduling) and must be 0 where the level does not",
        "serverapp: the pump's kernel buffers are never full in the model (write_all on the non-blocking sockets never sees WouldBlock); "
        "exchanges up to 5000 bytes per frame are played",
    ]
    ctx.add_part("serverapp", tier=tname, wall_s=round(time.time() - t_start, 1), gen_base=gen_base, vectors=len(vectors),
                 random_server_runs=n_random, sensitivity=len(bugs) + len(GENUINE))
    return True


def run_replay_case(ctx, case):
    """For `bin/check C15 --replay`: re-run one reported case on the real server (expectations recomputed by TLC)."""
    if case.get("kind") == "c15srv-trace":
        work = os.path.join(vlib.workdir("C15srv"), "replay-%d" % os.getpid())
        os.makedirs(work, exist_ok=True)
        try:
            t, summ = validate([case["record"]], os.path.join(work, "case.ndjson"), label="replay")
            ctx.add_tlc("replay of one logged server run", t)
            ctx.cov["evaluations"] += summ["steps"]
            ctx.cov["traces_validated_against_impl"] += 1
            report_rejected(ctx, summ, [case["record"]], os.path.join(work, "attr.ndjson"), "replay")
        finally:
            shutil.rmtree(work, ignore_errors=True)
        return True
    if case.get("kind") == "c15srv-vector" and case.get("cfg") and case.get("rq"):
        # the configuration and the request of the reported step are played again on the real server; the verdict is
        # Trace_ServerApp's (nothing is taken from the expectations stored in the file)
        bindir = build_harness(["serverapp"])
        server = build_server()
        work = os.path.join(vlib.workdir("C15srv"), "replay-%d" % os.getpid())
        os.makedirs(work, exist_ok=True)
        try:
            op = case.get("op") or case["rq"]["kind"]
            vec = {"cfg": case["cfg"], "conns": [[{"op": op, "rq": case["rq"], "ka": bool(case.get("ka"))}]]}
            s, _, recs = harness(os.path.join(bindir, "serverapp"), ["replay", server, work, "1"], stdin_data=json.dumps(vec) + "\n", what="replay")
            t, summ = validate(recs, os.path.join(work, "case.ndjson"), label="replay")
            ctx.add_tlc("replay of one configuration and request on the real server", t)
            ctx.cov["evaluations"] += summ["steps"]
            ctx.cov["traces_validated_against_impl"] += 1
            report_rejected(ctx, summ, recs, os.path.join(work, "attr.ndjson"), "replay")
        finally:
            shutil.rmtree(work, ignore_errors=True)
        return True
    vlib.log("replay of a %r case: re-run the tier (vectors are regenerated from the seed)" % case.get("kind"))
    return False


def main(argv):
    tier = argv[1] if len(argv) > 1 else "quick"
    out = vlib.workdir("C15srv")
    vlib.EVIDENCE = out        # the standalone run never touches evidence/C15.json or replays/
    vlib.REPLAYS = out
    ctx = vlib.Ctx("C15", tier, "model_checking")
    try:
        run_part(ctx, tier)
    except vlib.ToolError as e:
        vlib.log("TOOL ERROR: %s" % e)
        if ctx.violations:
            ctx.finish()
        return 2
    return ctx.finish()


if __name__ == "__main__":
    sys.exit(main(sys.argv))
