"""C04 - routing order: first matching host sub-app, then first matching route, else default app, else 404
(WebSocket upgrades: same rule over the WebSocket routes, miss = closed without upgrade).

1. TLC, Routing.tla with Dev = {}: the dispatcher model (one action per iterator step of get_handler /
   call_websocket_handler) ends, for every app and request of the bound, with the handler the property's
   definition Route / WsRoute names (AlgoCorrect), terminates, and the independence facts hold (removing a
   non-chosen route / host, appending later routes / hosts, the other kind's routes never change the choice).
   Sensitivity: nine named deviations must each violate AlgoCorrect; four witness configs show that the explored
   space contains fall-through, shadowing, skipped second host and query-sensitive cases.
2. spec -> code: TLC prints, for a family of apps (<= 2 host sub-apps x <= 3 routes + default, catalogue patterns),
   the expected handler of every request (5 Host values x 8 paths x queries x {HTTP, WebSocket}); the harness
   builds each app as a REAL humphrey App on a loopback port (all builder methods: with_host - also twice with
   the same pattern -, with_route / with_stateless_route / with_path_aware_route, with_websocket_route,
   with_default_subapp after catch-alls that must vanish, with_websocket_handler), sends every request over raw TCP
   under several renderings (method, version, other headers, the header NAMES Host / Upgrade / Connection /
   Content-Length in four spellings, keep-alive connection shared by all Host values / fresh connection, OPTIONS,
   WebSocket upgrade on a fresh connection or on the connection that carried ordinary requests before) and compares
   the identity of the handler that answered. The catalogue holds the degenerate forms: empty Host value (present,
   not absent), Host in another case (a different value: patterns match literally), Host with port, the empty
   path (a parser answering 400 to an empty request target is accepted as well), `/`, the patterns `` and `*`.
   Both directions run against the threaded runtime (humphrey/src/app.rs) and the tokio twin (tokio/app.rs).
3. code -> spec: random real apps at the property's full width (0..4 hosts x 0..6 routes of each kind; every
   twelfth app far beyond it: 8..16 hosts, 20..45 routes per list, mostly copies) with random registration
   interleavings, upper case and non-ASCII symbols in paths, patterns and Host values; the log of registration calls + observed handlers is replayed by TLC
   (Trace_Routing.tla) with Routing's own registration operators and dispatcher actions.
4. self-test of the binding: one flipped expected value must be reported by the harness, one flipped logged
   handler must be rejected by TLC (otherwise exit 2)."""
import concurrent.futures
import json
import os
import re

import vlib
from vlib import Ctx, run_tlc, build_harness, run_bin, parse_jsonl, SPEC

D = os.path.join(SPEC, "routing")
DEVS = ["LastRoute", "LastHost", "NextHostOnMiss", "NoDefaultAfterHostMatch", "MatchWithQuery", "HostEquality",
        "HostIgnoresPort", "WsUsesHttpRoutes", "HostCaseFolded", "PathCaseFolded", "EmptyHostIsAbsent", "NoSavedTextPos",
        "AbsoluteFormInQuery"]
# deviations whose refuting input lies outside the property's quantifier (an empty Host value is not among
# "absent, exact, wildcard-matching, with port, non-matching"): shown on the real code, reported as drift only
DEVS_OUTSIDE_QUANTIFIER = {"EmptyHostIsAbsent"}
WITNESSES = ["NoFallThroughHit", "NoShadowing", "NoSecondHostSkipped", "NoQueryMatters"]
ACTIONS = ["HostAbsent", "HostStep", "RouteStep", "DefaultStep"]
BATCH = 400          # apps per harness process (every App::run leaves its pool's recovery thread behind)


def _match_text(path):
    src = open(path).read()
    m = re.search(r"RECURSIVE Match\(_, _\)\nMatch\(p, t\) ==\n(?:  .*\n)+", src)
    return m.group(0) if m else None


def _replay_batches(ctx, binpath, header, apps, variants, workers):
    """Runs the harness over `apps` (decoded TLC lines) in batches; returns the merged summary."""
    tot = {"apps": 0, "requests": 0, "evaluations": 0, "mismatches": 0, "tool_errors": 0, "unstopped": 0, "drifts": 0,
           "starts_without_monitor_event": 0, "upgrade_on_kept_connection_closed": 0, "first_drift": [],
           "transport_retries": 0, "start_failures": 0, "refused_degenerate": 0, "ws_upgrades_on_kept_connection": 0,
           "hangs": 0, "aborted_after_hangs": False, "first": [], "samples": []}
    for i in range(0, len(apps), BATCH):
        chunk = apps[i:i + BATCH]
        data = json.dumps(header) + "\n" + "\n".join(json.dumps(a) for a in chunk) + "\n"
        p = run_bin(binpath, ["replay", "--variants", variants, "--workers", str(workers)], stdin_data=data, timeout=1500)
        res = [x for x in parse_jsonl(p.stdout) if x.get("summary")]
        if p.returncode != 0 or not res:
            raise vlib.ToolError("routing replay failed rc=%s: %s" % (p.returncode, p.stderr[-2000:]))
        s = res[0]
        if s["apps"] + s["tool_errors"] < len(chunk) and not s["aborted_after_hangs"]:
            raise vlib.ToolError("harness ran %d of %d apps" % (s["apps"], len(chunk)))
        for k in ("apps", "requests", "evaluations", "mismatches", "tool_errors", "unstopped", "transport_retries",
                  "start_failures", "refused_degenerate", "ws_upgrades_on_kept_connection", "hangs", "drifts",
                  "starts_without_monitor_event", "upgrade_on_kept_connection_closed"):
            tot[k] += s[k]
        tot["first_drift"] += s["first_drift"]
        if s["aborted_after_hangs"]:
            # requests that never complete are a finding of their own (reported by the caller): stop sending more
            tot["aborted_after_hangs"] = True
            tot["first"] += s["first"]
            break
        # app_index is local to the batch
        tot["first"] += s["first"]
        tot["samples"] += s["samples"]
    return tot


def _trace(ctx, path, name, n):
    t = run_tlc("Trace_Routing.tla", "Trace_Routing.cfg", D, workers=1, env={"TRACE": path}, timeout=1500,
                work_id="c04", deque=True, heap="6g")
    return t


def run(tier, replay):
    ctx = Ctx("C04", tier, "model_checking")
    thorough = tier == "thorough"

    a, b = _match_text(os.path.join(D, "GlobMatch.tla")), _match_text(os.path.join(SPEC, "glob", "Glob.tla"))
    if a is None or a != b:
        raise vlib.ToolError("spec/routing/GlobMatch.tla: Match is no longer the definition of spec/glob/Glob.tla")

    routing = os.path.join(build_harness(["routing"]), "routing")
    routing_tokio = os.path.join(build_harness(["routing"], tokio=True), "routing")
    work = vlib.workdir("C04")

    if replay:
        # the stored counterexample is re-run first; the normal run follows so that the evidence stays complete
        _replay_case(ctx, {"threaded": routing, "tokio": routing_tokio}, replay, work)

    # ---- 1. model checking -------------------------------------------------------------------
    r = run_tlc("MC_Routing.tla", "MC_Routing_quick.cfg", D, workers=8, coverage=True, timeout=900, work_id="c04")
    ctx.add_tlc("dispatcher model, Dev={}: AlgoCorrect, Bounded (2 hosts x 2 routes + 1 default, 2+2 patterns)", r)
    ctx.require_tlc_ok("MC_Routing_quick", r)
    ctx.require_cover("MC_Routing_quick", r, ACTIONS)
    r = run_tlc("MC_Routing.tla", "MC_Routing_live.cfg", D, workers=4, timeout=900, work_id="c04")
    ctx.add_tlc("dispatcher model, Dev={}: termination (liveness), Independence facts, all query forms, two 'other' request parts", r)
    ctx.require_tlc_ok("MC_Routing_live", r)
    if thorough:
        r = run_tlc("MC_Routing.tla", "MC_Routing_thorough.cfg", D, workers=8, coverage=True, timeout=2400, work_id="c04", heap="8g")
        ctx.add_tlc("dispatcher model, Dev={}: AlgoCorrect, Bounded (2 hosts x 2 routes + 2 default, 3+2 patterns)", r)
        ctx.require_tlc_ok("MC_Routing_thorough", r)
        ctx.require_cover("MC_Routing_thorough", r, ACTIONS)
        r = run_tlc("MC_Routing.tla", "MC_Routing_indep.cfg", D, workers=8, timeout=2400, work_id="c04", heap="8g")
        ctx.add_tlc("dispatcher model, Dev={}: Independence facts on the 3-pattern space", r)
        ctx.require_tlc_ok("MC_Routing_indep", r)

    def small(cfg):
        return cfg, run_tlc("MC_Routing.tla", cfg, D, workers=1, timeout=600, work_id="c04", heap="1g")

    # the witness configs repeat, on the MC space, the vacuity guard that the generated vectors carry (classes
    # computed by TLC, below): thorough tier only
    wits = WITNESSES if thorough else []
    cfgs = ["MC_Routing_dev_%s.cfg" % d for d in DEVS] + ["MC_Routing_wit_%s.cfg" % w for w in wits]
    with concurrent.futures.ThreadPoolExecutor(max_workers=5) as ex:
        results = dict(ex.map(small, cfgs))
    dev_cases = []
    for d in DEVS:
        r = results["MC_Routing_dev_%s.cfg" % d]
        ctx.add_tlc("sensitivity: Dev={%s} must violate AlgoCorrect" % d, r)
        if r.violation != "invariant" or r.violated_name != "AlgoCorrect":
            raise vlib.ToolError("model lost sensitivity: Dev={%s} no longer violates AlgoCorrect" % d)
        dc = [x["dev_case"] for x in r.prints if "dev_case" in x]
        if not dc:
            raise vlib.ToolError("Dev={%s}: TLC did not print the refuting case" % d)
        dev_cases.append((d, dc[-1]))
    # the refuting case of every deviation, on the REAL apps (both runtimes): the code must answer as Expected
    # (0 mismatches) and must NOT answer as the deviating model (every case reported)
    for label, binpath in (("threaded", routing), ("tokio", routing_tokio)):
        for which, want_all in (("exp", False), ("model", True)):
            rep = []
            for d, c in dev_cases:
                data = json.dumps({"reqs": [c["req"]]}) + "\n" + json.dumps({"app": c["app"], "exp": [c[which] + [0, 0, 0, 0]]}) + "\n"
                p = run_bin(binpath, ["replay", "--variants", "one", "--workers", "1"], stdin_data=data, timeout=300)
                sm = [x for x in parse_jsonl(p.stdout) if x.get("summary")]
                if p.returncode != 0 or not sm or sm[0]["apps"] != 1:
                    raise vlib.ToolError("routing replay of the %s case failed: %s" % (d, p.stderr[-500:]))
                rep.append((d, c, sm[0]))
            for d, c, sm in rep:
                ctx.cov["evaluations"] += sm["evaluations"]
                outside = d in DEVS_OUTSIDE_QUANTIFIER
                if not want_all and sm["drifts"]:
                    _report_drifts(ctx, label, sm, {"reqs": [c["req"]]})
                if want_all and not (sm["mismatches"] + sm["drifts"]) and outside:
                    ctx.drift("inputs outside C04's quantifier: deviation %s" % d,
                              "%s runtime behaves as deviation %s predicts: %s" % (label, d, json.dumps(c)[:500]),
                              {"kind": "routing-deviation", "runtime": label, "dev": d, "case": c})
                    continue
                if not want_all and sm["mismatches"]:
                    ctx.violation("%s runtime does not answer the case refuting Dev={%s} as Route/WsRoute says: %s" % (
                        label, d, json.dumps(sm["first"][0])[:500]),
                        {"kind": "routing-vectors", "runtime": label, "reqs": [c["req"]], "first": sm["first"]})
                if want_all and not (sm["mismatches"] + sm["drifts"]):
                    # the real code behaves like the deviation: AlgoCorrect's counterexample is a real defect
                    ctx.violation("%s runtime behaves as deviation %s predicts: %s" % (label, d, json.dumps(c)[:500]),
                                  {"kind": "routing-deviation", "runtime": label, "dev": d, "case": c})
    ctx.add_part("deviation cases on the real apps", deviations=len(dev_cases),
                 sample={"dev": dev_cases[0][0], "case": dev_cases[0][1]})
    for w in wits:
        r = results["MC_Routing_wit_%s.cfg" % w]
        ctx.add_tlc("witness: %s must be violated (the case exists in the explored space)" % w, r)
        if r.violation != "invariant":
            raise vlib.ToolError("vacuity guard: no state of the explored space violates %s" % w)

    # ---- 2. vectors from TLC replayed on real apps (threaded runtime and tokio twin) ------------
    cfg = "Gen_Routing_thorough.cfg" if thorough else "Gen_Routing_quick.cfg"
    g = run_tlc("MC_Routing.tla", cfg, D, workers=6, timeout=1500, work_id="c04", heap="6g")
    if g.violation:
        raise vlib.ToolError("generation failed: %s" % g.out[-2000:])
    ctx.add_tlc("vector generation %s" % cfg, g)
    header = [x for x in g.prints if "reqs" in x]
    apps = [x for x in g.prints if "app" in x]
    if len(header) != 1 or not apps:
        raise vlib.ToolError("generation printed %d headers / %d apps" % (len(header), len(apps)))
    header = header[0]
    nreq = len(header["reqs"])
    # class statistics computed by TLC (ExpVec): vacuity guard + the non-trivial count
    cls = [0] * 5
    shadow = qm = skip = nontrivial = 0
    for a_ in apps:
        if len(a_["exp"]) != nreq:
            raise vlib.ToolError("vector line with %d expectations for %d requests" % (len(a_["exp"]), nreq))
        for e in a_["exp"]:
            cls[e[2]] += 1
            shadow += e[3]
            qm += e[4]
            skip += e[5]
            if e[2] in (1, 3, 4) or e[3] or e[4]:
                nontrivial += 1
    if min(cls) == 0 or shadow == 0 or qm == 0 or skip == 0:
        raise vlib.ToolError("vacuity guard: generated vectors miss a class: %s shadow=%d query=%d skip=%d" % (cls, shadow, qm, skip))
    ctx.cov["distinct_nontrivial"] += nontrivial
    classes = {"miss_no_host": cls[0], "miss_after_host_match": cls[1], "default_no_host": cls[2],
               "default_after_fall_through": cls[3], "host_subapp": cls[4], "shadowed_by_order": shadow,
               "query_would_change_choice": qm, "later_host_also_matches": skip}
    for label, binpath in (("threaded", routing), ("tokio", routing_tokio)):
        # thorough: every rendering on every third app, one rendering (rotating) on the others
        s = _replay_batches(ctx, binpath, header, apps, "mixed" if thorough else "one", 6)
        ctx.cov["evaluations"] += s["evaluations"]
        ctx.cov["traces_validated_against_impl"] += s["requests"]
        for x in s["samples"][:2]:
            ctx.sample(dict(x, runtime=label))
        ctx.add_part("vectors %s, %s runtime" % (cfg, label), apps=s["apps"], requests_per_app=nreq, vectors=s["requests"],
                     real_requests=s["evaluations"], mismatches=s["mismatches"], tool_errors=s["tool_errors"],
                     unstopped_apps=s["unstopped"], transport_retries=s["transport_retries"],
                     websocket_upgrades_on_a_kept_alive_connection=s["ws_upgrades_on_kept_connection"],
                     empty_target_refused_with_400=s["refused_degenerate"], classes=classes,
                     mismatches_outside_the_quantifier=s["drifts"], apps_started_without_monitor_event=s["starts_without_monitor_event"])
        _report_drifts(ctx, label, s, header)
        if s["upgrade_on_kept_connection_closed"]:
            ctx.drift("connection reuse (not part of C04)",
                      "%s runtime: %d WebSocket upgrade(s) sent on a connection that had carried ordinary requests got no byte, "
                      "while the same upgrade on a fresh connection reached its handler" % (label, s["upgrade_on_kept_connection_closed"]), None)
        if s["aborted_after_hangs"]:
            ctx.violation("%s runtime: %d request(s) were never answered (8 s, retried once); the replay was cut short; first mismatches: %s" % (
                label, s["hangs"], json.dumps(s["first"][:2])[:600]),
                {"kind": "routing-vectors", "runtime": label, "cfg": cfg, "reqs": header["reqs"], "first": s["first"][:10]})
            continue
        if s["start_failures"] and s["apps"] == 0:
            # not one app came up although loopback ports could be probed: App::run itself does not serve
            ctx.violation("%s runtime: none of %d apps accepted a connection after App::run (8 ports tried each)" % (label, s["start_failures"]),
                          {"kind": "routing-start", "runtime": label, "app": apps[0]["app"]})
            continue
        if s["tool_errors"] > max(3, len(apps) // 50):
            raise vlib.ToolError("too many apps could not be started / queried (%s): %d" % (label, s["tool_errors"]))
        if s["mismatches"]:
            f = s["first"]
            ctx.violation("%s runtime: %d request(s) answered by another handler than Route/WsRoute names; first: %s" % (
                label, s["mismatches"], json.dumps({k: f[0][k] for k in ("request", "variant", "expected", "got")})),
                {"kind": "routing-vectors", "runtime": label, "cfg": cfg, "reqs": header["reqs"], "first": f[:10]})

    # ---- 3. random real apps, log validated by TLC ----------------------------------------------
    nreq_r = 40
    plan = (("threaded", routing, 1000 if thorough else 110), ("tokio", routing_tokio, 500 if thorough else 50))
    lines = []
    bounds = []
    for label, binpath, napps in plan:
        p = run_bin(binpath, ["random", str(napps), str(nreq_r), "--workers", "6"], timeout=1500,
                    env={"VERIF_SEED": vlib.seed() + (0 if label == "threaded" else 7919)})
        if p.returncode != 0:
            raise vlib.ToolError("routing random (%s) failed: %s" % (label, p.stderr[-1000:]))
        summ = [x for x in parse_jsonl(p.stderr) if x.get("summary")]
        if summ and summ[0].get("aborted_after_hangs"):
            # the log still holds the unanswered requests (got.sub = -1): TLC rejects them below -> exit 1
            pass
        elif summ and summ[0].get("start_failures", 0) >= napps:
            ctx.violation("%s runtime: none of %d random apps accepted a connection after App::run" % (label, napps),
                          {"kind": "routing-start", "runtime": label})
            continue
        elif not summ or summ[0]["tool_errors"] > napps // 20 + 3:
            raise vlib.ToolError("routing random (%s): %s" % (label, summ or p.stderr[-500:]))
        lines += p.stdout.splitlines()
        bounds.append((len(lines), label))
    if not lines:
        return ctx.finish()
    napps = sum(x[2] for x in plan)
    tr = os.path.join(work, "random.ndjson")
    with open(tr, "w") as f:
        f.write("\n".join(lines) + "\n")
    nrec = sum(1 for x in lines if '"t":"req"' in x)
    t = _trace(ctx, tr, "random", nrec)
    ctx.add_tlc("trace validation: %d random apps (0..4 hosts x 0..6 routes per kind; %s), %d requests" % (
        napps, ", ".join("%d %s" % (x[2], x[0]) for x in plan), nrec), t)
    ctx.cov["evaluations"] += nrec
    ctx.cov["traces_validated_against_impl"] += nrec
    stats = [x["classes"] for x in t.prints if "classes" in x]
    if t.violation:
        rej = [x for x in t.prints if "rejected" in x]
        rej = rej[-1]["rejected"] if rej else []
        if not rej or t.violation != "postcondition":
            raise vlib.ToolError("Trace_Routing failed without a rejected record: %s %s\n%s" % (t.violation, t.violated_name, t.out[-1500:]))
        if any(x["line"] == 0 for x in rej):
            raise vlib.ToolError("Trace_Routing did not consume the whole log\n%s" % t.out[-1500:])
        for x in rej:
            x["runtime"] = next((lbl for (hi_, lbl) in bounds if x["line"] <= hi_), "?")
        apps_of = _apps_for(lines, [x["line"] for x in rej])
        inside, outside = [], {}
        for x in rej:
            why = _beyond_quantifier(x, apps_of.get(str(x["line"])))
            if why:
                outside.setdefault(why, []).append(x)
            else:
                inside.append(x)
        for why, xs in sorted(outside.items()):
            ctx.drift("inputs outside C04's quantifier: " + why,
                      "%d logged request(s) answered by another handler than Route/WsRoute names; first: %s" % (len(xs), json.dumps(xs[0])[:500]),
                      {"kind": "routing-trace", "rejected": xs[:10], "apps": {str(x["line"]): apps_of.get(str(x["line"])) for x in xs[:10]}})
        if inside:
            ctx.violation("real app chose another handler than the model for %d logged request(s); first: %s" % (
                len(inside), json.dumps(inside[:1])[:600]),
                {"kind": "routing-trace", "rejected": inside, "apps": {str(x["line"]): apps_of.get(str(x["line"])) for x in inside}})
    elif not stats:
        raise vlib.ToolError("Trace_Routing accepted the log but printed no statistics")
    else:
        st = stats[-1]
        if min(st[:5]) == 0:
            raise vlib.ToolError("vacuity guard: random log misses a request class: %s" % st)
        ctx.cov["distinct_nontrivial"] += st[1] + st[3] + st[4]
        ctx.add_part("random apps", apps=napps, requests=nrec, classes_measured_by_tlc={
            "miss_no_host": st[0], "miss_after_host_match": st[1], "default_no_host": st[2], "default_after_fall_through": st[3],
            "host_subapp": st[4], "shadowed_by_order": st[5], "later_host_also_matches": st[6]})
        for x in lines[:3]:
            ctx.sample(json.loads(x), limit=7)

    # ---- 4. self-test of the binding --------------------------------------------------------------
    bad = json.loads(json.dumps(apps[len(apps) // 2]))
    k = next((i for i, e in enumerate(bad["exp"]) if e[1] != 0), None)
    if k is not None:
        bad["exp"][k][1] += 1
        s2 = _replay_batches(ctx, routing, header, [bad], "one", 1)
        if s2["mismatches"] + s2["drifts"] == 0:
            raise vlib.ToolError("self-test: a flipped expected handler was not reported by the harness")
    cut = []
    flipped = False
    for x in lines[:400]:
        rcd = json.loads(x)
        if not flipped and rcd["t"] == "req" and rcd["got"]["hit"]:
            rcd["got"]["idx"] += 1
            flipped = True
        cut.append(json.dumps(rcd))
    tr2 = os.path.join(work, "selftest.ndjson")
    with open(tr2, "w") as f:
        f.write("\n".join(cut) + "\n")
    t2 = _trace(ctx, tr2, "selftest", len(cut))
    ctx.add_tlc("self-test: log with one flipped handler must be rejected", t2)
    if flipped and t2.violation != "postcondition":
        raise vlib.ToolError("self-test: a flipped logged handler was not rejected by Trace_Routing")
    ctx.add_part("self-test", flipped_vector_reported=True, flipped_trace_rejected=True)
    for pth in (tr, tr2):
        if os.path.exists(pth):
            os.remove(pth)

    ctx.cov["rule"] = ("vectors: every (app, request) pair of the generated family, each sent as real HTTP / WebSocket-upgrade "
                       "requests under 1 rendering per vector, rotating (quick) or all renderings on every third app (thorough); non-trivial = pairs where a host sub-app matched "
                       "(hit, fall-through to default, or miss), or registration order decided (a later route matches too), or the "
                       "query would change the choice; random part: requests whose class (computed by TLC) is host-sub-app hit, "
                       "fall-through or miss-after-host-match")
    ctx.cov["exhaustive"] = True
    ctx.assumptions += [
        "Route / WsRoute in Routing.tla is the property's sentence; Host with a port is matched literally (DESIGN 5a)",
        "handler identity = (position of the host sub-app, position of the route of that kind) in registration order, returned in the body / written to the upgraded stream",
        "a WebSocket miss is 'closed without a byte' or any non-101 answer",
        "one-character symbols: pattern and text are compared character by character (GlobMatch = spec/glob Match)",
    ]
    return ctx.finish()


def _report_drifts(ctx, label, s, header):
    by = {}
    for f in s["first_drift"]:
        by.setdefault(f["beyond"], []).append(f)
    for why, fs in sorted(by.items()):
        ctx.drift("inputs outside C04's quantifier: " + why,
                  "%s runtime: request answered by another handler than Route/WsRoute names (%d such mismatches in all classes); first: %s" % (
                      label, s["drifts"], json.dumps({k: fs[0][k] for k in ("request", "variant", "expected", "got")})),
                  {"kind": "routing-vectors", "runtime": label, "reqs": header["reqs"], "first": fs[:5]})


def _fold(ops):
    """The app a registration log builds (mirror of Trace_Routing!FoldApp, only used to CLASSIFY rejected records)."""
    def sub(so):
        return {"host": ["*"], "http": [o["p"] for o in so if o["op"] == "route"], "ws": [o["p"] for o in so if o["op"] == "ws"]}
    app = {"hosts": [], "def": {"host": ["*"], "http": [], "ws": []}}
    for o in ops:
        if o["op"] == "route":
            app["def"]["http"].append(o["p"])
        elif o["op"] == "ws":
            app["def"]["ws"].append(o["p"])
        elif o["op"] == "wsall":
            app["def"]["ws"].append(["*"])
        elif o["op"] == "defsub":
            app["def"] = sub(o["sub"])
        else:
            h = sub(o["sub"])
            h["host"] = o["h"]
            app["hosts"].append(h)
    return app


def _beyond_quantifier(x, apprec):
    """Why a rejected log record lies outside the property's quantifier (apps 0..4 hosts x 0..6 routes; Host absent /
    exact / wildcard-matching / with port / non-matching; paths with and without query; the listed pattern shapes),
    or None when it lies inside."""
    rec = x["rec"]
    if rec["hostp"] and not rec["host"]:
        return "Host header present with an empty value"
    if not rec["target"] or rec["target"][0] == "?":
        return "empty path"
    if any(len(c) > 1 for c in rec["host"] + rec["target"]):
        return "non-ASCII characters in Host or request target"
    if not apprec:
        return None
    app = _fold(apprec["ops"])
    subs = [app["def"]] + app["hosts"]
    if len(app["hosts"]) > 4 or any(len(s["http"]) > 6 or len(s["ws"]) > 6 for s in subs):
        return "app wider than 4 host sub-apps x 6 routes"
    for h in (x.get("exp"), rec["got"]):
        if h and h.get("hit") and 0 <= h["sub"] < len(subs) and h["idx"] >= 1:
            s = subs[h["sub"]]
            lst = s[rec["kind"]]
            if (h["idx"] <= len(lst) and not lst[h["idx"] - 1]) or (h["sub"] != 0 and not s["host"]):
                return "the empty pattern is involved"
    return None


def _apps_for(lines, idxs):
    """For rejected log lines: the registration record each belongs to (for the replay file)."""
    out = {}
    for i in idxs:
        j = i - 1
        while j >= 0 and '"t":"app"' not in lines[j]:
            j -= 1
        if j >= 0:
            out[str(i)] = json.loads(lines[j])
    return out


def _replay_case(ctx, bins, path, work):
    """--replay <file>: re-run a stored counterexample (vectors: through the harness; trace: re-record is not
    possible, so the stored records are re-validated by TLC)."""
    case = json.load(open(path)).get("case", {})
    if case.get("kind") == "routing-vectors":
        routing = bins.get(case.get("runtime", "threaded"), bins["threaded"])
        for f in case["first"]:
            # only the stored request carries a meaningful expectation: replay it alone
            one = {"reqs": [case["reqs"][f["request_index"] - 1]]}
            s = _replay_batches(ctx, routing, one, [{"app": f["app"], "exp": [f["expected"] + [0, 0, 0, 0]]}], "all", 1)
            ctx.cov["evaluations"] += s["evaluations"]
            if s["mismatches"]:
                ctx.violation("replayed: %s" % json.dumps(s["first"][0])[:600], {"kind": "routing-vectors", "reqs": one["reqs"], "first": s["first"]})
    elif case.get("kind") == "routing-trace":
        recs = []
        for r in case["rejected"]:
            app = case["apps"].get(str(r["line"]))
            if app:
                recs += [app, r["rec"]]
        tr = os.path.join(work, "replay.ndjson")
        with open(tr, "w") as f:
            f.write("\n".join(json.dumps(x) for x in recs) + "\n")
        t = _trace(ctx, tr, "replay", len(recs))
        ctx.add_tlc("replayed trace records", t)
        os.remove(tr)
        if t.violation:
            ctx.violation("replayed trace still rejected", case)
    else:
        raise vlib.ToolError("replay file of unknown kind")
