"""C15 - configuration files load into exactly what they describe, or are rejected with file and line.

spec/config/Config.tla: abstract syntax of a configuration, Meaning(ast) (the Config it describes with every
omitted key at from_tree's default, hosts/routes in file order, comma lists expanded - or the rejection it must
get: syntax error AT a token / validation error), Faults(ast) (single-fault mutants), and a transcription of the
code (tree.rs parse_conf/parse_section/include/parse_size, config.rs from_tree/parse_host/parse_route) as a state
machine over the text lines of a rendering, one action per loop iteration.

1. TLC explores the model of the code on every case of the bounded family x layouts and checks Conforms (the
   outcome is Meaning(ast), errors name the damaged token's file and line), NoCrash, termination; coverage of
   every action is required.  Lemmas about Meaning (entry permutation, include splitting, unknown keys ignored,
   defaults independent of context, every injected fault is found) are checked on the same family.
2. Sensitivity: each deviation of the code as it was found (ParseSizePanic, TrailingIgnored, HostQuoteLax) and a
   few plausible bugs (routes reversed, first pattern only, threads 0, line - 1, default log level, white space
   collapsed inside quoted strings, ...) must be refuted by TLC.
3. spec -> code: TLC prints every case with Meaning(ast); the harness writes each one under 5 (thorough: 12)
   seeded layouts (indentation, comments, blank lines, key order, include splitting into files under
   .work/C15, separators, non-ASCII mapping), loads it with the real parse_conf + Config::from_tree and compares
   field by field; errors: class, file, line.
4. code -> spec: random configurations at the property's full width (0..4 hosts, 0..8 routes each, faults),
   loaded by the real code, logged, validated by TLC (Trace_Config.tla, same Meaning).
5. Self-test of the binding: a corrupted expectation / a corrupted log record must be rejected."""
import copy
import json
import os
import re
import shutil
from concurrent.futures import ThreadPoolExecutor

import vlib
from vlib import Ctx, run_tlc, build_harness, run_bin, SPEC

D = os.path.join(SPEC, "config")
ACTIONS = ["P_FindSkip", "P_FindHit", "P_FindEof", "P_Eof", "P_Blank", "P_Open", "P_Close", "P_NoValue", "P_Value",
           "P_Include", "P_TrailBlank", "P_TrailJunk", "P_TrailEof", "T1", "T2", "T3", "T4", "T5"]
DEVS = ["ParseSizePanic", "TrailingIgnored", "HostQuoteLax"]
BUGS_QUICK = ["CollapseWhitespace", "LoneQuoteSlice"]
BUGS = ["ReverseRoutes", "FirstPatternOnly", "Threads0Accepted", "LineMinus1", "DefaultLogInfo", "ErrFileMain", "LastTargetOnly", "CollapseWhitespace", "LoneQuoteSlice"]
TO = 3000


def summary_of(p, what):
    res = [x for x in vlib.parse_jsonl(p.stdout) if x.get("summary")]
    if p.returncode != 0 or not res:
        raise vlib.ToolError("config %s failed rc=%s: %s" % (what, p.returncode, p.stderr[-2000:]))
    return res[0]


def attribute(m):
    """Name the known deviation a mismatch is exactly the symptom of (None = unexplained)."""
    cls = m.get("fault", {}).get("cls", "")
    obs = m.get("obs", {}).get("kind", "")
    exp = m.get("exp", {}).get("kind", "")
    why = m.get("exp", {}).get("why", "")
    if obs == "panic" and why == "host-quote":
        return "HostQuoteLax"
    if obs == "panic" and exp != "ok" and cls in ("NonAscii", "TooBig"):
        return "ParseSizePanic"
    if obs == "ok" and why == "host-quote" and cls == "UnterminatedQuote":
        return "HostQuoteLax"
    if obs == "ok" and why == "open-brace" and cls == "MissingOpenBrace":
        return "TrailingIgnored"
    return None


def run(tier, replay):
    ctx = Ctx("C15", tier, "model_checking")
    bindir = build_harness(["config"])
    cfgbin = os.path.join(bindir, "config")
    thorough = tier == "thorough"
    work = os.path.join(vlib.workdir("C15"), "run-%d" % os.getpid())
    os.makedirs(work, exist_ok=True)
    try:
        if replay:
            return run_replay(ctx, cfgbin, work, replay)
        return run_all(ctx, cfgbin, work, thorough)
    finally:
        shutil.rmtree(work, ignore_errors=True)


def run_replay(ctx, cfgbin, work, path):
    obj = json.load(open(path))
    case = obj.get("case", obj)
    if case.get("kind") == "config-trace":
        tr = os.path.join(work, "replay.ndjson")
        vlib.write_lines(tr, [{"ast": r["ast"], "obs": r["obs"], "tok": r["tok"]} for r in case["rejected"]])
        t = run_tlc("Trace_Config.tla", "Trace_Config.cfg", D, workers=1, env={"TRACE": tr}, timeout=TO, work_id="c15r", deque=True)
        ctx.add_tlc("replay of %d logged records" % len(case["rejected"]), t)
        ctx.cov["evaluations"] += len(case["rejected"])
        ctx.cov["traces_validated_against_impl"] += len(case["rejected"])
        ctx.sample({"replayed_records": len(case["rejected"])})
        if t.violation:
            rej = t.prints[-1]["rejected"] if t.prints else []
            ctx.violation("logged records still inexplicable", {"kind": "config-trace", "rejected": rej})
        return ctx.finish()
    cases = [c for c in (case.get("cases") or [case]) if "ast" in c]
    # the expectation is recomputed by TLC from the specification as it is now, not taken from the file
    tr = os.path.join(work, "replay.ndjson")
    vlib.write_lines(tr, [{"ast": c["ast"]} for c in cases])
    g = run_tlc("MC_Config.tla", "Gen_Config_replay.cfg", D, workers=1, env={"TRACE": tr}, timeout=TO, work_id="c15rg", heap="2g")
    if g.violation or not g.prints:
        raise vlib.ToolError("replay: TLC could not evaluate Meaning: %s" % g.out[-1500:])
    ctx.add_tlc("Meaning of the %d replayed configuration(s)" % len(cases), g)
    data = "".join(json.dumps(x) + "\n" for x in g.prints)
    s = summary_of(run_bin(cfgbin, ["replay", work, "12"], stdin_data=data), "replay")
    ctx.cov["evaluations"] += s["loads"]
    ctx.cov["traces_validated_against_impl"] += s["loads"]
    ctx.cov["distinct_nontrivial"] += s["nontrivial"]
    ctx.sample({"replayed_cases": s["cases"], "loads": s["loads"], "mismatches": s["mismatches"]})
    for m in s["first"][:5]:
        ctx.violation(m["what"], {"kind": "config-vector", **m}, dev=attribute(m))
    return ctx.finish()


def run_all(ctx, cfgbin, work, thorough):
    tname = "thorough" if thorough else "quick"

    # All TLC runs of steps 1-3 are independent of each other: they run side by side (<= 5 JVMs at a time).
    dump = os.path.join(work, "graph.dot")
    sens_jobs = [("dev", d) for d in DEVS] + [("bug", b) for b in (BUGS if thorough else BUGS_QUICK)]
    specs = {
        "mc": dict(cfg="MC_Config_%s.cfg" % tname, workers=6 if thorough else 4, heap="4g"),
        # vacuity guard.  `-coverage 1` makes TLC re-evaluate the (large, constant) case table on every access and run
        # out of memory, so the per-action counts are taken from the dumped state graph of the small family instead
        # (edges are labelled with the action that produced them).
        # The same run checks termination (liveness under weak fairness) on that small family.
        "cover": dict(cfg="MC_Config_live.cfg", workers=2, heap="3g", dump=dump),
        "lemmas": dict(cfg="MC_Config_lemmas_%s.cfg" % tname, workers=2, heap="3g"),
        "gen": dict(cfg="Gen_Config_%s.cfg" % tname, workers=1, heap="3g"),
    }
    for kind, name in sens_jobs:
        specs["sens:" + name] = dict(cfg="MC_Config_%s_%s.cfg" % (kind, name), workers=2, heap="2g")

    def one(key):
        kw = dict(specs[key])
        cfg = kw.pop("cfg")
        return key, run_tlc("MC_Config.tla", cfg, D, timeout=TO, work_id="c15" + re.sub(r"\W", "", key), **kw)
    order = ["mc", "lemmas", "gen", "cover"] + ["sens:" + n for _, n in sens_jobs]
    with ThreadPoolExecutor(max_workers=5) as ex:
        res = dict(ex.map(one, order))

    # 1. the model of the code against Meaning, on every case x layout
    r = res["mc"]
    ctx.add_tlc("model of parse_conf/from_tree vs Meaning, Dev={} (%s family)" % tname, r)
    ctx.require_tlc_ok("MC_Config_%s" % tname, r)
    r = res["cover"]
    counts = {}
    with open(dump, errors="replace") as f:
        for line in f:
            m = re.search(r'->.*label="(\w+)"', line)
            if m:
                counts[m.group(1)] = counts.get(m.group(1), 0) + 1
    os.remove(dump)
    r.coverage = {a: (c, c) for a, c in counts.items()}
    ctx.add_tlc("small family: the loader always terminates (liveness under weak fairness) and every action of the model "
                "is taken (vacuity guard: edge labels of the dumped graph)", r)
    ctx.require_tlc_ok("MC_Config_live", r)
    ctx.require_cover("MC_Config_live", r, ACTIONS)
    r = res["lemmas"]
    ctx.add_tlc("lemmas: Meaning invariant under permutation / include splitting / unknown keys; defaults; faults found", r)
    ctx.require_tlc_ok("MC_Config_lemmas_%s" % tname, r)

    # 2. sensitivity of the model: every deviation and a few plausible bugs must be refuted
    for kind, name in sens_jobs:
        sr = res["sens:" + name]
        ctx.add_tlc("sensitivity: Dev={%s} must violate Conforms/NoCrash" % name, sr)
        if sr.violation != "invariant":
            raise vlib.ToolError("model lost sensitivity: Dev={%s} no longer violates Conforms/NoCrash" % name)

    # 3. vectors from TLC replayed on the real loader
    g = res["gen"]
    if g.violation or not g.prints:
        raise vlib.ToolError("generation failed: %s" % g.out[-2000:])
    ctx.add_tlc("vector generation Gen_Config_%s.cfg" % tname, g)
    nlay = 12 if thorough else 5
    data = "".join(json.dumps(x) + "\n" for x in g.prints)
    s = summary_of(run_bin(cfgbin, ["replay", work, str(nlay)], stdin_data=data), "replay")
    if s["cases"] != len(g.prints):
        raise vlib.ToolError("harness consumed %d of %d cases" % (s["cases"], len(g.prints)))
    if s.get("internal"):
        raise vlib.ToolError("harness could not locate %d damaged token(s) in its own rendering" % s["internal"])
    if s.get("drift_default_host"):
        # Config.default_host.matches is an implementation detail the property does not mention
        ctx.drift("default-host-name", "Config.default_host.matches is no longer \"*\" in %d loads" % s["drift_default_host"], None)
    ctx.cov["evaluations"] += s["loads"]
    ctx.cov["distinct_nontrivial"] += s["nontrivial"]
    ctx.cov["traces_validated_against_impl"] += s["loads"]
    for x in s["samples"][:4]:
        ctx.sample(x)
    ctx.add_part("vectors", cases=s["cases"], layouts=nlay, loads=s["loads"], mismatches=s["mismatches"],
                 expected_kinds=s["by_kind"], fault_classes=s["by_class"])
    seen = set()
    for m in s["first"]:
        dev = attribute(m)
        keyk = (dev, m["fault"].get("cls"), m["what"][:60])
        if keyk in seen:
            continue
        seen.add(keyk)
        ctx.violation("case %d layout %d (%s): %s" % (m["case"], m["layout"], m["fault"].get("cls") or "no fault", m["what"]),
                      {"kind": "config-vector", **m}, dev=dev)

    # 5a. self-test: corrupted expectations must be noticed by the harness
    # (self-tests only run after a clean validation: on a broken tree the violations above are the result, and a
    # self-test must never turn exit 1 into exit 2)
    corrupted = corrupt_vectors(g.prints) if not ctx.violations else []
    if corrupted:
        cs = summary_of(run_bin(cfgbin, ["replay", work, "2"], stdin_data="".join(json.dumps(x) + "\n" for x in corrupted)), "self-test")
        bad_cases = {m["case"] for m in cs["first"]}
        if len(bad_cases) != len(corrupted):
            raise vlib.ToolError("binding self-test failed: %d corrupted expectations, harness flagged %s" % (len(corrupted), sorted(bad_cases)))
        ctx.add_part("selftest_vectors", corrupted=len(corrupted), flagged=len(bad_cases))

    # 4. random full-width configurations loaded by the real code, validated by TLC
    n = 12000 if thorough else 1000
    p = run_bin(cfgbin, ["random", work, str(n)])
    if p.returncode != 0:
        raise vlib.ToolError("config random failed: " + p.stderr[-1000:])
    recs = vlib.parse_jsonl(p.stdout)
    if len(recs) != n:
        raise vlib.ToolError("config random produced %d of %d records" % (len(recs), n))
    tr = os.path.join(work, "random.ndjson")
    chunk = 2000
    ntr = 0
    for i in range(0, n, chunk):
        part = recs[i:i + chunk]
        vlib.write_lines(tr, part)
        t = run_tlc("Trace_Config.tla", "Trace_Config.cfg", D, workers=1, env={"TRACE": tr}, timeout=TO, work_id="c15tr", deque=True, heap="3g")
        ctx.add_tlc("trace validation of random configurations %d..%d" % (i + 1, i + len(part)), t)
        if t.violation:
            rej = t.prints[-1]["rejected"] if t.prints else []
            if not rej:
                raise vlib.ToolError("Trace_Config failed without a rejection list: " + t.out[-1500:])
            for x in rej[:3]:
                m = {"fault": x["ast"]["fault"], "obs": x["obs"], "exp": x["demanded"]}
                ctx.violation("random configuration %d: the loader's outcome (%s, numbers in the error %s) is not what the file describes (%s %s)"
                              % (i + x["index"], x["obs"]["kind"], x["obs"].get("nums"), x["demanded"]["kind"], x["demanded"]["why"]),
                              {"kind": "config-trace", "rejected": [x]}, dev=attribute(m))
        ntr += len(part)
    ctx.cov["evaluations"] += ntr
    ctx.cov["traces_validated_against_impl"] += ntr
    nontriv = len({json.dumps(x["ast"], sort_keys=True) for x in recs if x["ast"]["fault"]["cls"] or x["obs"]["cfg"].get("hosts") or x["obs"]["cfg"].get("default_routes")})
    ctx.cov["distinct_nontrivial"] += nontriv
    widths = [len(x["obs"]["cfg"]["hosts"]) for x in recs if x["obs"]["kind"] == "ok"]
    ctx.add_part("random", records=n, accepted=len(widths), max_hosts=max(widths or [0]),
                 max_routes=max([len(h["routes"]) for x in recs for h in x["obs"]["cfg"]["hosts"]] or [0]),
                 faults=sum(1 for x in recs if x["ast"]["fault"]["cls"]),
                 include_files=sum(x["layout"]["files"] - 1 for x in recs))
    ex = next((x for x in recs if x["ast"]["fault"]["cls"] and x["obs"]["kind"] == "parse-error"), None)
    if ex:
        ctx.sample({"random_fault": ex["ast"]["fault"], "observed": ex["obs"]["kind"], "numbers_in_error": ex["obs"]["nums"], "token_at": ex["tok"]})

    # 5b. self-test: a corrupted log record must be rejected by TLC
    bad = corrupt_records(recs[:200]) if not ctx.violations else []
    if bad:
        vlib.write_lines(tr, bad)
        t = run_tlc("Trace_Config.tla", "Trace_Config.cfg", D, workers=1, env={"TRACE": tr}, timeout=TO, work_id="c15st", deque=True)
        rej = t.prints[-1]["rejected"] if (t.violation and t.prints) else []
        if len(rej) != len(bad):
            raise vlib.ToolError("binding self-test failed: %d corrupted records, TLC rejected %d" % (len(bad), len(rej)))
        ctx.add_part("selftest_trace", corrupted=len(bad), rejected=len(rej))
    if os.path.exists(tr):
        os.remove(tr)

    ctx.cov["rule"] = ("cases = abstract configurations of the bounded family (presence subsets of 14 scalar keys: all with <=1|2 or >=13|12 "
                       "keys; value variation per key incl. sizes {0,1,1023,128}x{none,K,M,G}; 0..2 hosts x 0..3 routes of 9 kinds x pattern "
                       "arity 1..3; include splittings; every single-fault mutant of the base configurations), each loaded under 5/12 seeded "
                       "layouts, plus random full-width configurations; non-trivial = distinct configurations that are rejected or whose "
                       "described Config differs from the all-defaults one")
    ctx.cov["exhaustive"] = False   # the family is a covering sample of the bounded space (pairwise key presence), completely enumerated
    ctx.assumptions += [
        "Meaning(ast) in Config.tla is the property's definition; defaults are those of Config::from_tree (DESIGN 5a)",
        "lexical choices of the generators (stated in Config.tla): `server {` verbatim, blanks between key and value, no `\"`/`#` inside strings, "
        "upper-case units, canonical integers, quoted host patterns, no duplicate keys",
        "the harness links humphrey_server without the `tls` and `plugins` features: those sections are unknown sections",
        "IP address syntax is a catalogue (5 valid, 3 invalid literals), not a grammar",
        "for a missing brace any line from the damaged section's header to the end of that file is accepted as `the line`",
    ]
    # the running server built from a configuration behaves as the configuration says (spec/serverapp; spec growth,
    # DESIGN section 6): host/route order, redirect, WebSocket proxying and its byte pump, log-level masks
    import c15_server
    # what the running server does is not part of what C15 states (the loader): drift, never a C15 violation
    vlib.run_growth(ctx, "serverapp", c15_server.run_part, "thorough" if thorough else "quick")
    # the plugin side (feature `plugins`, which nothing else compiles): the plugin manager (spec/plugins/Plugins.tla) bound by
    # several instances of a logging cdylib in the real binary, and the PHP plugin's FastCGI client (Fcgi.tla) bound by a
    # scripted FastCGI responder.  Beyond what C15 states: drift only.
    import c15_plugins
    vlib.run_growth(ctx, "plugins", c15_plugins.run_part, "thorough" if thorough else "quick")
    return ctx.finish()


def corrupt_vectors(prints):
    """Flip one expected value in a few vectors; every one of them must come back as a mismatch."""
    out = []
    oks = [x for x in prints if x["exp"]["kind"] == "ok"]
    syn = [x for x in prints if x["exp"]["kind"] == "syntax" and x["exp"]["loc"]["rule"] == "at" and x["exp"]["loc"]["p"]]
    val = [x for x in prints if x["exp"]["kind"] == "validation"]
    for x in oks[:1]:
        y = copy.deepcopy(x)
        y["exp"]["cfg"]["log_level"] = "info" if y["exp"]["cfg"]["log_level"] != "info" else "warn"
        out.append(y)
    for x in [o for o in oks if len(o["exp"]["cfg"]["default_routes"]) >= 2 and
              o["exp"]["cfg"]["default_routes"][0] != o["exp"]["cfg"]["default_routes"][1]][:1]:
        y = copy.deepcopy(x)
        r = y["exp"]["cfg"]["default_routes"]
        r[0], r[1] = r[1], r[0]
        out.append(y)
    for x in [o for o in oks if o["exp"]["cfg"]["threads"] == "8"][:1]:
        y = copy.deepcopy(x)
        y["exp"]["cfg"]["threads"] = "32"
        out.append(y)
    for x in syn[:1]:
        y = copy.deepcopy(x)      # blame another token: the server header
        y["exp"]["loc"]["p"] = []
        y["exp"]["loc"]["f"] = 0
        y["exp"]["loc"]["part"] = "open"
        out.append(y)
    for x in val[:1]:
        y = copy.deepcopy(x)      # claim the invalid file is fine
        y["exp"]["kind"] = "ok"
        y["exp"]["ok"] = True
        out.append(y)
    return out


def corrupt_records(recs):
    out = []
    ok2 = next((x for x in recs if x["obs"]["kind"] == "ok" and len(x["obs"]["cfg"]["hosts"]) >= 2 and
                x["obs"]["cfg"]["hosts"][0] != x["obs"]["cfg"]["hosts"][1]), None)
    if ok2:
        y = copy.deepcopy(ok2)
        h = y["obs"]["cfg"]["hosts"]
        h[0], h[1] = h[1], h[0]
        out.append(y)
    ok1 = next((x for x in recs if x["obs"]["kind"] == "ok"), None)
    if ok1:
        y = copy.deepcopy(ok1)
        y["obs"]["cfg"]["port"] = "81" if y["obs"]["cfg"]["port"] != "81" else "82"
        out.append(y)
    pe = next((x for x in recs if x["obs"]["kind"] == "parse-error" and x["ast"]["fault"]["cls"] in ("MissingValue", "BadNumber", "UnknownUnit")), None)
    if pe:
        y = copy.deepcopy(pe)
        y["obs"]["nums"] = [n - 1 for n in y["obs"]["nums"]]
        out.append(y)
    er = next((x for x in recs if x["obs"]["kind"] in ("parse-error", "tree-error")), None)
    if er:
        y = copy.deepcopy(er)     # pretend the damaged file was accepted with all defaults
        y["obs"]["kind"] = "ok"
        out.append(y)
    return out
