"""C09 - proxy always answers: the upstream's response if valid, else 502, within the timeout; the upstream
receives the request with the prefix stripped and X-Forwarded-For added; targets chosen in rotation / from the set.

1. TLC on spec/proxy/Proxy.tla (upstream script x proxy x clock): Inv_Faithful (the step model of
   Response::from_stream with Dev = {} gives the answer the denotational reading `Acceptable` demands),
   Inv_NoPanic, Inv_Forwarded, Inv_Timely and Live_Responds with the deadline as the only progress guarantee;
   every named deviation and a set of plausible bugs must be refuted (sensitivity); LoadBalancer.tla for
   1..4 targets x 1..4 threads x <= 3 calls, with can-happen witnesses.
2. spec -> code: TLC prints every behaviour of the bounded upstream (Gen_Proxy_*.cfg: cut after every segment
   then close / stall, pauses, trickle, garbage, malformed headers / lengths / chunk sizes, refusal; all
   registered status codes; C02-like requests x routes) with the answer, the forwarded request and what each
   single deviation would answer; harness/src/bin/proxy.rs plays each one byte-exactly from a loopback upstream
   thread against proxy_request and proxy_handler.
3. code -> spec: seed responses cut at EVERY byte offset (close and stall), and all observations of step 2,
   are validated by TLC with Trace_Proxy.tla; select_target logs of K real threads (under the handler's mutex,
   and through proxy_handler with invocation/response stamps) are linearised by TLC with Trace_LoadBalancer.tla.
4. self-test: one corrupted record per trace kind must be rejected."""
import copy
import json
import os
import time
import concurrent.futures as cf
import vlib
from vlib import Ctx, run_tlc, build_harness, run_bin, parse_jsonl, SPEC

D = os.path.join(SPEC, "proxy")
REAL_DEVS = ["NoReadTimeout", "CloseDelimitedLost", "UnmodelledStatusIs502", "NoColonPanicResp", "ChunkedTruncatedOk"]
SENS = {  # deviation / plausible bug -> what TLC must report
    "NoReadTimeout": ("temporal", None), "CloseDelimitedLost": ("invariant", "Inv_Faithful"),
    "UnmodelledStatusIs502": ("invariant", "Inv_Faithful"), "NoColonPanicResp": ("invariant", "Inv_NoPanic"),
    "ChunkedTruncatedOk": ("invariant", "Inv_Faithful"), "MapErrTo500": ("invariant", "Inv_Faithful"),
    "ForwardUnstripped": ("invariant", "Inv_Forwarded"), "XffProxyAddr": ("invariant", "Inv_Forwarded"),
    "NoXff": ("invariant", "Inv_Forwarded"), "XffDisplaySuffix": ("invariant", "Inv_Forwarded"),
    "WriteWithoutDeadline": ("temporal", None), "TeCaseSensitive": ("invariant", "Inv_Faithful"), "PerOpTimeout": ("invariant", "Inv_Timely"),
    "HeadersDropped": ("invariant", "Inv_Faithful"), "GiveUpOnEmptyRead": ("invariant", "Inv_Faithful"),
    "BodyTruncatedOk": ("invariant", "Inv_Faithful"),
}
SENS_QUICK = ["NoReadTimeout", "CloseDelimitedLost", "UnmodelledStatusIs502", "ChunkedTruncatedOk",
              "XffDisplaySuffix", "WriteWithoutDeadline", "TeCaseSensitive"]
LB_SENS_QUICK = ["NoLock", "SelectOnCloneWriteBack", "WrapLate"]
LB_SENS = {"NoLock": "Inv_Rotation", "IncrementOutsideLock": "Inv_Rotation", "SelectOnCloneWriteBack": "Inv_Rotation",
           "WrapLate": None, "RandomOffByOne": "Inv_InSet"}
PROXY_ACTIONS = ["P_Strip", "P_Connect", "P_Write", "P_Read", "P_Map", "Up_Send", "Up_Close", "Tick"]
LB_ACTIONS = ["A_Lock", "A_SelRead", "A_SelWrite", "A_Unlock"]


def _run_tlc(*a, **kw):
    """vlib.run_tlc does not recognise this TLC's wording 'Error: Temporal property X was violated' and raises;
    exit status 13 is TLC's code for a liveness violation and nothing else."""
    try:
        return run_tlc(*a, **kw)
    except OSError as e:
        raise vlib.ToolError("cannot run TLC: %s" % e)
    except vlib.ToolError as e:
        if "TLC failed rc=13" not in str(e):
            raise
        r = vlib.TLCResult()
        r.rc, r.violation, r.violated_name, r.out = 13, "temporal", None, str(e)
        return r


def _run_harness(path, args, **kw):
    """the harness opens thousands of loopback connections and threads on a shared machine: a run that dies of a
    transient OS refusal (its own panic, non-zero exit) is repeated once before it becomes a tool error"""
    try:
        p = run_bin(path, args, **kw)
    except OSError as e:          # fork / pipe refused by the OS: a tool error, not an internal error of the check
        raise vlib.ToolError("cannot run the harness: %s" % e)
    if p.returncode != 0:
        vlib.log("proxy %s exited %s (%s); retrying once" % (args[0], p.returncode, p.stderr[-300:].strip()))
        time.sleep(5)
        p = run_bin(path, args, **kw)
    return p


def _gen_lines(r, first_id):
    out = []
    for i, x in enumerate(r.prints):
        if isinstance(x, dict) and "wire" in x:
            x = dict(x)
            x["id"] = first_id + len(out)
            out.append(x)
    return out


def _thin_handler_timeouts(lines, keep):
    """proxy_handler's timeout is a fixed 5 s: of the behaviours that end by the deadline only `keep` go through it."""
    out, n = [], 0
    cand = [x for x in lines if x["entry"] == "handler" and x["lastin"] == "timeout"]
    step = max(1, len(cand) // max(1, keep))
    for x in lines:
        if x["entry"] == "handler" and x["lastin"] == "timeout":
            n += 1
            if (n - 1) % step != 0 or (n - 1) // step >= keep:
                continue
        out.append(x)
    return out


def _is_known(ctx, devs):
    return any(ctx.known.is_open(ctx.prop, d) for d in (devs or []))


def _report(ctx, what_prefix, case_id, devs, obj):
    """one mismatch: attributed to a deviation (known finding if listed open) or a violation"""
    devs = devs or []
    for d in devs:
        if ctx.known.is_open(ctx.prop, d):
            ctx.violation("%s (as Dev={%s} predicts)" % (what_prefix, d), obj, dev=d)
            return
    ctx.violation("%s case %s%s" % (what_prefix, case_id, (" (would be explained by Dev=%s, which is not listed open)" % devs) if devs else ""), obj)


def _validate_trace(ctx, name, records, work, depth=0, budget=None):
    """Trace_Proxy.tla over observation records; returns (checked, nontrivial, rejected list).
    If TLC cannot evaluate the file (an evaluation error, a record of a shape the trace spec is not total over) the
    records are validated in halves, down to single records: a record TLC cannot evaluate is reported as spec drift
    (it is neither accepted nor a finding), everything else is still judged. Only when that happens for many records
    (the tooling itself is broken) does it become a tool error."""
    budget = budget if budget is not None else {"unevaluable": 0}
    try:
        return _validate_trace_once(ctx, name if depth == 0 else "%s/%d" % (name, depth), records, work)
    except vlib.ToolError as e:
        if len(records) <= 1:
            budget["unevaluable"] += 1
            if budget["unevaluable"] > 24:
                raise
            ctx.drift("C09 trace " + name, "Trace_Proxy could not evaluate a recorded call (reported, not judged): %s" % str(e)[-300:],
                      {"kind": "proxy-trace-unevaluable", "record": records[0] if records else None})
            return len(records), 0, []
        vlib.log("Trace_Proxy failed on %d records of %s; validating them in halves" % (len(records), name))
        mid = len(records) // 2
        a = _validate_trace(ctx, name, records[:mid], work, depth + 1, budget)
        b = _validate_trace(ctx, name, records[mid:], work, depth + 1, budget)
        return a[0] + b[0], a[1] + b[1], a[2] + b[2]


def _validate_trace_once(ctx, name, records, work):
    path = os.path.join(work, name.replace("/", "-") + ".ndjson")
    keep = ("id", "entry", "req", "route", "connected", "noread", "segs", "term", "got", "late", "seenok", "seen")
    vlib.write_lines(path, [{k: r[k] for k in keep} for r in records])
    try:
        t = _run_tlc("Trace_Proxy.tla", "Trace_Proxy.cfg", D, workers=1, env={"TRACE": path}, timeout=1200, work_id="c09", deque=True)
    except vlib.ToolError:
        os.remove(path)
        raise
    os.remove(path)
    summ = [p for p in t.prints if isinstance(p, dict) and "checked" in p]
    if not summ or summ[-1]["checked"] != len(records):
        raise vlib.ToolError("Trace_Proxy did not consume %s: %s" % (name, t.out[-1500:]))
    s = summ[-1]
    if t.violation is not None:
        raise vlib.ToolError("Trace_Proxy failed on %s: %s" % (name, t.out[-1500:]))
    ctx.add_tlc("trace validation: %s (%d records)" % (name, len(records)), t)
    return s["checked"], s["nontrivial"], s["rejected"]


def _validate_lb(name, records, work, ctx=None):
    """all groups at once; if TLC cannot evaluate the file, group by group: a group TLC cannot evaluate is spec drift"""
    try:
        return _validate_lb_once(name, records, work, ctx)
    except vlib.ToolError as e:
        groups, cur = [], None
        for x in records:
            if x["k"] == "cfg":
                cur = [x]
                groups.append(cur)
            elif cur is not None:
                cur.append(x)
        if len(groups) <= 1:
            raise
        vlib.log("Trace_LoadBalancer failed on %s (%s); validating %d groups one by one" % (name, str(e)[-200:], len(groups)))
        ok, lin, bad, unevaluable = True, 0, [], 0
        for gi, g in enumerate(groups, 1):
            try:
                a, n, bc = _validate_lb_once("%s-g%d" % (name, gi), g, work, None)
            except vlib.ToolError as e2:
                unevaluable += 1
                if unevaluable > 8 or ctx is None:
                    raise
                ctx.drift("C09 balancer", "Trace_LoadBalancer could not evaluate group %d (reported, not judged): %s" % (gi, str(e2)[-300:]),
                          {"kind": "balancer-unevaluable", "group": g[:50]})
                lin += 1 if ok else 0
                continue
            if a and ok:
                lin = gi
            ok = ok and a
            bad += [gi for _ in bc]
        return ok, lin, bad


def _validate_lb_once(name, records, work, ctx=None):
    """Trace_LoadBalancer.tla: accepted iff NotAccepted is violated. Returns (accepted, groups linearised, groups whose
    per-target counts are impossible for a strict rotation)"""
    path = os.path.join(work, name + ".ndjson")
    vlib.write_lines(path, records)
    try:
        t = _run_tlc("Trace_LoadBalancer.tla", "Trace_LoadBalancer.cfg", D, workers=1, env={"TRACE": path}, timeout=900, work_id="c09", deque=True)
    except vlib.ToolError:
        os.remove(path)
        raise
    if ctx is not None:
        ctx.add_tlc("trace validation: %s (%d records)" % (name, len(records)), t)
    os.remove(path)
    groups = max([p["group"] for p in t.prints if isinstance(p, dict) and "group" in p] or [0])
    accepted = t.violation == "invariant" and t.violated_name == "NotAccepted"
    if t.violation is not None and not accepted:
        raise vlib.ToolError("Trace_LoadBalancer failed: %s" % t.out[-1500:])
    bc = [p for p in t.prints if isinstance(p, dict) and "badcounts" in p]
    if not bc:
        raise vlib.ToolError("Trace_LoadBalancer printed no count verdict: %s" % t.out[-1500:])
    return accepted, groups, bc[0]["badcounts"]


def run(tier, replay):
    # a scratch directory of this run only: two C09 checks at the same time (another checkout through VERIF_REPO, a
    # seed re-check) must not read, overwrite or delete each other's trace files
    import shutil
    work = os.path.join(vlib.workdir("C09"), "run-%d-%d" % (os.getpid(), int(time.time() * 1000) % 100000000))
    os.makedirs(work, exist_ok=True)
    try:
        return _run(tier, replay, work)
    finally:
        shutil.rmtree(work, ignore_errors=True)


def _run(tier, replay, work):
    ctx = Ctx("C09", tier, "model_checking")
    thorough = tier == "thorough"
    bindir = build_harness(["proxy"])
    proxy = os.path.join(bindir, "proxy")

    if replay:
        # re-run stored behaviours against the current code
        obj = json.load(open(replay))
        case = obj.get("case", {})
        lines = case.get("gen_lines") or ([case["gen"]] if "gen" in case else [])
        if lines:
            p = run_bin(proxy, ["replay", str(case.get("timeout_ms", 450)), str(case.get("ticks", 3)), "8"],
                        stdin_data="\n".join(json.dumps(x) for x in lines) + "\n")
            for r in parse_jsonl(p.stdout):
                ctx.cov["evaluations"] += 1
                if not r["ok"]:
                    _report(ctx, "replayed behaviour still disagrees with the specification:", r["id"], r["devs"],
                            {"kind": "proxy-replay", "gen": [x for x in lines if x["id"] == r["id"]][0], "observed": r["trace"]})
            return ctx.finish()
        vlib.log("replay file carries no re-runnable behaviour; running the whole check")

    # ------------------------------------------------------------------ 1 + generation: TLC runs, concurrently
    jobs = {}
    ex = cf.ThreadPoolExecutor(max_workers=6)

    def tlc(key, module, cfg, **kw):
        jobs[key] = ex.submit(_run_tlc, module, cfg, D, work_id="c09-" + key, **kw)

    if thorough:
        tlc("mc", "MC_Proxy.tla", "MC_Proxy_thorough.cfg", workers=6, coverage=True, timeout=2400, heap="8g")
        tlc("mc_live", "MC_Proxy.tla", "MC_Proxy_thorough_live.cfg", workers=4, timeout=1800, heap="6g")
        tlc("mc_six", "MC_Proxy.tla", "MC_Proxy_six.cfg", workers=2, timeout=1200)
    else:
        tlc("mc", "MC_Proxy.tla", "MC_Proxy_quick.cfg", workers=4, coverage=True, timeout=900)
    tlc("mc_write", "MC_Proxy.tla", "MC_Proxy_write.cfg", workers=2, timeout=900)
    tlc("mc_fwd", "MC_Proxy.tla", "MC_Proxy_fwd.cfg" if thorough else "MC_Proxy_fwd_quick.cfg", workers=2, timeout=900)
    tlc("lb", "LoadBalancer.tla", "MC_LoadBalancer_thorough.cfg" if thorough else "MC_LoadBalancer_quick.cfg", workers=4, coverage=True, timeout=900)
    # (key, generation config, proxy_request timeout ms, ticks of the model's Timeout [, harness threads])
    gens = [("fast", "Gen_Proxy_fast_thorough.cfg" if thorough else "Gen_Proxy_fast_quick.cfg", 450, 3),
            ("trickle6", "Gen_Proxy_trickle6.cfg", 600, 6),
            ("fwd", "Gen_Proxy_fwd.cfg" if thorough else "Gen_Proxy_fwd_quick.cfg", 450, 3),
            # a target that accepts and never reads x request bodies {2 B, 8 MiB, 32 MiB}: write_all blocks; two timeouts
            ("noread", "Gen_Proxy_noread.cfg", 450, 3, 3), ("noread1500", "Gen_Proxy_noread.cfg", 1500, 3, 3),
            # boundary values: first/last status code of each class and codes that are none (0, 99, 600, 1000, 65536);
            # Content-Length that is no length or larger than anything sent (+1, 2^31-1, 2^32, 2^63-1, 2^64-1)
            ("bounds", "Gen_Proxy_bounds.cfg", 450, 3, 32),
            # chunk / body sizes 15, 16, 26, 255, 256 (4096) bytes, hex digits in both cases; "Transfer-Encoding: Chunked"
            ("sizes", "Gen_Proxy_sizes.cfg" if thorough else "Gen_Proxy_sizes_quick.cfg", 450, 3, 32),
            # (the header sets of "bounds": empty value, ':' in a value, one name three times in non-sorted order, 36 headers
            # with one name six times); thorough also with all three framings through proxy_handler
            # a target that starts to READ the request one tick (800 ms) late x request bodies {2 B, 8 MiB}
            ("lateread", "Gen_Proxy_lateread.cfg", 2400, 3, 8)]
    # the pause/trickle family again with a timeout long enough that "one more whole timeout" (a per-operation
    # timer re-armed by a late partial response) exceeds timeout + slack: seeded change C09-timeout-armed-once
    gens += [("timing_long", "Gen_Proxy_timing.cfg", 2400, 3)]
    if thorough:
        gens += [("timing", "Gen_Proxy_timing.cfg", 450, 3), ("codes", "Gen_Proxy_codes.cfg", 450, 3), ("hdrs", "Gen_Proxy_hdrs.cfg", 450, 3)]
    gens = [g if len(g) == 5 else g + (32,) for g in gens]
    for cfg in sorted(set(g[1] for g in gens)):
        tlc("gen_" + cfg, "MC_Proxy.tla", cfg, workers=1, timeout=1500, heap="6g")
    for d in (sorted(SENS) if thorough else SENS_QUICK):
        tlc("dev_" + d, "MC_Proxy.tla", "MC_Proxy_dev_%s.cfg" % d, workers=2, timeout=900)
    for d in (sorted(LB_SENS) if thorough else LB_SENS_QUICK):
        tlc("lbdev_" + d, "LoadBalancer.tla", "MC_LoadBalancer_dev_%s.cfg" % d, workers=1, timeout=600)
    for w in (("AllTargetsUsed", "Interleaved") if thorough else ("Interleaved",)):
        tlc("lbwit_" + w, "LoadBalancer.tla", "MC_LoadBalancer_wit_%s.cfg" % w, workers=1, timeout=600)
    res = {}
    try:
        for k, f in jobs.items():
            res[k] = f.result()
    finally:
        ex.shutdown(wait=True)

    r = res["mc"]
    ctx.add_tlc("Proxy: upstream x proxy x clock, Dev={} (%s)" % ("all registered codes, safety" if thorough else "4 code classes, safety + liveness"), r)
    ctx.require_tlc_ok("MC_Proxy", r)
    ctx.require_cover("MC_Proxy", r, PROXY_ACTIONS)
    if thorough:
        ctx.add_tlc("Proxy: Live_Responds + invariants, Timeout=3", res["mc_live"])
        ctx.require_tlc_ok("MC_Proxy_live", res["mc_live"])
        ctx.add_tlc("Proxy: bodies of up to 6 chunks", res["mc_six"])
        ctx.require_tlc_ok("MC_Proxy_six", res["mc_six"])
    ctx.add_tlc("Proxy: request write against a target that never reads (padded bodies), safety + liveness", res["mc_write"])
    ctx.require_tlc_ok("MC_Proxy_write", res["mc_write"])
    ctx.add_tlc("Proxy: Inv_Forwarded over C02-like requests x routes x entries", res["mc_fwd"])
    ctx.require_tlc_ok("MC_Proxy_fwd", res["mc_fwd"])
    r = res["lb"]
    ctx.add_tlc("LoadBalancer: 1..4 targets x 1..%d threads x %d calls, both modes" % ((4, 3) if thorough else (3, 2)), r)
    ctx.require_tlc_ok("MC_LoadBalancer", r)
    ctx.require_cover("MC_LoadBalancer", r, LB_ACTIONS)
    for k in sorted(res):
        if k.startswith("dev_"):
            d = k[4:]
            kind, name = SENS[d]
            ctx.add_tlc("sensitivity: Dev={%s} must violate %s" % (d, name or "Live_Responds"), res[k])
            if res[k].violation != kind or (name and res[k].violated_name != name):
                raise vlib.ToolError("model lost sensitivity: Dev={%s} gives %s %s" % (d, res[k].violation, res[k].violated_name))
        elif k.startswith("lbdev_"):
            d = k[6:]
            ctx.add_tlc("sensitivity: LoadBalancer Dev={%s} must violate an invariant" % d, res[k])
            if res[k].violation != "invariant" or (LB_SENS[d] and res[k].violated_name != LB_SENS[d]):
                raise vlib.ToolError("balancer model lost sensitivity: Dev={%s} gives %s %s" % (d, res[k].violation, res[k].violated_name))
        elif k.startswith("lbwit_"):
            ctx.add_tlc("can-happen witness %s (negation must be violated)" % k[6:], res[k])
            if res[k].violation != "invariant" or res[k].violated_name != "Never_" + k[6:]:
                raise vlib.ToolError("witness %s not reachable in the balancer model" % k)

    # ------------------------------------------------------------------ 2. behaviours from TLC played on the real code
    observations = []
    next_id = 0
    selftest_vec = None
    counted = set()
    for key, cfg, timeout_ms, ticks, nthreads in gens:
        g = res["gen_" + cfg]
        if g.violation:
            raise vlib.ToolError("generation %s failed: %s" % (cfg, g.out[-2000:]))
        if cfg not in counted:
            counted.add(cfg)
            ctx.add_tlc("behaviour generation %s" % cfg, g)
        lines = _gen_lines(g, next_id)
        if not lines:
            raise vlib.ToolError("generation %s printed nothing" % cfg)
        next_id += len(lines)
        total = len(lines)
        lines = _thin_handler_timeouts(lines, 64 if thorough else 16)
        if not thorough and key == "lateread":
            # quick: the behaviours that end with the upstream's answer, and every 16th of the others
            lines = [x for i, x in enumerate(lines) if x["exp"]["kind"] == "resp" or (i + ctx.seed) % 16 == 0]
        if key.startswith("noread"):
            # proxy_handler's 5 s: thorough only, and once
            lines = [x for x in lines if x["entry"] == "core" or (thorough and key == "noread")]
        if not thorough and key in ("timing", "trickle6"):
            # quick: every 3rd timed behaviour (they cost real time), rotated by the seed
            lines = [x for i, x in enumerate(lines) if (i + ctx.seed) % 3 == 0]
        if not thorough and key == "timing_long":
            lines = [x for i, x in enumerate(lines) if (i + ctx.seed) % 6 == 0]
        p = _run_harness(proxy, ["replay", str(timeout_ms), str(ticks), str(nthreads)], stdin_data="\n".join(json.dumps(x) for x in lines) + "\n", timeout=2400)
        out = parse_jsonl(p.stdout)
        if p.returncode != 0 or len(out) != len(lines):
            raise vlib.ToolError("proxy replay %s failed rc=%s, %d of %d results: %s" % (cfg, p.returncode, len(out), len(lines), p.stderr[-1500:]))
        by_id = {x["id"]: x for x in lines}
        bad = 0
        # confirmation: a mismatch that no open deviation explains is executed once more, in a fresh harness process
        # with little concurrency; only what fails again is reported (defects of the code are deterministic,
        # a busy shared machine is not)
        # (a call still blocked after the escalating waits is not machine noise: hangs are reported without a re-run)
        suspects = [o["id"] for o in out if not o["ok"] and not _is_known(ctx, o["devs"]) and o["trace"]["got"]["kind"] != "hang"]
        unconfirmed = 0
        if suspects:
            time.sleep(2)
            p2 = _run_harness(proxy, ["replay", str(timeout_ms), str(ticks), "3"],
                              stdin_data="\n".join(json.dumps(by_id[i]) for i in suspects) + "\n", timeout=2400)
            again = {o["id"]: o for o in parse_jsonl(p2.stdout)}
            if p2.returncode != 0 or len(again) != len(suspects):
                raise vlib.ToolError("proxy replay (confirmation) failed rc=%s: %s" % (p2.returncode, p2.stderr[-1500:]))
            for i, o in enumerate(out):
                if o["id"] in again:
                    if again[o["id"]]["ok"]:
                        unconfirmed += 1
                    out[i] = again[o["id"]]
        drifts = {}
        for o in out:
            for d in o.get("drift") or []:
                drifts.setdefault(d, []).append(o["id"])
            ctx.cov["evaluations"] += 1
            if o["nontrivial"]:
                ctx.cov["distinct_nontrivial"] += 1
            observations.append(o["trace"])
            if o["ok"] and selftest_vec is None and o["nontrivial"] and o["trace"]["got"]["body"] and o["trace"]["entry"] == "core":
                selftest_vec = by_id[o["id"]]
            if not o["ok"]:
                bad += 1
                gl = by_id[o["id"]]
                _report(ctx, "behaviour %s: answer/forwarding/timeliness differs from the specification;" % key, o["id"], o["devs"],
                        {"kind": "proxy-replay", "cfg": cfg, "timeout_ms": timeout_ms, "ticks": ticks, "gen": gl, "observed": o["trace"],
                         "ans_ok": o["ans_ok"], "fwd_ok": o["fwd_ok"], "late": o["late"]})
            elif o["nontrivial"] and key in ("fast", "fwd") and len(ctx.cov["samples"]) < 4 and o["id"] % 7 == 0:
                gl = by_id[o["id"]]
                ctx.sample({"entry": gl["entry"], "upstream_events": gl["ev"], "segments": [s["k"] for s in gl["wire"]],
                            "answer": o["trace"]["got"], "forwarded": o["trace"]["seen"]})
        for d, ids in drifts.items():
            # beyond the property (it says "502 Bad Gateway", not what the page looks like; it does not fix the timeout
            # proxy_handler passes): reported, never gating
            ctx.drift("C09 " + key, "%s (%d behaviour(s), e.g. %s)" % (d, len(ids), ids[0]), {"kind": "proxy-drift", "what": d, "gen": by_id[ids[0]]})
        ctx.cov["traces_validated_against_impl"] += len(out)
        ctx.add_part("behaviours %s (%s, %d ms)" % (cfg, key, timeout_ms), generated=total, replayed=len(out), mismatches=bad,
                     retried=len([o for o in out if o.get("retried")]), mismatches_not_confirmed_on_rerun=unconfirmed)

    # self-test of the spec -> code direction: one expected value of a vector flipped must be reported, unattributed
    if selftest_vec is not None:
        v = copy.deepcopy(selftest_vec)
        v["exp"]["body"] = v["exp"]["body"][:-2]
        w = copy.deepcopy(selftest_vec)
        w["fwd"]["hdrs"] = [h for h in w["fwd"]["hdrs"] if not h.startswith("x-forwarded-for")]
        w["id"] = v["id"] + 1
        p = run_bin(proxy, ["replay", "450", "3", "2"], stdin_data=json.dumps(v) + "\n" + json.dumps(w) + "\n")
        out = parse_jsonl(p.stdout)
        if len(out) != 2 or any(o["ok"] or o["devs"] for o in out) or out[0]["ans_ok"] or out[1]["fwd_ok"]:
            raise vlib.ToolError("self-test: the harness accepted a corrupted vector: %s" % p.stdout[-1500:])

    # ------------------------------------------------------------------ 3a. byte-offset cuts, validated by TLC
    # nbig: 30-90 KB bodies, cut at sampled offsets; nslow: 2-3 MiB responses delivered in pieces 100 ms apart
    nseeds, stall_mod, nbig, nslow = (24, 1, 6, 6) if thorough else (9, 3, 3, 2)
    p = _run_harness(proxy, ["cuts", "300", "32", str(stall_mod), str(nseeds), str(nbig), str(nslow)], timeout=2400)  # = cut_args below
    cuts = parse_jsonl(p.stdout)
    if p.returncode != 0 or not cuts:
        raise vlib.ToolError("proxy cuts failed rc=%s: %s" % (p.returncode, p.stderr[-1500:]))
    cut_args = ["cuts", "300", "32", str(stall_mod), str(nseeds), str(nbig), str(nslow)]
    for name, recs in (("byte-cuts", cuts), ("replayed-behaviours", observations)):
        checked, nontrivial, rejected = _validate_trace(ctx, name, recs, work)
        by_id = {r["id"]: r for r in recs}
        suspects = [rj["id"] for rj in rejected if not _is_known(ctx, rj["devs"])]
        if suspects and name == "byte-cuts":
            # confirmation, as above: the unexplained cuts are executed again (same seed => same ids) and re-validated
            ids = os.path.join(work, "only-ids.txt")
            with open(ids, "w") as f:
                f.write("\n".join(suspects) + "\n")
            time.sleep(2)
            p2 = _run_harness(proxy, cut_args[:2] + ["4"] + cut_args[3:], timeout=2400, env={"VERIF_ONLY_IDS": ids})
            os.remove(ids)
            again = parse_jsonl(p2.stdout)
            if p2.returncode != 0 or sorted(r["id"] for r in again) != sorted(suspects):
                raise vlib.ToolError("proxy cuts (confirmation) failed rc=%s: %s" % (p2.returncode, p2.stderr[-1500:]))
            _, _, rejected2 = _validate_trace(ctx, "byte-cuts-confirmation", again, work)
            still = {rj["id"]: rj for rj in rejected2}
            by_id.update({r["id"]: r for r in again})
            ctx.add_part("trace byte-cuts confirmation", rerun=len(suspects), rejected_again=len(still))
            rejected = [rj for rj in rejected if rj["id"] not in suspects] + list(still.values())
        if name == "byte-cuts":
            ctx.cov["evaluations"] += checked
            ctx.cov["distinct_nontrivial"] += nontrivial
            ctx.cov["traces_validated_against_impl"] += checked
        ctx.add_part("trace " + name, records=checked, expected_upstream_answer=nontrivial, rejected=len(rejected))
        for rj in rejected:
            _report(ctx, "recorded call (%s) rejected by Trace_Proxy (answer ok=%s, late=%s, forwarded ok=%s);" % (name, rj["ans"], rj["late"], rj["fwd"]),
                    rj["id"], rj["devs"], {"kind": "proxy-trace", "record": by_id.get(rj["id"]), "verdict": rj})
    for c in cuts:
        if c["got"]["kind"] == "resp" and c["term"] == "eof" and len(ctx.cov["samples"]) < 6 and len(c["segs"]) > 4:
            ctx.sample({"cut": c["id"], "delivered": [s["k"] for s in c["segs"]], "then": c["term"], "answer": c["got"]})

    # ------------------------------------------------------------------ 3a'. three calls in flight on one route, one target silent
    # (every call is bounded by its own deadline: Proxy.tla has no state shared between calls but the balancer's index)
    p = _run_harness(proxy, ["stall"], timeout=120)
    st = [x for x in parse_jsonl(p.stdout) if x.get("summary")]
    if p.returncode != 0 or not st:
        raise vlib.ToolError("proxy stall failed rc=%s: %s" % (p.returncode, p.stderr[-1500:]))
    ctx.cov["evaluations"] += 3
    ctx.add_part("concurrent calls, one target silent", calls=st[0]["calls"], total_ms=st[0]["total_ms"], not_as_specified=len(st[0]["bad"]))
    if st[0]["bad"]:
        ctx.violation("three proxied requests in flight on one route (targets: silent, healthy, silent): %s" % "; ".join(st[0]["bad"])[:900],
                      {"kind": "proxy-stall", "calls": st[0]["calls"], "bad": st[0]["bad"]})

    # ------------------------------------------------------------------ 3b. balancer logs linearised by TLC
    # small groups (1..4 targets x 1..K threads x 3 calls, both modes, locked and through proxy_handler) and stress rounds:
    # 8 threads x 200 (thorough: 300) proxy_handler calls each on one round-robin balancer against fast upstreams
    p = _run_harness(proxy, ["lb", "8" if thorough else "4", "3"] + (["12", "300"] if thorough else ["4", "200"]), timeout=900)
    lb = parse_jsonl(p.stdout)
    ngroups = len([x for x in lb if x["k"] == "cfg"])
    if p.returncode != 0 or ngroups == 0:
        raise vlib.ToolError("proxy lb failed rc=%s: %s" % (p.returncode, p.stderr[-1500:]))
    accepted, groups, badcounts = _validate_lb("balancer", lb, work, ctx)
    calls = [x for x in lb if x["k"] == "call"]
    # measured, not assumed: in how many multi-thread groups did selections of different threads alternate?
    interleaved, cur = 0, []
    for x in lb + [{"k": "cfg"}]:
        if x["k"] == "cfg":
            ts = [c["t"] for c in cur]
            if any(ts[i] != ts[i + 1] and ts[i] in ts[i + 2:] for i in range(len(ts) - 2)):
                interleaved += 1
            cur = []
        else:
            cur.append(x)
    ctx.cov["evaluations"] += len(calls)
    ctx.cov["distinct_nontrivial"] += interleaved
    ctx.cov["traces_validated_against_impl"] += ngroups
    ctx.add_part("balancer", groups=ngroups, selections=len(calls), groups_linearised=groups, groups_with_interleaved_threads=interleaved,
                 stress_rounds=len([x for x in lb if x["k"] == "cfg" and x["t"] == 8 and x["via"] == "handler" and x["mode"] == "RoundRobin"]),
                 groups_with_impossible_counts=len(badcounts))
    cfgs = [x for x in lb if x["k"] == "cfg"]
    for gi in badcounts:
        gcfg = cfgs[gi - 1]
        cnt = {}
        n = 0
        for x in lb:
            if x["k"] == "cfg":
                n += 1
            elif n == gi:
                cnt[x["r"]] = cnt.get(x["r"], 0) + 1
        ctx.violation("round-robin over %d targets, %d threads (%s): targets were chosen %s times; a strict rotation gives floor/ceil(T/n) each"
                      % (gcfg["nt"], gcfg["t"], gcfg["via"], dict(sorted(cnt.items()))), {"kind": "balancer-counts", "group": gi, "cfg": gcfg, "counts": cnt})
    if not accepted:
        failing = []
        n = 0
        for x in lb:
            if x["k"] == "cfg":
                n += 1
            if n == groups + 1:
                failing.append(x)
        ctx.violation("select_target log has no linearisation that is a rotation / inside the target set (group %d: %s)" % (groups + 1, json.dumps(failing[:1])),
                      {"kind": "balancer-trace", "group": failing[:400]})
    else:
        ctx.sample({"balancer_group": [x for x in lb if x["nt"] == 3 and x["mode"] == "RoundRobin" and x["via"] == "handler"][:8]})

    # ------------------------------------------------------------------ 4. self-test: corrupted records are rejected
    good = [c for c in cuts if c["got"]["kind"] == "resp" and c["got"]["body"]]
    probe = copy.deepcopy(good[:1] + [c for c in cuts if c["got"]["kind"] == "502"][:1])
    if len(probe) == 2:
        probe[0]["got"]["body"] = probe[0]["got"]["body"][:-2]          # one body byte lost
        probe[0]["id"] = "corrupt-body"
        probe[1]["seen"]["hdrs"] = [h for h in probe[1]["seen"]["hdrs"] if not h.startswith("x-forwarded-for")]
        probe[1]["id"] = "corrupt-xff"
        _, _, rejected = _validate_trace(ctx, "self-test-corrupted", probe, work)
        if sorted(r["id"] for r in rejected) != ["corrupt-body", "corrupt-xff"] or any(r["devs"] for r in rejected):
            raise vlib.ToolError("self-test: Trace_Proxy accepted a corrupted record: %s" % rejected)
    grp, seen = [], False
    for x in lb:
        if x["k"] == "cfg":
            if seen:
                break
            # a "locked" group: its log is totally ordered, so swapping two consecutive results must break it
            seen = x["nt"] == 3 and x["mode"] == "RoundRobin" and x["t"] >= 2 and x["via"] == "locked"
        if seen:
            grp.append(dict(x))
    if len(grp) > 3:
        grp[2]["r"], grp[3]["r"] = grp[3]["r"], grp[2]["r"]              # two consecutive selections swapped
        acc, _, _ = _validate_lb("self-test-balancer", grp, work)
        if acc:
            raise vlib.ToolError("self-test: Trace_LoadBalancer accepted a log with two selections swapped")
    ctx.add_part("self-test", corrupted_vectors_reported=2 if selftest_vec is not None else 0, corrupted_proxy_records_rejected=2,
                 corrupted_balancer_log_rejected=True)

    ctx.cov["rule"] = ("every behaviour TLC enumerates for the bounded upstream (per Gen config) is played once against proxy_request and, "
                       "except most deadline cases, proxy_handler; every byte offset of each seed response x {close, stall}; "
                       "non-trivial = calls whose specified answer is the upstream's own response (not the 502 page), plus balancer "
                       "groups in which selections of different threads alternated")
    ctx.cov["exhaustive"] = True
    ctx.assumptions += [
        "Acceptable(segs, term) in ProxyMsg.tla is the property's reading of 'valid HTTP/1.x response' (DESIGN 5a: any 3-digit code, close-delimited bodies)",
        "the client's address is Request.address.origin_addr; header names compare case-insensitively, header order is not observed",
        "Content-Length / Transfer-Encoding of the answer are framing and not compared; 1xx interim responses are not generated",
        "timeliness is judged only as 'returned within timeout + 1.5 s'; a call still blocked after timeout + 1.5 + 14 s of escalating waits is a hang",
        "a chunked body whose last-chunk line arrived but whose final CRLF did not (then close) may be answered either way",
        "connect to a black-holed address (SYN dropped) is not produced on loopback; refusal is",
    ]
    return ctx.finish()
