"""C10 - WebSocket frames encode to the RFC 6455 section 5.2 layout and decode back under any split.

1. TLC on WsFrame.tla: the decoder model (one action per read_exact of frame.rs, fed by a network that delivers
   the bytes in arbitrary pieces and may close early) ends, under every delivery schedule, with exactly what the
   denotational Decode says about the bytes sent, never reads ahead and terminates; the encoder model equals
   the denotational Encode; Decode(Encode(f)) = f with the payload unmasked; header round trip and shortest
   length form for every FIN x RSV x opcode x mask/key x length class.  Sensitivity: four plausible bugs
   (7-bit form up to 126, 16-bit form up to 65536, key written when unmasked, unmask index shifted) MUST be refuted.
2. spec -> code: TLC prints the exact header of every abstract frame [len, seed], fields/Need of all 65536
   two-byte headers, Decode() of small concrete wires (truncated, non-minimal, reserved, oversized) and the XOR
   table; `wsframe replay` expands payloads, compares encode() byte for byte, decodes under every split point
   (< 300 bytes) or seeded random splits, checks truncations, back-to-back frames and Message::to_frame.
3. code -> spec: random frames up to 1 MiB and random byte strings logged by the harness, validated by TLC
   (Trace_WsFrame).
4. Binding self-test: corrupted vector lines and a corrupted trace record must be rejected."""
import concurrent.futures as cf
import copy
import json
import os

import vlib
from vlib import Ctx, run_tlc, build_harness, run_bin, parse_jsonl, SPEC

D = os.path.join(SPEC, "ws")
JVM = {"JAVA_TOOL_OPTIONS": "-XX:ParallelGCThreads=2 -XX:CICompilerCount=2"}
DEC_ACTIONS = ["Net_Deliver", "Net_Close", "Dec_Header", "Dec_Len16", "Dec_Len64", "Dec_Key", "Dec_Payload", "Dec_Eof"]


def run(tier, replay):
    ctx = Ctx("C10", tier, "model_checking")
    thorough = tier == "thorough"
    bindir = build_harness(["wsframe"])
    ws = os.path.join(bindir, "wsframe")
    wd = vlib.workdir("C10")
    tr = os.path.join(wd, "random.ndjson")

    jobs = [
        ("decoder model under every delivery schedule", "MC_WsFrame_thorough.cfg" if thorough else "MC_WsFrame_quick.cfg", 8 if thorough else 4, "mc", DEC_ACTIONS),
        ("encoder model = Encode, Decode(Encode(f)) = f unmasked", "MC_WsFrame_frames.cfg", 4, "mc", []),
        ("abstract frames, all two-byte headers, XOR table, concrete wires (+ header lemmas)", "Gen_WsFrame.cfg", 2, "gen", None),
        ("mutation Len7UpTo126", "MC_WsFrame_mut_Len7UpTo126.cfg", 1, "sens", "invariant"),
        ("mutation Len16UpTo65536", "MC_WsFrame_mut_Len16UpTo65536.cfg", 1, "sens", "invariant"),
        ("mutation KeyAlways", "MC_WsFrame_mut_KeyAlways.cfg", 1, "sens", "invariant"),
        ("mutation UnmaskShifted", "MC_WsFrame_mut_UnmaskShifted.cfg", 2, "sens", "invariant"),
        ("mutation Len64Low32 (64-bit length narrowed)", "MC_WsFrame_mut_Len64Low32.cfg", 2, "sens", "invariant"),
        ("mutation Mask64Dropped (MASK bit lost in the 64-bit form)", "MC_WsFrame_mut_Mask64Dropped.cfg", 1, "sens", "invariant"),
    ]

    def trace_job():
        p = run_bin(ws, ["random", "3000" if thorough else "400", "5242880" if thorough else "1048576"])
        if p.returncode != 0:
            raise vlib.ToolError("wsframe random failed: " + p.stderr[-1000:])
        with open(tr, "w") as f:
            f.write(p.stdout)
        recs = parse_jsonl(p.stdout)
        t = run_tlc("Trace_WsFrame.tla", "Trace_WsFrame.cfg", D, workers=1, env=dict(JVM, TRACE=tr), timeout=3000, work_id="c10-trace", deque=True)
        return recs, t

    def do(job):
        if job == "trace":
            return job, trace_job()
        name, cfg, workers, kind, arg = job
        return job, run_tlc("MC_WsFrame.tla", cfg, D, workers=workers, coverage=(kind == "mc" and bool(arg)), timeout=3000,
                            heap="6g" if thorough else "4g", env=JVM, work_id="c10-" + cfg.replace(".cfg", ""))

    results, trace_result = [], None
    with cf.ThreadPoolExecutor(max_workers=4) as ex:
        for job, r in ex.map(do, ["trace"] + jobs):
            if job == "trace":
                trace_result = r
            else:
                results.append((job, r))

    gen = None
    for (name, cfg, workers, kind, arg), r in results:
        ctx.add_tlc(name, r, note=cfg)
        if kind == "sens":
            if r.violation != arg:
                raise vlib.ToolError("model lost sensitivity: %s (%s) is no longer refuted by TLC" % (name, cfg))
            continue
        ctx.require_tlc_ok(name, r)
        if r.violation:
            continue
        if kind == "mc" and arg:
            ctx.require_cover(name, r, arg)
        if kind == "gen":
            gen = r.prints
    if ctx.violations:
        return ctx.finish()
    if not gen:
        raise vlib.ToolError("generation printed nothing")

    order = {"xor": 0, "frame": 1, "bigframe": 2, "huge": 3, "hdr2": 4, "wire": 5}
    if not thorough:
        gen = [x for x in gen if x["k"] != "bigframe" or x["len"] <= 3145729]
    vectors = sorted(gen, key=lambda x: order[x["k"]])
    counts = {k: sum(1 for x in vectors if x["k"] == k) for k in order}
    if counts["xor"] != 256 or counts["hdr2"] != 256 or counts["frame"] != 2 * 8 * 6 * 6 * 11 or counts["huge"] != 24 \
            or counts["bigframe"] != (18 if thorough else 12):
        raise vlib.ToolError("unexpected vector counts %s" % counts)

    def replay_lines(lines):
        p = run_bin(ws, ["replay"], stdin_data="\n".join(json.dumps(x, separators=(",", ":")) for x in lines) + "\n", timeout=3000)
        res = [x for x in parse_jsonl(p.stdout) if x.get("summary")]
        if p.returncode != 0 or not res:
            raise vlib.ToolError("wsframe replay failed rc=%s: %s" % (p.returncode, p.stderr[-2000:]))
        return res[0]

    if thorough:
        # the header does not depend on the payload: two more payload contents per abstract frame
        more = []
        for x in vectors:
            if x["k"] == "frame" and x["len"] > 0:
                for j in (1, 2):
                    y = dict(x)
                    y["seed"] = (x["seed"] * 7 + 3 * j + ctx.seed) % 65537
                    more.append(y)
        vectors = vectors[:256] + [x for x in vectors[256:] if x["k"] == "frame"] + more + [x for x in vectors[256:] if x["k"] != "frame"]
    s = replay_lines(vectors)
    if s["lines"] != len(vectors):
        raise vlib.ToolError("harness consumed %d of %d lines" % (s["lines"], len(vectors)))
    for name, p in sorted(s["parts"].items()):
        ctx.cov["evaluations"] += p["evaluations"]
        ctx.cov["distinct_nontrivial"] += p["nontrivial"]
        ctx.add_part(name, evaluations=p["evaluations"], nontrivial=p["nontrivial"], mismatches=p["mismatches"])
        for x in p["samples"]:
            ctx.sample(x, limit=10)
        if p["evaluations"] == 0:
            raise vlib.ToolError("harness part %s evaluated nothing" % name)
        if p["mismatches"]:
            ctx.violation("%s: %d case(s) disagree with WsFrame.tla; first: %s" % (name, p["mismatches"], json.dumps(p["first"][0])[:600]),
                          {"kind": "wsframe-vectors", "part": name, "first": p["first"]})
        if p.get("drift"):
            # allowed by the statement of C10, but not what the model of today's frame.rs does (see WsFrame!Matches)
            ctx.drift("C10 beyond the statement: " + name, "%d case(s); first: %s" % (p["drift"], json.dumps(p["drift_first"][0])[:500]),
                      {"kind": "wsframe-drift", "part": name, "first": p["drift_first"]})
    ctx.cov["traces_validated_against_impl"] += sum(1 for x in vectors if x["k"] == "frame") + 65536 + counts["wire"]
    ctx.add_part("vectors", **counts)

    recs, t = trace_result
    ctx.add_tlc("trace validation of %d random executions (frames up to %d MiB under bounded reads, byte strings)" % (len(recs), 5 if thorough else 1), t)
    ctx.cov["evaluations"] += len(recs)
    ctx.cov["traces_validated_against_impl"] += len(recs)
    big = sum(1 for r in recs if r["k"] == "frame" and r["f"]["len"] > 65535)
    ctx.add_part("random_executions", records=len(recs), frames=sum(1 for r in recs if r["k"] == "frame"), frames_over_64k=big,
                 max_len=max(r["f"]["len"] for r in recs), byte_strings=sum(1 for r in recs if r["k"] == "bytes"))
    for pr in t.prints:
        if isinstance(pr, dict) and pr.get("drift"):
            ctx.drift("C10 beyond the statement: random executions", "%d record(s) differ only in bytes consumed / error kind / masked payload layout; first: %s"
                      % (len(pr["drift"]), json.dumps(pr["drift"][0])[:500]), {"kind": "wsframe-trace-drift", "records": pr["drift"]})
    if t.violation:
        rej = next((pr["rejected"] for pr in reversed(t.prints) if isinstance(pr, dict) and "rejected" in pr), [])
        ctx.violation("random executions rejected by Trace_WsFrame (%s); first: %s" % (t.violated_name, json.dumps(rej[:1])[:700]),
                      {"kind": "wsframe-trace", "rejected": rej})
    elif t.distinct < len(recs):
        raise vlib.ToolError("trace validation consumed too few records")

    if ctx.violations:
        # a broken tree: report what was found; the binding self-test presumes a clean run
        return ctx.finish()
    # binding self-test - only after a clean validation: on a broken tree the verdict is the violation above
    if ctx.violations:
        if os.path.exists(tr):
            os.remove(tr)
        return ctx.finish()
    xor = [x for x in vectors if x["k"] == "xor"]
    c1 = copy.deepcopy(next(x for x in vectors if x["k"] == "frame" and x["len"] == 126 and x["mask"] == 1))
    c1["hdr"][2] ^= 1                      # extended length 126 -> 382
    c2 = copy.deepcopy(next(x for x in vectors if x["k"] == "frame" and x["len"] == 5 - 4 and x["mask"] == 1 and x["key"][0] == 1))
    c2["key"][0] ^= 2                      # the decoder is told another key than the header carries
    c3 = copy.deepcopy(next(x for x in vectors if x["k"] == "wire" and x["exp"]["r"] == "ok" and x["exp"]["f"]["len"] == 2))
    c3["exp"]["f"]["fin"] ^= 1
    c4 = copy.deepcopy(next(x for x in vectors if x["k"] == "hdr2" and x["b0"] == 0x83))
    c4["b1s"][0]["need"] = 0
    c4["b1s"][0]["two"] = "ok"             # claims the reserved opcode 3 is accepted
    c5 = copy.deepcopy(next(x for x in vectors if x["k"] == "bigframe" and x["len"] == 4097 and x["mask"] == 1))
    c5["key"][3] ^= 1                      # one key octet differs from the header: every fourth payload octet is wrong
    c6 = copy.deepcopy(next(x for x in vectors if x["k"] == "huge"))
    c6["exp"] = "InvalidOpcode"
    st = replay_lines(xor + [c1, c2, c3, c4, c5, c6])
    got = (st["parts"]["frames"]["mismatches"], st["parts"]["concrete_wires"]["mismatches"], st["parts"]["two_byte_headers"]["mismatches"],
           st["parts"]["large_frames_bounded_reads"]["mismatches"], st["parts"]["huge_length_fields"]["mismatches"])
    if got[0] < 2 or got[1] != 1 or got[2] < 1 or got[3] < 2 or got[4] != 12:
        raise vlib.ToolError("binding self-test: corrupted vectors were not rejected as expected: %s" % (got,))
    small = copy.deepcopy(recs[:60])
    i = next(i for i, r in enumerate(small) if r["k"] == "frame" and len(r["hdr"]) >= 2)
    small[i]["hdr"][1] ^= 1
    vlib.write_lines(tr, small)
    t2 = run_tlc("Trace_WsFrame.tla", "Trace_WsFrame.cfg", D, workers=1, env=dict(JVM, TRACE=tr), timeout=1500, work_id="c10-trace2", deque=True)
    if t2.violation != "invariant" or not t2.prints or len(next((pr["rejected"] for pr in reversed(t2.prints) if "rejected" in pr), [])) != 1:
        raise vlib.ToolError("binding self-test: corrupted trace record was not rejected")
    ctx.add_part("binding_self_test", corrupted_vectors_rejected=list(got), corrupted_trace_record_rejected=True)
    os.remove(tr)

    ctx.cov["rule"] = ("every frame of FIN x RSV1-3 x 6 opcodes x mask {off, on x 5 keys} x 11 length classes with the payload expanded from a seed, "
                       "all 65536 two-byte headers each with a bare / complete / truncated remainder, TLC-decoded concrete wires, 4 KiB-boundary and multi-MiB frames under reads of at most 1..65537 bytes, "
                       "24 headers with 64-bit length fields 2^24, 2^31-1 .. 2^64-1 followed by 0 .. 1 MiB, consecutive different frames on one reader; each under every split point "
                       "(< 300 bytes) or seeded random splits, every (or sampled) truncation, and back to back; non-trivial = distinct frames with a non-empty "
                       "payload, distinct valid headers, distinct wires that decode")
    ctx.cov["exhaustive"] = True
    ctx.assumptions += [
        "WsFrame.tla Encode/Decode/Unmask are a faithful transcription of RFC 6455 section 5.2/5.3",
        "DESIGN 5a: a masked frame's payload field is the on-wire payload; non-minimal lengths, RSV bits and oversized control frames need not be rejected; a reserved opcode on a truncated frame may give either error",
        "lengths >= 2^31 are outside the model (TLC integers); such a claimed length can only end in a read error, which is what the model says",
        "the harness owns the expansion [len, seed] -> bytes and unmasks long payloads with the XOR table printed by TLC",
    ]
    return ctx.finish()
