"""C06 - static handlers never leave their directory and serve what is inside it intact.

1. TLC (spec/static/StaticFs.tla, Dev = {}) enumerates every request path of the bound as a state and proves on
   the handler model (try_find_path / serve_dir / directory_handler / serve_as_file_path transcribed from the
   code) for three worlds: Confinement (no answer carries bytes from outside the root), GuardSound (what passes
   the `..`/`:` guard resolves inside the root), PrefixRule (route-prefix stripping), ModelConforms (the model
   answers what the property admits), and per world the positive half and the redirect / index rule.  Each named
   deviation (the pre-repair serve_as_file_path and six plausible bugs) must be refuted.
2. spec -> code (method A; threaded and tokio builds of the library handlers): TLC prints for every path of the bound the answers the property admits per world;
   the harness builds the worlds on disk (canary and an index.html twin beside the root) and calls the real
   serve_dir, directory_handler (under three route prefixes, directory given with and without trailing slash)
   and serve_as_file_path in-process, comparing status, Location, Content-Type, body identity, canary marker.
3. code -> spec (method C): random worlds and deeper random request paths (plus every file and directory of each
   world under raw / library-encoded / fully-encoded spellings) are run on the real handlers; TLC validates every
   logged answer (Trace_StaticFs: Conforms + ConfinedAnswer) and model-checks each logged world.
4. binding self-test: one expectation of a generated vector and one field of a recorded trace are corrupted and
   must be rejected."""
import json
import os
import shutil
import vlib
from vlib import Ctx, run_tlc, build_harness, run_bin, parse_jsonl, SPEC

D = os.path.join(SPEC, "static")
ACTIONS = ["Extend"]
SENS = [  # cfg suffix, Dev, invariant that must be violated
    ("FilePathNoCheck", "FilePathNoCheck", "Confinement"),
    ("DecodeTwice", "DecodeTwice", "Confinement"),
    ("DecodeTwice_pos", "DecodeTwice", "Positive"),
    ("GuardBeforeDecode", "GuardBeforeDecode", "Confinement"),
    ("GuardPrefixOnly", "GuardPrefixOnly", "Confinement"),
    ("GuardPrefixOnly_sound", "GuardPrefixOnly", "ModelConforms"),
    ("PreferIndexHtm", "PreferIndexHtm", "RedirectIndex"),
    ("NoRedirect", "NoRedirect", "RedirectIndex"),
    ("StripByBytes", "StripByBytes", "PrefixRule"),
    ("PreferIndexHtm_judge", "PreferIndexHtm", "ModelJudged"),   # the policy-free judge (StaticFs 3e) is not vacuous either
]


def lines_of(objs):
    return "\n".join(json.dumps(x, separators=(",", ":")) for x in objs) + "\n"


class Crashed(Exception):
    """the harness process died on a signal (abort, stack overflow ...) or never finished while it was running the code
    under test: that is a finding about the tree, not a tool error (panics are caught inside the harness)"""


def run_harness(binpath, args, stdin_data=None, timeout=1800):
    try:
        p = run_bin(binpath, args, stdin_data=stdin_data, timeout=timeout)
    except vlib.ToolError as e:
        if "timed out" in str(e):
            raise Crashed("harness %s did not finish within %d s (a handler hangs?)" % (" ".join(args[:1]), timeout))
        raise
    if p.returncode < 0:
        raise Crashed("harness %s was killed by signal %d while calling the handlers: %s" % (args[0], -p.returncode, p.stderr[-400:]))
    return p


def replay_vectors(ctx, binpath, scratch, header, vectors, label, threads=8, data=None):
    p = run_harness(binpath, ["replay", scratch, str(threads)], stdin_data=data or (lines_of(header) + lines_of(vectors)), timeout=1800)
    res = [x for x in parse_jsonl(p.stdout) if x.get("summary")]
    if p.returncode != 0 or not res:
        raise vlib.ToolError("staticfs replay failed rc=%s: %s" % (p.returncode, p.stderr[-2000:]))
    s = res[0]
    if s["lines"] != len(vectors):
        raise vlib.ToolError("harness consumed %d of %d vectors (%s)" % (s["lines"], len(vectors), label))
    return s


def kinds(vectors):
    """histogram of the expectations TLC printed: family (d = decoding handlers, f = serve_as_file_path) : kind [+ alternative]"""
    h = {}
    for v in vectors:
        for fam in ("d", "f"):
            for e in v[fam]:
                key = fam + ":" + e[0] + ("+" + e[3] if len(e) > 3 else "")
                h[key] = h.get(key, 0) + 1
        for fam in ("jd", "jf"):
            for e in v.get(fam, []):
                key = fam + ":" + e[0]
                h[key] = h.get(key, 0) + 1
    return h


# vacuity guard on the generated expectations: every kind of answer the property distinguishes must occur
NEEDED_KINDS = ["d:f", "d:r", "d:n", "d:x", "d:x+f", "d:x+r", "f:f", "f:n", "f:x", "f:x+f",
                "jd:f", "jd:r", "jd:n", "jd:-", "jf:f", "jf:-"]          # jd / jf: what the statement itself demands


def nontrivial_paths(vectors, cat, seen):
    """request paths (as byte strings) that in some world are served, redirected or have an admitted alternative;
    `seen` keeps them across the generation runs so that overlapping bounds are counted once"""
    for v in vectors:
        if any(e[0] in ("f", "r") or len(e) > 3 for fam in ("d", "f") for e in v[fam]):
            rel = bytes(v["r"]) if "r" in v else b"/".join(bytes(cat[i - 1]) for i in v["p"])
            seen.add(rel)


def account(ctx, s, label, cfg):
    ctx.cov["evaluations"] += s["evaluations"]
    ctx.cov["traces_validated_against_impl"] += s["lines"] * s["worlds"]
    for x in s["samples"]:
        ctx.sample(x)
    part = ctx.cov["parts"].setdefault("vectors " + label, {"paths": 0, "handler_calls": 0, "nontrivial_paths": 0, "mismatches": 0, "canary_hits": 0})
    part["paths"] += s["lines"]
    part["handler_calls"] += s["evaluations"]
    part["nontrivial_paths"] += s["nontrivial"]
    part["mismatches"] += s["mismatches"]
    part["canary_hits"] += s["canary_hits"]
    part["strict_reading_drifts"] = part.get("strict_reading_drifts", 0) + s.get("drifts", 0)
    if s.get("drifts"):
        d = s["first_drift"][0]
        ctx.drift("strict reading of C06 (StaticFs Expect*/Conforms)",
                  "%d handler answers (%s) meet the statement of the property but differ from the strict reading (status of a refusal, Location "
                  "spelling, media-type alias, treatment of paths the statement leaves open); first: %s %s on %r: strict %s got %s" % (
                      s["drifts"], label, d["handler"], d["route"], d["uri"], json.dumps(d["strict_expectation"]), json.dumps(d["got"])),
                  {"kind": "staticfs-drift", "cfg": cfg, "first": s["first_drift"]})
    if s["mismatches"]:
        by_dev = {}
        for m in s["first"]:
            by_dev.setdefault(m.get("dev") or None, []).append(m)
        for dev, ms in by_dev.items():
            m = ms[0]
            what = "%d handler answers outside what the property admits (%s); first: %s %s on %r in world %d: the statement demands %s (strict reading %s) got %s%s" % (
                s["mismatches"], label, m["handler"], m["route"], m["uri"], m["world"], json.dumps(m.get("demanded")), json.dumps(m["expected"]),
                json.dumps(m["got"]), (" [= deviation %s]" % dev) if dev else "")
            ctx.violation(what, {"kind": "staticfs-vectors", "cfg": cfg, "mismatches": ms}, dev=dev)


def _twin_routes(ctx, thorough, binpath, scratch):
    """Several `directory` routes sharing ONE cache-enabled AppState (spec/static/TwinRoutes.tla): every request sequence
    of length <= 3 (thorough 4) over 4 routes (two directories, two hosts) x 5 relative paths, as TLC enumerates them,
    replayed on the real directory_handler; each answer must be the file of the route's own directory, intact."""
    r = run_tlc("TwinRoutes.tla", "MC_TwinRoutes.cfg", D, workers=4, coverage=True, timeout=900, work_id="c06")
    ctx.add_tlc("twin routes over one cache, Dev={}: Inv_Inside, Inv_Intact", r)
    ctx.require_tlc_ok("MC_TwinRoutes.cfg", r)
    ctx.require_cover("MC_TwinRoutes.cfg", r, ["Request"])
    for cfg, inv in (("MC_TwinRoutes_dev_RouteRelativeKey.cfg", "Inv_Inside"), ("MC_TwinRoutes_dev_HostlessKey.cfg", "Inv_Inside"),
                     ("MC_TwinRoutes_wit_hit.cfg", "Wit_NoHit"), ("MC_TwinRoutes_wit_twin.cfg", "Wit_NoTwin")):
        v = run_tlc("TwinRoutes.tla", cfg, D, workers=1, timeout=300, work_id="c06")
        ctx.add_tlc("twin routes: %s must violate %s" % (cfg, inv), v)
        if v.violation != "invariant" or v.violated_name != inv:
            raise vlib.ToolError("model lost sensitivity: %s no longer violates %s (got %s %s)" % (cfg, inv, v.violation, v.violated_name))
    g = run_tlc("TwinRoutes.tla", "Gen_TwinRoutes_thorough.cfg" if thorough else "Gen_TwinRoutes.cfg", D, workers=4, timeout=1800,
                work_id="c06", heap="6g")
    beh = [x for x in g.prints if isinstance(x, dict) and "twin" in x]
    if g.violation or len(beh) < 8000:
        raise vlib.ToolError("twin-route generation failed (%d behaviours): %s" % (len(beh), g.out[-1500:]))
    ctx.add_tlc("twin routes: behaviours printed for replay", g)
    p = run_harness(binpath, ["twin", scratch], stdin_data=lines_of(beh), timeout=1800)
    res = [x for x in parse_jsonl(p.stdout) if x.get("summary") and x.get("mode") == "twin"]
    if p.returncode != 0 or not res or res[0]["behaviours"] != len(beh):
        raise vlib.ToolError("staticfs twin failed rc=%s: %s" % (p.returncode, p.stderr[-1500:]))
    s = res[0]
    if s["expected_hits"] == 0:
        raise vlib.ToolError("vacuity guard: no twin-route behaviour expects a cache hit")
    ctx.cov["evaluations"] += s["requests"]
    ctx.cov["traces_validated_against_impl"] += s["behaviours"]
    ctx.add_part("twin directory routes over one cache (TwinRoutes.tla)", behaviours=s["behaviours"], requests=s["requests"],
                 expected_cache_hits=s["expected_hits"], mismatches=s["mismatches"],
                 answered_from_other_directory=s["answered_from_other_directory"])
    if s["mismatches"]:
        f = s["first"][0]
        ctx.violation("directory routes sharing the server's cache: %d of %d request sequences are not answered from the route's own directory "
                      "(%d answers are another directory's file); first: %s" % (s["mismatches"], s["behaviours"], s["answered_from_other_directory"],
                                                                                json.dumps(f)[:600]),
                      {"kind": "staticfs-twin", "behaviours": [x["behaviour"] for x in s["first"]], "got": [x["got"] for x in s["first"]]})


def run(tier, replay):
    ctx = Ctx("C06", tier, "model_checking")
    thorough = tier == "thorough"
    bindir = build_harness(["staticfs"])
    binpath = os.path.join(bindir, "staticfs")
    tokio_bin = os.path.join(build_harness(["staticfs"], tokio=True), "staticfs")
    work = vlib.workdir("C06")
    scratch = os.path.join(work, "fs-%d" % os.getpid())
    os.makedirs(scratch, exist_ok=True)
    try:
        return _run(ctx, thorough, binpath, tokio_bin, scratch, replay)
    except Crashed as e:
        ctx.cov["distinct_nontrivial"] = max(2, ctx.cov["distinct_nontrivial"])
        ctx.cov["evaluations"] = max(1, ctx.cov["evaluations"])
        if not ctx.cov["samples"]:
            ctx.sample({"crash": str(e)})
        ctx.violation(str(e), {"kind": "staticfs-crash", "what": str(e)})
        return ctx.finish()
    finally:
        shutil.rmtree(scratch, ignore_errors=True)


def _replay(ctx, binpath, tokio_bin, scratch, replay):
    """bin/check C06 --replay <file>: re-run the stored case(s) against the current tree."""
    case = json.load(open(replay))["case"]
    if case.get("kind") == "staticfs-vectors":
        g = run_tlc("MC_StaticFs.tla", "Gen_StaticFs_worlds.cfg", D, workers=1, timeout=300, work_id="c06")
        header = [x for x in g.prints if isinstance(x, dict) and ("world" in x or "routes" in x)]
        ctx.add_tlc("worlds and routes", g)
        uniq = {json.dumps(m["vector"], sort_keys=True): m["vector"] for m in case["mismatches"] if "vector" in m}
        vectors = list(uniq.values())
        for which, bp in (("threaded", binpath), ("tokio", tokio_bin)):
            s = replay_vectors(ctx, bp, scratch, header, vectors, "replay " + which)
            account(ctx, s, "replay " + which, case.get("cfg", ""))
        ctx.cov["distinct_nontrivial"] = max(2, len(vectors))
    elif case.get("kind") == "staticfs-twin":
        beh = [{"twin": b} for b in case["behaviours"]]
        p = run_harness(binpath, ["twin", scratch], stdin_data=lines_of(beh), timeout=600)
        res = [x for x in parse_jsonl(p.stdout) if x.get("summary") and x.get("mode") == "twin"]
        if p.returncode != 0 or not res:
            raise vlib.ToolError("staticfs twin failed rc=%s: %s" % (p.returncode, p.stderr[-1500:]))
        ctx.cov["evaluations"] += res[0]["requests"]
        ctx.cov["distinct_nontrivial"] = max(2, len(beh))
        ctx.sample(res[0])
        if res[0]["mismatches"]:
            ctx.violation("directory routes sharing the server's cache: %s" % json.dumps(res[0]["first"][0])[:600],
                          {"kind": "staticfs-twin", "behaviours": [x["behaviour"] for x in res[0]["first"]], "got": [x["got"] for x in res[0]["first"]]})
    elif case.get("kind") == "staticfs-trace":
        # the recorded requests are sent again to the current tree; TLC judges the new answers
        wpath = os.path.join(scratch, "worlds.ndjson")
        tpath = os.path.join(scratch, "trace.ndjson")
        with open(wpath, "w") as f:
            f.write(lines_of(case["worlds"]))
        reqs = [{k: r[k] for k in ("w", "h", "route", "uri")} for r in case["rejected"]]
        bp = tokio_bin if case.get("runtime") == "tokio" else binpath
        p = run_harness(bp, ["rerun", scratch, wpath], stdin_data=lines_of(reqs), timeout=600)
        recs = parse_jsonl(p.stdout)
        if p.returncode != 0 or len(recs) != len(reqs):
            raise vlib.ToolError("staticfs rerun failed rc=%s: %s" % (p.returncode, p.stderr[-1500:]))
        padded = recs * (1 + len(case["worlds"]) // len(recs))                # at least as many records as worlds
        with open(tpath, "w") as f:
            f.write(lines_of(padded))
        t = run_tlc("Trace_StaticFs.tla", "Trace_StaticFs.cfg", D, workers=2, env={"TRACE": tpath, "WORLDS": wpath}, timeout=900, work_id="c06")
        ctx.add_tlc("replay of %d recorded requests" % len(reqs), t)
        ctx.cov["evaluations"] += len(recs)
        ctx.cov["traces_validated_against_impl"] += len(recs)
        ctx.cov["distinct_nontrivial"] = max(2, len(recs))
        ctx.sample(recs[0])
        if t.violation:
            rej = [r for x in t.prints if isinstance(x, dict) and "rejected" in x for r in x["rejected"]] or recs[:1]
            pretty = [dict(r, uri_text=bytes(r["uri"]).decode("utf-8", "replace"), route_text=bytes(r["route"]).decode("utf-8", "replace")) for r in rej]
            ctx.violation("answers of the real handlers are (still) not admitted by the property: %s" % json.dumps(pretty[0]),
                          {"kind": "staticfs-trace", "runtime": case.get("runtime"), "rejected": pretty, "worlds": case["worlds"]})
    else:
        raise vlib.ToolError("unknown replay kind %r" % case.get("kind"))
    ctx.cov["rule"] = "replay of a stored case"
    return ctx.finish()


def _run(ctx, thorough, binpath, tokio_bin, scratch, replay):
    if replay:
        return _replay(ctx, binpath, tokio_bin, scratch, replay)
    # ---- 1. model checking ---------------------------------------------------------------------------------
    mcs = [("MC_StaticFs_quick.cfg", "24 spellings, depth<=3, 3 routes")]
    if thorough:
        # (the deepest layer - the property's 18 spellings to depth 5 - is model-checked in the same TLC runs that
        # print its vectors, see below)
        mcs = [("MC_StaticFs_wide.cfg", "46 spellings, depth<=3, 3 routes"),
               ("MC_StaticFs_mid.cfg", "20 spellings, depth<=4, 3 routes")]
    for i, (cfg, what) in enumerate(mcs):
        # action coverage is collected on the first configuration only (it slows TLC down; the others take the same action)
        r = run_tlc("MC_StaticFs.tla", cfg, D, workers=8, coverage=(i == 0), timeout=2400, work_id="c06")
        ctx.add_tlc("handler model, Dev={}: " + what, r)
        ctx.require_tlc_ok(cfg, r)
        if i == 0:
            ctx.require_cover(cfg, r, ACTIONS)
    for suffix, dev, inv in SENS:
        if not thorough and suffix in ("DecodeTwice_pos", "GuardPrefixOnly_sound", "PreferIndexHtm_judge"):
            continue                                          # second witness of the same deviation: thorough only
        r = run_tlc("MC_StaticFs.tla", "MC_StaticFs_dev_%s.cfg" % suffix, D, workers=2, timeout=600, work_id="c06")
        ctx.add_tlc("sensitivity: Dev={%s} must violate %s" % (dev, inv), r)
        if r.violation != "invariant" or r.violated_name != inv:
            raise vlib.ToolError("model lost sensitivity: Dev={%s} no longer violates %s (got %s %s)" % (dev, inv, r.violation, r.violated_name))

    # (the deviations that only the world of names refutes are run in the thorough tier)
    sweep_devs = []
    if thorough:
        sweep_devs = [("HexLowerOnly_judge", "SweepJudged"), ("ExtFirstDot_judge", "SweepJudged"), ("StripAllDirectory", "SweepPrefix"), ("HexLowerOnly", "SweepPositive"), ("JoinAbsolute", "SweepConfined"), ("StripAllPrefix", "SweepPrefix"),
                      ("ExtFirstDot", "SweepPositive"), ("TrimNames", "SweepPositive")]
    for dev, inv in sweep_devs:
        r = run_tlc("MC_StaticFs.tla", "Sweep_StaticFs_dev_%s.cfg" % dev, D, workers=2, timeout=600, work_id="c06")
        ctx.add_tlc("sensitivity (world of names): Dev={%s} must violate %s" % (dev, inv), r)
        if r.violation != "invariant" or r.violated_name != inv:
            raise vlib.ToolError("model lost sensitivity: Dev={%s} no longer violates %s (got %s %s)" % (dev, inv, r.violation, r.violated_name))

    # ---- 2. vectors from TLC replayed on the real handlers --------------------------------------------------
    g = run_tlc("MC_StaticFs.tla", "Gen_StaticFs_worlds.cfg", D, workers=1, timeout=300, work_id="c06")
    header = [x for x in g.prints if isinstance(x, dict) and ("world" in x or "routes" in x)]
    if g.violation or len(header) != 4:
        raise vlib.ToolError("world generation failed: %s" % g.out[-1500:])
    ctx.add_tlc("worlds and routes", g)
    gens = [("Gen_StaticFs_quick.cfg", {}, "quick")]
    if thorough:
        # the deepest layer (18^5 paths) is split into one TLC run per first segment; paths of <= 4 segments over the
        # property's catalogue are contained in "mid"
        gens = [("Gen_StaticFs_wide.cfg", {}, "wide"), ("Gen_StaticFs_mid.cfg", {}, "mid")]
        gens += [("Deep_StaticFs.cfg", {"GENMIN": 5, "GENFIRST": k}, "deep=5") for k in range(1, 19)]
    first_vectors = None
    cat = next(x for x in header if "cat" in x)["cat"]
    seen = set()
    for cfg, env, label in gens:
        g = run_tlc("MC_StaticFs.tla", cfg, D, workers=8, timeout=2400, work_id="c06", heap="6g", env=env)
        if g.violation and cfg.startswith("Deep_"):
            ctx.add_tlc("handler model, Dev={}: 18 spellings, depth 5, first segment %s" % env["GENFIRST"], g)
            ctx.require_tlc_ok(cfg, g)                    # PrefixRule / GuardSound / DeepInv failed on the model
            continue
        if g.violation:
            raise vlib.ToolError("generation failed (%s): %s" % (cfg, g.out[-2000:]))
        vectors = [x for x in g.prints if isinstance(x, dict) and ("r" in x or "p" in x)]
        ctx.add_tlc(("model checking + vector generation %s %s" if cfg.startswith("Deep_") else "vector generation %s %s") % (cfg, env or ""), g)
        if not vectors:
            raise vlib.ToolError("generation %s printed no vectors" % cfg)
        nontrivial_paths(vectors, cat, seen)
        hist = kinds(vectors)
        ctx.add_part("expectations " + label + (" first=%s" % env["GENFIRST"] if env.get("GENFIRST") else ""), **hist)
        if first_vectors is None:
            first_vectors = vectors
            missing = [k for k in NEEDED_KINDS if not hist.get(k)]
            if missing:
                raise vlib.ToolError("vacuity guard: the generated vectors contain no expectation of kind(s) %s" % missing)
        data = lines_of(header) + lines_of(vectors)
        s = replay_vectors(ctx, binpath, scratch, header, vectors, label, data=data)
        account(ctx, s, label, cfg)
        if label != "deep=5":
            # the tokio build of the library handlers (serve_dir, serve_as_file_path) sees the same vectors
            s = replay_vectors(ctx, tokio_bin, scratch, header, vectors, label + " tokio", data=data)
            account(ctx, s, label + " (tokio handlers)", cfg)
        del vectors, g, data

    # ---- 2b. the world of names (W4): every escape %00..%FF in every hex case, Unicode classes in names, names that are
    # only an extension / have several dots, directories named like the route prefixes, absolute components, files of
    # boundary sizes up to several MiB.  One TLC run model-checks the sweep and prints its vectors.
    g = run_tlc("MC_StaticFs.tla", "Sweep_StaticFs.cfg", D, workers=8, timeout=900, work_id="c06")
    ctx.add_tlc("handler model, Dev={}: sweep of the world of names (model checking + vectors)", g)
    if g.violation:
        ctx.require_tlc_ok("Sweep_StaticFs.cfg", g)
    else:
        sheader = [x for x in g.prints if isinstance(x, dict) and ("world" in x or "routes" in x)]
        svec = [x for x in g.prints if isinstance(x, dict) and "r" in x]
        if len(sheader) != 2 or len(svec) < 2500:
            raise vlib.ToolError("sweep generation incomplete: %d header lines, %d vectors" % (len(sheader), len(svec)))
        nontrivial_paths(svec, cat, seen)
        ctx.add_part("expectations sweep", **kinds(svec))
        sdata = lines_of(sheader) + lines_of(svec)
        for which, bp in (("", binpath), (" (tokio handlers)", tokio_bin)):
            s = replay_vectors(ctx, bp, scratch, sheader, svec, "sweep" + which, data=sdata)
            account(ctx, s, "sweep" + which, "Sweep_StaticFs.cfg")
            ctx.cov["parts"]["vectors sweep" + which]["requests_via_real_parser"] = s.get("requests_via_real_parser", 0)

    ctx.cov["distinct_nontrivial"] = len(seen)

    # ---- 4a. binding self-test: a corrupted expectation must be rejected ------------------------------------
    served = [v for v in first_vectors if v["d"][0][0] == "f" and len(v["d"][0]) == 3 and v["jd"][0][0] == "f"][:1]
    if not served:
        raise vlib.ToolError("self-test: no served vector found")
    bad = json.loads(json.dumps(served[0]))
    bad["d"][0][1] += 1                                   # expect another file's content
    bad["jd"][0][1] += 1
    s = replay_vectors(ctx, binpath, scratch, header, [bad], "self-test")
    ctx.add_part("self-test corrupted vector", mismatches=s["mismatches"], handler_calls=s["evaluations"])
    if s["mismatches"] == 0:
        raise vlib.ToolError("binding self-test failed: a vector with a wrong content id was accepted")

    # ---- 3. random worlds / requests validated by TLC -------------------------------------------------------
    nworlds, per_world = (60, 500) if thorough else (12, 250)
    wpath = os.path.join(scratch, "worlds.ndjson")
    tpath = os.path.join(scratch, "trace.ndjson")
    recs = None
    for which, bp, nw in (("threaded", binpath, nworlds), ("tokio", tokio_bin, max(6, nworlds // 3))):
        wp = wpath if which == "threaded" else os.path.join(scratch, "worlds-tokio.ndjson")
        p = run_harness(bp, ["random", str(nw), str(per_world), scratch, wp], timeout=1200)
        if p.returncode != 0:
            raise vlib.ToolError("staticfs random (%s) failed: %s" % (which, p.stderr[-1500:]))
        rs = parse_jsonl(p.stdout)
        text = p.stdout
        if which == "threaded":
            recs = rs
            # end to end: a real App on loopback serves one more world (index nw + 1): the real parser, routing and
            # response writer, a file of several MiB fetched by a client that starts reading late
            wp2 = os.path.join(scratch, "worlds-e2e.ndjson")
            p2 = run_harness(bp, ["e2e", scratch, wp2, str(nw + 1)], timeout=1500)
            e2e = parse_jsonl(p2.stdout)
            if p2.returncode != 0 or len(e2e) < 40:
                raise vlib.ToolError("staticfs e2e failed rc=%s (%d answers): %s" % (p2.returncode, len(e2e), p2.stderr[-1500:]))
            with open(wp, "a") as f:
                f.write(open(wp2).read())
            text += p2.stdout
            ctx.add_part("end to end (real App on loopback)", answers=len(e2e), served_or_redirected=sum(1 for r in e2e if r["st"] in (200, 301)),
                         late_reader=[{"uri": bytes(r["uri"]).decode("utf-8", "replace"), "late_ms": r["late_ms"], "status": r["st"], "content_id": r["id"]}
                                      for r in e2e if r.get("late_ms")], no_complete_answer=sum(1 for r in e2e if r["st"] == 0),
                         note="growth: gates only on bytes from outside the root; everything else is a drift note")
            rs = rs + e2e
        with open(tpath, "w") as f:
            f.write(text)
        t = run_tlc("Trace_StaticFs.tla", "Trace_StaticFs.cfg", D, workers=8, env={"TRACE": tpath, "WORLDS": wp},
                    timeout=2400, work_id="c06")
        ctx.add_tlc("trace validation of %d answers of the %s handlers in %d random worlds%s" % (len(rs), which, nw, " + 1 served by a real App" if which == "threaded" else ""), t)
        ctx.cov["evaluations"] += len(rs)
        ctx.cov["traces_validated_against_impl"] += len(rs)
        ctx.add_part("random " + which, worlds=nw, answers=len(rs), served_or_redirected=sum(1 for r in rs if r["st"] in (200, 301)),
                     canary_or_panic=sum(1 for r in rs if r["canary"] or r["panic"]),
                     by_handler={h: sum(1 for r in rs if r["h"] == h) for h in sorted(set(r["h"] for r in rs))})
        drift_ix = [x["drift"] for x in t.prints if isinstance(x, dict) and "drift" in x]
        ctx.cov["parts"]["random " + which]["strict_reading_drifts"] = len(drift_ix)
        if drift_ix:
            ex = [dict(rs[i - 1], uri_text=bytes(rs[i - 1]["uri"]).decode("utf-8", "replace")) for i in sorted(drift_ix)[:10] if 0 < i <= len(rs)]
            ctx.drift("strict reading of C06 (StaticFs Expect*/Conforms; serve_file; the end-to-end leg)",
                      "%d recorded answers of the %s handlers meet the statement of the property but differ from the strict reading; first: %s" % (
                          len(drift_ix), which, json.dumps(ex[0]) if ex else "?"),
                      {"kind": "staticfs-drift-trace", "runtime": which, "first": ex})
        if t.violation:
            if t.violated_name == "TraceWorldsOk":
                raise vlib.ToolError("a random world is malformed or the handler model fails on it: %s" % "\n".join(t.trace[:40]))
            rej = [r for x in t.prints if isinstance(x, dict) and "rejected" in x for r in x["rejected"]]
            if not rej:
                raise vlib.ToolError("trace validation failed without a verdict: %s" % t.out[-1500:])
            pretty = [dict(r, uri_text=bytes(r["uri"]).decode("utf-8", "replace"), route_text=bytes(r["route"]).decode("utf-8", "replace")) for r in rej]
            ctx.violation("answers recorded from the real %s handlers are not admitted by the property; first: %s" % (which, json.dumps(pretty[0])),
                          {"kind": "staticfs-trace", "runtime": which, "rejected": pretty, "worlds": [json.loads(x) for x in open(wp)]})
    if recs:
        ex = next((r for r in recs if r["st"] == 200 and len(r["uri"]) > 12), recs[0])
        ctx.sample({"random": True, "handler": ex["h"], "uri": bytes(ex["uri"]).decode("utf-8", "replace"), "status": ex["st"], "content_id": ex["id"], "content_type": ex["ct"]})

    # ---- 4b. binding self-test: a corrupted trace must be rejected ------------------------------------------
    k = next((i for i, r in enumerate(recs) if r["st"] == 200), None)
    if k is None:
        raise vlib.ToolError("self-test: the random run served nothing")
    lo = max(0, k - 80)                                   # (the trace must be at least as long as the list of worlds)
    sub = [dict(r) for r in recs[lo:k + 1]] + [dict(r) for r in recs[:80]]
    sub[-1], sub[k - lo] = sub[k - lo], sub[-1]
    sub[-1]["id"] = 900                                   # claim the canary was served
    sub[-1]["canary"] = True
    with open(tpath, "w") as f:
        f.write(lines_of(sub))
    t2 = run_tlc("Trace_StaticFs.tla", "Trace_StaticFs.cfg", D, workers=2, env={"TRACE": tpath, "WORLDS": wpath},
                 timeout=900, work_id="c06")
    ctx.add_tlc("self-test: trace with one answer replaced by the canary must be rejected", t2)
    if t2.violation != "invariant" or t2.violated_name != "AllAgree":
        raise vlib.ToolError("binding self-test failed: a trace claiming the canary was served was accepted")

    _twin_routes(ctx, thorough, binpath, scratch)

    ctx.cov["rule"] = ("every request path of <= d segments over the catalogue of spellings (quick: 30 spellings, d=3; thorough: 46/d=3, 20/d=4, "
                       "the property's 18/d=5), each sent to serve_dir and directory_handler under 3 route prefixes and to serve_as_file_path in 3 worlds; "
                       "non-trivial = distinct request paths (counted once across the overlapping bounds) that in some world are served, redirected "
                       "or have an admitted alternative (dot-dot paths resolving inside the root)")
    ctx.cov["exhaustive"] = True
    ctx.assumptions += [
        "two-level judging: Demand*/JudgeOk in StaticFs.tla (3e) is the statement of the property and alone decides a violation: no bytes from outside the root; a clean file requested by its "
        "well-spelled path gets 200, its exact contents and a media type registered for its extension; a clean directory 301 to the slash form; with the slash index.html, else index.htm, else 404",
        "Expect*/Conforms is the strict reading (today's choices: 404 for everything not served, Location exactly uri/, the table's own MIME strings, OS-like treatment of `.`/empty segments and encoded slashes); "
        "an answer that meets the statement but not the strict reading is a SPEC-DRIFT note; serve_file and the end-to-end leg gate only on bytes from outside",
        "OsLookup models Linux path resolution for worlds without symbolic links",
        "the harness maps bodies to content ids by exact byte equality; file contents contain every byte value",
        "directory_handler is called with an AppState built from Config::default() with logging off (cache off; in the random runs also with the cache on)",
        "file contents of prescribed sizes (0, 1, 255, 256, 2^16-1, 2^16, 2^16+1, 3 MiB + 1 bytes) are generated by the harness from the content id (StaticFs!SizeOf)",
        "requests are produced by the build's real request parser from wire bytes whenever the uri can travel in a request line; the end-to-end leg goes through a real App on loopback (threaded build)",
        "the tokio build of serve_dir / serve_as_file_path / serve_file is driven on a current-thread runtime; the server's directory_handler exists only in the threaded build",
    ]
    return ctx.finish()
