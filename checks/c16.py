"""C16 - the file cache returns only the latest bytes for the same key and keeps its limits.

Specifications: spec/cache/Cache.tla (the cache object: Set / Get / Tick, ghost `last`), StaticCache.tla
(the static handlers on top of it, one action per critical section), MC_*.tla (bounds, views, edge printer),
Trace_Cache.tla / Trace_StaticCache.tla (code -> spec).

1. TLC, exhaustive (Dev = {}): Inv_Size, Inv_Coherent, Inv_Unique, exactness and bound of the counter,
   Act_ImmediatelyRetrievable, Act_GetCoherent on the complete state graph of small constants (ages are
   abstracted by a VIEW, so the graph is finite without a clock bound); handler model: Inv_Fresh,
   Inv_MissServesFile, Inv_CachedWasFile, Act_HandlerCoherent.  Vacuity: coverage of every action, "never
   evicted / never stale / never served from cache" must be violated.  Sensitivity: seven hypothetical
   faults (EvictIgnoresNew, StaleGe, StaleOff, RouteOnly, NoSubOnReplace, NoRemoveOnReplace, PopBack) must
   each violate the property named next to them.
2. spec -> code, method B.1: TLC prints the COMPLETE transition graph (ACTION_CONSTRAINT EmitEdge: source,
   action, result, target, lookups of the target); the harness drives a fresh real Cache along a shortest
   path to every source state, applies the action, compares the returned value and get() of every key
   with the graph, and then applies every outgoing action of the target as a one-step probe.
3. spec -> code, method B.2: TLC prints the graph of all states within L-1 operations; the harness runs
   ALL 25^L operation sequences (3 routes x 2 hosts x 3 sizes sets, 6 gets, tick; L = 5 quick / 6 thorough)
   on the real Cache in lock-step with that table, calling get for every key stored so far after each step.
4. code -> spec, method C: random 2000-operation histories over 32 keys from 1..8 threads through
   RwLock<Cache>, events logged under the guard; handler-level runs of file_handler / directory_handler
   with files rewritten between requests; a run on the unmodified wall clock with real sleeps.  Every log
   is replayed by TLC (Trace_Cache / Trace_StaticCache) with all invariants evaluated.
5. The property by itself: Trace_CacheProp.tla / Trace_StaticProp.tla state C16 on a recorded history
   without any eviction policy (coherent hits, immediate retrievability, existence of a retention
   schedule within the size limit; bounded staleness of handler responses).  Every log is also judged
   by them, and they adjudicate: when the implementation model (Cache.tla) cannot explain what the code
   did, the observed histories (a seeded sample of up to 2000 mismatching sequences, panics first) are
   judged against the property alone - rejected => VIOLATION; accepted => the code still satisfies C16 but
   no longer behaves like the model in something the statement leaves free: FIFO order, how much is
   evicted, exact size accounting, the cache_time representation, status / MIME table of uncached answers
   (SPEC-DRIFT via ctx.drift, never a violation, exit code unchanged).  The judges look only at what the
   statement names: bytes and MIME type of a hit = the latest store of that key, its age measured from the
   store's own clock window, immediate retrievability, existence of a retention schedule within the limit;
   handler level: body = a version of the file not older than the limit, one Content-Type per (uri, host),
   no 200 for a path that is not a file.  Thorough: TLC simulates behaviours
   of the seven faulty models and the judge must reject each of them (and accept Dev = {}).
6. Self-test of the binding: one corrupted edge, one corrupted cache log record and one corrupted handler
   log record must be rejected (otherwise exit 2) - run only on material that validated cleanly and only
   when nothing is being reported, so that a genuine report on a broken tree is never disturbed.
7. Inputs chosen for the ways caches break (lessons pass): keys that differ only in case, a trailing slash,
   percent-encoding, Unicode normalisation form, the empty key; hosts 0, 1, 256, 65536; sizes 0, 1, limit-1,
   limit, limit/2(+1); limits 0, 1, 7, 64, 255..257, 4096, 65536; overwrites with the SAME length after the
   entry expired (virtual and real clock); a final sweep over all keys after the concurrent phase; handler
   requests parsed by the real request parser, targets that differ only in a trailing slash / case /
   percent-encoding / query string (301 and 404 neighbours of cached paths), the same path on two hosts
   with the same and with different files, files rewritten within the second in which they were cached
   (modification times stamped with the clock the process sees) and keeping their length; the same on
   the real clock.  A call that does not return within 90 s is reported as a violation (exit 1), per scenario.
   Must-violate configurations exist for each of these fault classes (MC_Cache_dev_*, MC_StaticCache_dev_*).

Clock: Cache calls SystemTime::now() itself.  The harness binary overrides libc's clock_gettime for
CLOCK_REALTIME (virtual seconds, per thread or process wide); `cache calibrate` proves on the real Cache that
this is the time it stores and compares, `cache realclock` repeats the check with the override off.
A set larger than the limit is outside the property (and guarded by the handlers); what the code does
then (panic, cache emptied) is recorded in the evidence as an observation and never fails the check."""
import concurrent.futures as cf
import io
import json
import os
import shutil

import vlib
from vlib import Ctx, run_tlc, build_harness, run_bin, parse_jsonl, SPEC

D = os.path.join(SPEC, "cache")
INV_OF_DEV = [("EvictIgnoresNew", "Inv_Size"), ("StaleGe", "Act_ImmediatelyRetrievable"), ("StaleOff", "Inv_Coherent"),
              ("RouteOnly", "Inv_Coherent"), ("NoSubOnReplace", "Inv_TotalExact"), ("NoRemoveOnReplace", "Inv_Unique"),
              ("PopBack", "Inv_TotalExact"),
              # fault classes learnt from seeded changes (lessons pass): boundary value size = limit, overwrite with the
              # same length after expiry, stale entries dropped without accounting, index used across the eviction loop
              ("EvictGe", "Act_ImmediatelyRetrievable"), ("NeverFitsGe", "Inv_Coherent"), ("SameLenKeepsTime", "Inv_Coherent"),
              ("StaleDropNoAccount", "Inv_TotalExact"), ("StaleIndexAfterEvict", "Inv_Coherent")]
C16_PROPS = {"Inv_Size", "Inv_TotalExact", "Inv_TotalBound", "Inv_Coherent", "Inv_Unique", "Act_ImmediatelyRetrievable", "Act_GetCoherent",
             "Inv_MissServesFile", "Inv_Fresh", "Inv_CachedWasFile", "Act_HandlerCoherent"}
# handler level: (deviation, module, cfg, property that must be violated)
HANDLER_DEVS = [("KeyStripsSlash", "MC_StaticCache.tla", "MC_StaticCache_dev_KeyStripsSlash.cfg", "Inv_CachedWasFile")]


def tlc_jobs(jobs, par):
    """jobs: list of (name, module, cfg, kwargs). Runs up to `par` TLC processes at a time. -> {name: result}"""
    out = {}

    def one(j):
        name, module, cfg, kw = j
        kw = dict(kw)
        post = kw.pop("post", None)
        r = run_tlc(module, cfg, D, work_id="c16-" + name.replace(" ", "_").replace("/", "_"), **kw)
        if post:
            post(r)
        return name, r

    with cf.ThreadPoolExecutor(max_workers=par) as ex:
        for name, r in ex.map(one, jobs):
            out[name] = r
    return out


def edges_to_file(path):
    """post-processor: moves the `"E[...]"` lines of a TLC run into an edge file and drops the output."""
    def post(r):
        n = 0
        with open(path, "w") as f:
            for line in io.StringIO(r.out):
                if line.startswith('"E['):
                    f.write(line[2:].rstrip()[:-1])
                    f.write("\n")
                    n += 1
        r.edges = n
        r.out = r.out[-3000:]
    return post


class Hang(Exception):
    """the harness reported that a call of the code under test did not return (exit code 4)"""
    def __init__(self, what, info):
        Exception.__init__(self, what)
        self.what = what
        self.info = info


def check_hang(p, what):
    if p.returncode == 4:
        info = [x for x in parse_jsonl(p.stdout) if x.get("summary") == "hang"]
        raise Hang(what, info[0] if info else {"summary": "hang", "executing": []})


def harness_json(p, what):
    check_hang(p, what)
    res = [x for x in parse_jsonl(p.stdout) if x.get("summary")]
    if p.returncode != 0 or not res:
        raise vlib.ToolError("%s failed rc=%s: %s" % (what, p.returncode, (p.stderr or p.stdout)[-1500:]))
    return res[0]


def report_hang(ctx, h):
    ctx.violation("%s: a call into the cache did not return within %s s (an item within the limit must be retrievable after "
                  "being stored, a lookup must return); the workers were executing: %s"
                  % (h.what, h.info.get("seconds_without_progress"), json.dumps(h.info.get("executing"))[:1200]),
                  {"kind": "cache-hang", "mode": h.info.get("mode"), "executing": h.info.get("executing")})


def split_runs(text):
    """ndjson with `reset` records -> list of (limit, tl, [records of one run incl. its reset])"""
    runs = []
    for line in text.splitlines():
        if not line.startswith("{"):
            continue
        e = json.loads(line)
        if e["ev"] == "reset":
            runs.append((e["limit"], e["tl"], [e]))
        elif runs:
            runs[-1][2].append(e)
    return runs


def validate_trace(module, cfg, path, name, timeout=900):
    t = run_tlc(module, cfg, D, workers=1, env={"TRACE": path}, timeout=timeout, deque=True,
                work_id="c16-" + name)
    return t


def rejected_info(t):
    mism = [x for x in t.prints if isinstance(x, dict) and "mismatch_at" in x]
    rej = [x for x in t.prints if isinstance(x, dict) and "rejected_at" in x]
    at = rej[-1]["rejected_at"] if rej else None
    pred = [m for m in mism if m["mismatch_at"] == at]
    return at, (rej[-1]["event"] if rej else None), pred[:3]


def judge(module, path, name):
    """property-only judge; returns (accepted, rejects)"""
    t = run_tlc(module + ".tla", module + ".cfg", D, workers=1, env={"TRACE": path}, timeout=1500, work_id="c16-judge-" + name)
    rej = []
    for x in t.prints:
        if isinstance(x, dict) and "property_rejects" in x:
            rej += x["property_rejects"]
    return t, (t.violation is None), rej


def adjudicate_sequences(ctx, cache, label, limit, tl, unit, s, wd):
    """A graph replay disagreed with the real Cache.  Let TLC judge what the code actually did."""
    seqs = [m["ops"] for m in s["first"]] + s.get("sampled", [])
    inp = "\n".join(json.dumps(q) for q in seqs) + "\n"
    p = run_bin(cache, ["runseq", str(limit), str(tl), str(unit), "trace"], stdin_data=inp)
    if p.returncode != 0:
        raise vlib.ToolError("cache runseq trace failed: " + p.stderr[-800:])
    path = os.path.join(wd, "adjudicate-%s.ndjson" % label)
    with open(path, "w") as f:
        f.write(p.stdout)
    events = [json.loads(x) for x in p.stdout.splitlines() if x.startswith("{")]
    tj, ok, rej = judge("Trace_CacheProp", path, label)
    ctx.add_tlc("property judge on %d observed histories of mismatching sequences (%s)" % (len(seqs), label), tj)
    first = s["first"][0]
    if not ok:
        at = rej[0]["at"]
        lo = max(i for i in range(at) if events[i]["ev"] == "reset")
        hi = min([i for i in range(at, len(events)) if events[i]["ev"] == "reset"] + [len(events)])
        ctx.violation("%s: the real Cache differs from the model AND the observed history breaks C16 (%s) at %s; first model mismatch: %s"
                      % (label, rej[0]["why"], json.dumps(rej[0]["event"]), json.dumps(first)),
                      {"kind": "cache-trace", "module": "Trace_CacheProp.tla", "cfg": "Trace_CacheProp.cfg", "events": events[lo:hi],
                       "property_rejects": rej[:5], "model_mismatch": first})
        return
    # the property holds on everything sampled: the code differs from the implementation model in something the
    # statement leaves free (eviction order, how much is evicted, time representation, ...) - drift, not violation
    ts = validate_trace("Trace_Cache.tla", "Trace_Cache.cfg", path, "adj-" + label)
    note = "" if ts.violation is not None else " (TLC's own replay of these histories with Cache.tla accepts them: the difference is in something only the graph replay compares)"
    msg = ("%s: the real Cache does not behave like spec/cache/Cache.tla (%d mismatches, first: %s) but all %d sampled observed "
           "histories satisfy C16 as judged by Trace_CacheProp%s" % (label, s["mismatches"], json.dumps(first), len(seqs), note))
    ctx.drift("implementation model Cache.tla", msg, {"kind": "cache-seq", "graph": label, "mismatch": first, "more": s["first"][1:]})
    ctx.add_part("MODEL_DRIFT " + label, mismatches=s["mismatches"], histories_judged=len(seqs), first=first)


def adjudicate_log(ctx, name, module, cfg, path, evs, t):
    """A recorded log was rejected by the implementation model.  Judge it against the property alone."""
    jm = "Trace_CacheProp" if module == "Trace_Cache.tla" else "Trace_StaticProp"
    tj, ok, rej = judge(jm, path, "adj")
    ctx.add_tlc("property judge on rejected log: " + name, tj)
    at, ev, pred = rejected_info(t)
    if ok:
        msg = ("%s: the log is not a behaviour of the implementation model (record %s: %s; model predicts %s) but satisfies C16 as "
               "judged by %s" % (name, at, json.dumps(ev), json.dumps(pred)[:400], jm))
        lo = max([i for i in range(at or 0) if evs[i]["ev"] == "reset"] + [0])
        ctx.drift("implementation model " + ("Cache.tla" if jm == "Trace_CacheProp" else "StaticCache.tla"), msg,
                  {"kind": "cache-trace", "module": module, "cfg": cfg, "events": evs[lo:((at or 0) + 20)], "rejected_at": at, "model": pred})
        ctx.add_part("MODEL_DRIFT " + name, rejected_at=at, event=ev, model=pred)
        return
    rat = rej[0]["at"]
    lo = max([i for i in range(rat) if evs[i]["ev"] == "reset"] + [0])
    hi = min([i for i in range(rat, len(evs)) if evs[i]["ev"] == "reset"] + [len(evs)])
    ctx.violation("%s: the log breaks C16 (%s) at record %d: %s; implementation model: rejected at record %s, predicts %s"
                  % (name, rej[0].get("why", "handler response"), rat - lo, json.dumps(rej[0]["event"]), at, json.dumps(pred)[:500]),
                  {"kind": "cache-trace", "module": jm + ".tla", "cfg": jm + ".cfg", "events": evs[lo:hi], "property_rejects": rej[:5],
                   "model_rejected_at": at, "model_predicts": pred})


def do_replay(cache_bin, path):
    obj = json.load(open(path))
    case = obj.get("case", obj)
    kind = case.get("kind")
    if kind == "cache-seq":
        m = case["mismatch"]
        p = run_bin(cache_bin, ["runseq", str(m["limit"]), str(m["tl"]), str(m["unit"])], stdin_data=json.dumps(m["ops"]))
        steps = parse_jsonl(p.stdout)
        for s in steps:
            print(json.dumps(s))
        print("expected by the specification at step %d (%s): %s" % (m["step"], m["what"], json.dumps(m["exp"])))
        st = steps[m["step"]] if m["step"] < len(steps) else None
        still = True
        if st is not None:
            if m["what"] == "returned value":
                still = st["got"] != m["exp"]
            else:
                still = True
                # the stored mismatch names one key; it is reproduced if that lookup still differs
                for r, h, got in st["get_all"]:
                    if ("get(%s,%d)" % (["", "/a", "/b", "/c", "/d"][r], h)) in m["what"]:
                        still = got != m["exp"]
        print("VIOLATION property=C16 replay=%s" % path if still else "not reproduced")
        return 1 if still else 0
    if kind == "cache-hang":
        rc = 0
        for ex in case.get("executing") or []:
            if not isinstance(ex, dict) or "ops" not in ex:
                print("was executing: %s" % json.dumps(ex))
                continue
            try:
                p = run_bin(cache_bin, ["runseq", str(ex["limit"]), str(ex["tl"]), str(ex["unit"])], stdin_data=json.dumps(
                    [o if o[0] != 0 or o[4] else o[:4] + [1] + o[5:] for o in ex["ops"]]), timeout=120)
                print("returned: %s" % json.dumps(ex["ops"]))
            except vlib.ToolError:
                print("does not return within 120 s: %s" % json.dumps(ex))
                rc = 1
        print("VIOLATION property=C16 replay=%s" % path if rc else "not reproduced")
        return rc
    if kind == "cache-trace":
        wd = vlib.workdir("C16")
        tr = os.path.join(wd, "replay.ndjson")
        vlib.write_lines(tr, case["events"])
        if case["module"].startswith("Trace_CacheProp") or case["module"].startswith("Trace_StaticProp"):
            t, ok, rej = judge(case["module"][:-4], tr, "replay")
            os.remove(tr)
            if not ok:
                print("the property judge rejects: %s" % json.dumps(rej[:3]))
                print("VIOLATION property=C16 replay=%s" % path)
                return 1
            print("not reproduced: the history satisfies C16")
            return 0
        t = validate_trace(case["module"], case["cfg"], tr, "replay")
        os.remove(tr)
        if t.violation:
            at, ev, pred = rejected_info(t)
            print("rejected at record %s: %s\nmodel: %s" % (at, json.dumps(ev), json.dumps(pred)))
            print("VIOLATION property=C16 replay=%s" % path)
            return 1
        print("not reproduced: the log is accepted")
        return 0
    print("replay file of unknown kind %r" % kind)
    return 2


def record_executions(cache, wd, thorough, nops):
    """Part 4a: run the real code and record logs.  -> (files, handler_requests, hangs)"""
    if thorough:
        limits = [0, 1, 7, 64, 256, 65536]
        tls = [0, 1, 60]
        combos = []
        k = 0
        for lim in limits:
            for tl in tls:
                ths = [1 + (k + i * 3) % 8 for i in range(4)]
                k += 1
                combos.append((lim, tl, sorted(set(ths))))
    else:
        combos = [(65536, 60, [1, 5]), (64, 1, [2, 8]), (7, 0, [4, 1]), (256, 1, [8, 3]), (0, 0, [3, 6]), (1, 0, [7, 2])]
    files = []   # (name, module, cfg, path, events, runs)
    hangs = []
    for lim, tl, ths in combos:
        text = ""
        for th in ths:
            p = run_bin(cache, ["random", str(th), str(nops), str(lim), str(tl), "virtual"])
            try:
                check_hang(p, "random history, %d threads, limit %d, time limit %d" % (th, lim, tl))
            except Hang as h:
                hangs.append(h)
                continue
            if p.returncode != 0:
                raise vlib.ToolError("cache random failed: " + p.stderr[-800:])
            text += p.stdout
        path = os.path.join(wd, "rand-%d-%d.ndjson" % (lim, tl))
        with open(path, "w") as f:
            f.write(text)
        if text:
            files.append(("random limit=%d tl=%d threads=%s" % (lim, tl, ths), "Trace_Cache.tla", "Trace_Cache.cfg", path,
                          text.count("\n"), len(ths)))
    # the unmodified clock, cache level and handler level (both sleep; run side by side)
    with cf.ThreadPoolExecutor(max_workers=2) as ex:
        fr = ex.submit(run_bin, cache, ["realclock"])
        fh = ex.submit(run_bin, cache, ["realhandlers", os.path.join(wd, "fsreal")])
        pr, ph = fr.result(), fh.result()
    for p, label, module in ((pr, "real clock, real sleeps", "Trace_Cache"), (ph, "handlers on the real clock", "Trace_StaticCache")):
        try:
            check_hang(p, label)
        except Hang as h:
            hangs.append(h)
            continue
        if p.returncode != 0:
            raise vlib.ToolError("cache %s failed: %s" % (label, p.stderr[-800:]))
        for i, (lim, tl, recs) in enumerate(split_runs(p.stdout)):
            path = os.path.join(wd, "%s-%d.ndjson" % (module, i))
            vlib.write_lines(path, recs)
            files.append(("%s, tl=%d" % (label, tl), module + ".tla", module + ".cfg", path, len(recs), 1))
    # handler level, virtual clock
    if thorough:
        hcombos = [(600, 64, 1, 1), (600, 4096, 0, 2), (600, 0, 0, 1), (600, 65536, 60, 2), (600, 7, 1, 3), (600, 64, 0, 4),
                   (600, 1024, 60, 3), (600, 65536, 1, 4), (600, 1, 0, 2), (600, 300, 1, 1), (600, 4096, 1, 2), (600, 64, 60, 1),
                   (600, 255, 0, 1), (600, 257, 1, 2)]
    else:
        hcombos = [(320, 64, 1, 1), (320, 4096, 0, 2), (320, 0, 0, 1), (320, 65536, 60, 2)]
    hreq = 0
    for i, (ops, lim, tl, th) in enumerate(hcombos):
        p = run_bin(cache, ["handlers", os.path.join(wd, "fs%d" % i), str(ops), str(lim), str(tl), str(th)],
                    env={"VERIF_SEED": str(vlib.seed() * 131 + i)})
        try:
            check_hang(p, "handlers, %d threads, limit %d, time limit %d" % (th, lim, tl))
        except Hang as h:
            hangs.append(h)
            continue
        if p.returncode != 0:
            raise vlib.ToolError("cache handlers failed: " + p.stderr[-800:])
        path = os.path.join(wd, "handlers-%d.ndjson" % i)
        with open(path, "w") as f:
            f.write(p.stdout)
        hreq += p.stdout.count('"ev":"end"')
        files.append(("handlers limit=%d tl=%d threads=%d" % (lim, tl, th), "Trace_StaticCache.tla", "Trace_StaticCache.cfg", path,
                      p.stdout.count("\n"), 1))
    # size bound under racing handlers: N threads leave a barrier together, each storing its own file of 5/8 of the limit,
    # while an observer adds up what Cache::get returns under the read guard (`sweep` records)
    rcombos = [(600, 65536, 2), (200, 4096, 3), (400, 64, 2), (60, 65536, 4)] if thorough else [(200, 65536, 2), (60, 4096, 3)]
    for i, (rounds, lim, th) in enumerate(rcombos):
        p = run_bin(cache, ["sizerace", os.path.join(wd, "sr%d" % i), str(rounds), str(lim), str(th)],
                    env={"VERIF_SEED": str(vlib.seed() * 137 + i)})
        try:
            check_hang(p, "handlers racing for the size bound, %d threads, limit %d" % (th, lim))
        except Hang as h:
            hangs.append(h)
            continue
        if p.returncode != 0:
            raise vlib.ToolError("cache sizerace failed: " + p.stderr[-800:])
        path = os.path.join(wd, "sizerace-%d.ndjson" % i)
        with open(path, "w") as f:
            f.write(p.stdout)
        hreq += p.stdout.count('"ev":"end"')
        files.append(("handlers racing for the size bound limit=%d threads=%d" % (lim, th), "Trace_StaticCache.tla", "Trace_StaticCache.cfg", path,
                      p.stdout.count("\n"), 1))
    return files, hreq, hangs


def validate_executions(files, par):
    """Part 4b: every log through the implementation model and through the property judge."""
    def val(fl):
        name, module, cfg, path, n, runs = fl
        t = validate_trace(module, cfg, path, "tr%d" % abs(hash(name)), timeout=1500)
        tj, ok, rej = judge("Trace_CacheProp" if module == "Trace_Cache.tla" else "Trace_StaticProp", path, "lg%d" % abs(hash(name)))
        return fl, t, (tj, ok, rej)
    with cf.ThreadPoolExecutor(max_workers=par) as ex:
        return list(ex.map(val, files))


def run(tier, replay):
    bindir = build_harness(["cache"])
    cache = os.path.join(bindir, "cache")
    if replay:
        return do_replay(cache, replay)
    ctx = Ctx("C16", tier, "model_checking")
    thorough = tier == "thorough"
    alt = os.environ.get("VERIF_REPO")
    wd = vlib.workdir("C16" if not alt or os.path.abspath(alt) == "/repo" else "C16-" + vlib.alt_tag(alt))
    nops = 2000

    # 0. the clock override works (tool fact); whether the Cache uses that clock is data for the replays
    cal = harness_json(run_bin(cache, ["calibrate"]), "cache calibrate")
    ctx.add_part("clock calibration", **{k: v for k, v in cal.items() if k != "summary"})

    # part 4 (recorded executions) runs beside the TLC jobs of parts 1-3
    bg = cf.ThreadPoolExecutor(max_workers=1)

    def part4():
        files, hreq, hangs = record_executions(cache, wd, thorough, nops)
        return files, hreq, hangs, validate_executions(files, 3)
    fut4 = bg.submit(part4)

    # ------------------------------------------------------------------------------------------
    # 1. model checking, vacuity, sensitivity
    # ------------------------------------------------------------------------------------------
    jobs = [("MC q2 (coverage)", "MC_Cache.tla", "MC_Cache_q2.cfg", dict(workers=1, coverage=True, timeout=600))]
    for c in ("q1", "q3") + (("q4",) if thorough else ()):
        jobs.append(("MC " + c, "MC_Cache.tla", "MC_Cache_%s.cfg" % c, dict(workers=2, timeout=900)))
    jobs.append(("MC handlers q", "MC_StaticCache.tla", "MC_StaticCache_q.cfg", dict(workers=2, timeout=900)))
    for w in ("evict", "stale"):
        jobs.append(("witness " + w, "MC_Cache.tla", "MC_Cache_wit_%s.cfg" % w, dict(workers=1, timeout=300)))
    for w in ("cached", "old"):
        jobs.append(("witness handlers " + w, "MC_StaticCache.tla", "MC_StaticCache_wit_%s.cfg" % w, dict(workers=1, timeout=300)))
    jobs.append(("observation handlers race", "MC_StaticCache.tla", "MC_StaticCache_race.cfg", dict(workers=1, timeout=300)))
    want_of = {}
    for dev, want in INV_OF_DEV:
        jobs.append(("sensitivity " + dev, "MC_Cache.tla", "MC_Cache_dev_%s.cfg" % dev, dict(workers=1, timeout=300)))
        want_of[dev] = want
    for dev, module, cfg, want in HANDLER_DEVS:
        jobs.append(("sensitivity " + dev, module, cfg, dict(workers=1, timeout=300)))
        want_of[dev] = want
    mc_jobs = jobs
    # ------------------------------------------------------------------------------------------
    # 2. + 3. TLC prints graphs, the harness replays them
    # ------------------------------------------------------------------------------------------
    # (name, limit, tl, unit)
    graphs = [("g1", 2, 1, 1), ("g2", 4, 0, 16384), ("g3", 0, 60, 1)]
    if thorough:
        graphs += [("g4", 2, 1, 1), ("g5", 4, 0, 4096), ("g6", 0, 60, 1)]
    L = 6 if thorough else 5
    balls = [("L4T1", 4, 1, 1), ("L4T0", 4, 0, 16), ("L0T1", 0, 1, 1)]
    # (Gen_Cache_ball*_L2T60.cfg - 26 letters, 3.1e8 sequences of length 6 - is kept for manual runs; time limit 60 is
    #  covered by the complete graphs g3 / g6, MC t3 and the logs)
    jobs = []
    for g, *_ in graphs + [("over", 2, 1, 1)]:
        jobs.append((g, "MC_Cache.tla", "Gen_Cache_%s.cfg" % g,
                     dict(workers=2, timeout=2400, heap="3g", post=edges_to_file(os.path.join(wd, g + ".edges")))))
    for b, *_ in balls:
        # breadth-first levels are exact only with one worker
        jobs.append(("ball" + b, "MC_Cache.tla", "Gen_Cache_ball%d_%s.cfg" % (L, b),
                     dict(workers=1, timeout=3000, heap="3g", post=edges_to_file(os.path.join(wd, "ball" + b + ".edges")))))
    # largest first
    jobs.sort(key=lambda j: 0 if j[0].startswith("ball") else 1)
    big = []
    if thorough:
        big = [("MC handlers t", "MC_StaticCache.tla", "MC_StaticCache_t.cfg", dict(workers=3, timeout=3000, heap="6g")),
               ("MC t1", "MC_Cache.tla", "MC_Cache_t1.cfg", dict(workers=3, timeout=3000, heap="6g")),
               ("MC t3", "MC_Cache.tla", "MC_Cache_t3.cfg", dict(workers=2, timeout=3000)),
               ("MC t2", "MC_Cache.tla", "MC_Cache_t2.cfg", dict(workers=2, timeout=3000))]
    mc_jobs = big + mc_jobs
    # one pool for every TLC job of parts 1-3 (they are independent)
    allres = tlc_jobs(big + jobs + mc_jobs[len(big):], 5 if not thorough else 4)
    gen = {j[0]: allres[j[0]] for j in jobs}
    res = {j[0]: allres[j[0]] for j in mc_jobs}
    for name, r in res.items():
        if name.startswith("MC "):
            ctx.add_tlc(name + ", Dev={}", r)
            ctx.require_tlc_ok(name, r)
        elif name.startswith("witness"):
            ctx.add_tlc(name + " (a 'never' claim that must be violated)", r)
            if r.violation != "invariant":
                raise vlib.ToolError("vacuity guard: %s was not violated" % name)
        elif name.startswith("observation"):
            ctx.add_tlc(name + ": Inv_Fresh with files rewritten DURING requests (outside C16)", r,
                        note="violated, as expected: read-then-store window of inner_file_handler")
            ctx.add_part("observation_rewrite_during_request", inv_fresh_violated=(r.violation == "invariant"),
                         note="with RewriteInFlight=TRUE the model serves content older than the time limit allows; "
                              "C16 speaks of files that change between requests, where Inv_Fresh holds")
        elif name.startswith("sensitivity"):
            dev = name.split()[1]
            want = want_of[dev]
            ctx.add_tlc("%s: Dev={%s} must violate a property of C16 (typically %s; violated: %s)" % (name, dev, want, r.violated_name), r)
            # (a fault usually breaks several properties in the same step; which one TLC names first is not fixed)
            if r.violation is None or r.violated_name not in C16_PROPS:
                raise vlib.ToolError("model lost sensitivity: Dev={%s} gives %s %s instead of violating %s"
                                     % (dev, r.violation, r.violated_name, want))
    cov = res["MC q2 (coverage)"].coverage
    for a in ("Set", "Get", "Tick"):
        if cov.get(a, (0, 0))[0] == 0:     # (taken, new states): Get never yields a new state, so count how often it was taken
            raise vlib.ToolError("vacuity guard: action %s never taken in MC_Cache_q2" % a)
    for name, r in gen.items():
        if r.violation:
            raise vlib.ToolError("generation %s failed: %s" % (name, r.out[-1500:]))
        ctx.add_tlc("graph generation " + name, r, note="%d edges printed" % r.edges)
        if r.edges == 0:
            raise vlib.ToolError("generation %s printed no edge" % name)

    threads = "8"
    clean_graphs = set()
    # 2. edge-complete replay with one-step probes (each graph is its own scenario: a hang or a mismatch in one
    #    does not keep the others from being replayed)
    for g, limit, tl, unit in graphs:
        try:
            s = harness_json(run_bin(cache, ["edges", os.path.join(wd, g + ".edges"), str(limit), str(tl), str(unit), threads], timeout=3000),
                             "edge replay of graph " + g)
        except Hang as h:
            report_hang(ctx, h)
            continue
        if s["edges_in_file"] != gen[g].edges or s["edges"] != gen[g].edges or not s["complete"]:
            raise vlib.ToolError("edge replay %s consumed %s of %s edges (complete=%s)" % (g, s["edges"], gen[g].edges, s["complete"]))
        if s["states"] != gen[g].distinct:
            raise vlib.ToolError("edge file %s has %d states, TLC found %d" % (g, s["states"], gen[g].distinct))
        ctx.cov["evaluations"] += s["edges"] + s["probes"]
        ctx.cov["distinct_nontrivial"] += s["nontrivial"]
        ctx.cov["traces_validated_against_impl"] += s["edges"] + s["probes"]
        ctx.sample({"kind": "edge replay: path to the source state + the edge's action, [op,route#,host,size,id,d]", **s["sample"]})
        ctx.add_part("edge-complete replay " + g, limit_units=limit, time_limit=tl, unit_bytes=unit, states=s["states"], edges=s["edges"],
                     one_step_probes=s["probes"], cache_calls=s["calls"], lookups_compared=s["gets"], longest_path=s["max_path"],
                     nontrivial_edges=s["nontrivial"], mismatches=s["mismatches"])
        if s["mismatches"]:
            adjudicate_sequences(ctx, cache, "graph " + g, limit, tl, unit, s, wd)
        else:
            clean_graphs.add(g)
    # observation: set larger than the limit (never a violation, whatever happens)
    try:
        p = run_bin(cache, ["edges", os.path.join(wd, "over.edges"), "2", "1", "1", "2"], timeout=600)
        so = [x for x in parse_jsonl(p.stdout) if x.get("summary")]
        so = so[0] if so else {"summary": "none"}
    except vlib.ToolError:
        so = {"summary": "timeout"}
    ctx.add_part("observation_oversize_set", edges=so.get("edges"), as_modelled=(so.get("summary") == "edges" and so.get("mismatches") == 0),
                 note="Cache::set with len > cache_limit: the model says the eviction loop pops every entry and the call then panics on "
                      "data[0], leaving the cache empty; as_modelled tells whether the real code did exactly that on every such edge. "
                      "Outside C16 (the handlers guard with size_limit >= len); never counted.",
                 first_difference=(so["first"][0] if so.get("first") else (so if so.get("summary") != "edges" else None)))

    # 3. all sequences of length L in lock-step
    for b, limit, tl, unit in balls:
        try:
            s = harness_json(run_bin(cache, ["lockstep", os.path.join(wd, "ball" + b + ".edges"), str(limit), str(tl), str(unit), str(L), threads],
                                     timeout=6000), "lock-step run " + b)
        except Hang as h:
            report_hang(ctx, h)
            continue
        a = s["alphabet"]
        if s["mismatches"] == 0 and (s["sequences"] != a ** L or s["prefixes"] != sum(a ** i for i in range(1, L + 1))):
            raise vlib.ToolError("lock-step %s ran %d sequences / %d prefixes, expected %d / %d"
                                 % (b, s["sequences"], s["prefixes"], a ** L, sum(a ** i for i in range(1, L + 1))))
        ctx.cov["evaluations"] += s["prefixes"]
        ctx.cov["distinct_nontrivial"] += s["nontrivial"]
        ctx.cov["traces_validated_against_impl"] += s["sequences"]
        for x in s["samples"][:2]:
            ctx.sample({"kind": "lock-step sequence [op,route#,host,size,-,d]", **x})
        ctx.add_part("all sequences, lock-step " + b, limit_units=limit, time_limit=tl, unit_bytes=unit, alphabet=a, length=L,
                     sequences=s["sequences"], distinct_prefixes_checked=s["prefixes"], cache_calls=s["calls"], lookups_compared=s["gets"],
                     graph_states=s["graph_states"], graph_edges=s["graph_edges"], nontrivial_prefixes=s["nontrivial"],
                     mismatches=s["mismatches"])
        if s["mismatches"]:
            adjudicate_sequences(ctx, cache, "lock-step " + b, limit, tl, unit, s, wd)

    # ------------------------------------------------------------------------------------------
    # 4. recorded executions validated by TLC (recorded and validated in the background, accounted here)
    # ------------------------------------------------------------------------------------------
    files, hreq, hangs, validated = fut4.result()
    bg.shutdown()
    for h in hangs:
        report_hang(ctx, h)
    hits = 0
    clean_logs = []
    for (name, module, cfg, path, n, runs), t, (tj, jok, jrej) in validated:
        ctx.add_tlc("trace validation: " + name, t, note="%d records" % n)
        ctx.add_tlc("property judge: " + name, tj, note="%d records" % n)
        ctx.cov["evaluations"] += n
        ctx.cov["traces_validated_against_impl"] += runs
        evs = [json.loads(x) for x in open(path) if x.startswith("{")]
        # distinct non-trivial records: lookups that hit, and lookups of a key stored earlier in the run that miss
        stored = set()
        nt = 0
        for e in evs:
            if e["ev"] == "reset":
                stored = set()
            elif e["ev"] == "set":
                stored.add((e["route"], e["host"]))
            elif e["ev"] == "get" and (e["hit"] or (e["route"], e["host"]) in stored):
                nt += 1
            elif e["ev"] == "end" and e["status"] == 200:
                nt += 1
        ctx.cov["distinct_nontrivial"] += nt
        hits += nt
        if "random limit=64 tl=1" in name or name.startswith("handlers limit=64"):
            for e in [x for x in evs if x["ev"] in ("get", "end") and x.get("hit", True)][:1]:
                ctx.sample({"kind": "logged record accepted by TLC (%s)" % name, "record": e})
        if t.violation:
            adjudicate_log(ctx, name, module, cfg, path, evs, t)
        elif not jok:
            # the implementation model explains the log but the property judge does not: the two
            # specifications disagree with each other, which is a defect of the check
            raise vlib.ToolError("%s: accepted by %s but rejected by the property judge: %s" % (name, module, json.dumps(jrej[:2])))
        else:
            clean_logs.append((name, module, cfg, path, n, runs))
    ctx.add_part("recorded executions", logs=len(files), handler_requests=hreq, nontrivial_records=hits,
                 random_runs=sum(f[5] for f in files if f[0].startswith("random")), ops_per_run=nops)

    # ------------------------------------------------------------------------------------------
    # 5. self-tests of the binding - only on material that validated cleanly, and only when nothing is
    #    being reported (on a broken tree the genuine report must not be disturbed)
    # ------------------------------------------------------------------------------------------
    if not ctx.violations:
        # 5a. a corrupted edge must be noticed
        if "g3" in clean_graphs:
            src = os.path.join(wd, "g3.edges")
            bad = os.path.join(wd, "g3bad.edges")
            flipped = False
            with open(src) as f, open(bad, "w") as o:
                for line in f:
                    if not flipped:
                        e = json.loads(line)
                        if e[1][0] == 1 and e[2][0] == 1:      # a get that hits: claim another content id
                            e[2][2] = 3 - e[2][2] if e[2][2] in (1, 2) else 1
                            line = json.dumps(e, separators=(",", ":")) + "\n"
                            flipped = True
                    o.write(line)
            s = harness_json(run_bin(cache, ["edges", bad, "0", "60", "1", "2"]), "cache edges self-test")
            if not flipped or s["mismatches"] == 0:
                raise vlib.ToolError("self-test: an edge with a flipped expected content id was not rejected by the replay")
            ctx.add_part("self-test corrupted edge", rejected=True, mismatches=s["mismatches"])
        # 5b. corrupted records must be rejected, by the implementation model and by the property judge
        pick = [f for f in clean_logs if f[0].startswith("random limit=64")][:1] + [f for f in clean_logs if f[0].startswith("handlers")][:1]
        for name, module, cfg, path, n, runs in pick:
            evs = [json.loads(x) for x in open(path) if x.startswith("{")]
            if module == "Trace_Cache.tla":
                idx = [i for i, e in enumerate(evs) if e["ev"] == "get" and e["hit"]]
                field = "rhash"
            else:
                idx = [i for i, e in enumerate(evs) if e["ev"] == "end" and e["status"] == 200]
                field = "hash"
            if not idx:
                continue
            i = idx[len(idx) // 2]
            evs[i][field] ^= 1
            badp = path + ".bad"
            vlib.write_lines(badp, evs)
            t = validate_trace(module, cfg, badp, "selftest", timeout=900)
            at, ev, pred = rejected_info(t)
            if t.violation is None or at != i + 1:
                raise vlib.ToolError("self-test: log %s with record %d corrupted was not rejected there (violation=%s at=%s)"
                                     % (name, i + 1, t.violation, at))
            tj, jok, jrej = judge("Trace_CacheProp" if module == "Trace_Cache.tla" else "Trace_StaticProp", badp, "selftest")
            if jok or jrej[0]["at"] != i + 1:
                raise vlib.ToolError("self-test: the property judge did not reject log %s at the corrupted record %d: %s" % (name, i + 1, json.dumps(jrej[:1])))
            ctx.add_part("self-test corrupted record in " + name, rejected_at=at, corrupted=i + 1, judge_rejected_at=jrej[0]["at"])

        # 5c. (thorough) behaviours of the faulty models, simulated by TLC, must be rejected by the property judge
        if thorough:
            def sim(dev):
                r = run_tlc("Sim_Cache.tla", "Sim_Cache_%s.cfg" % dev, D, workers=1, simulate=700, depth=90, seed_val=vlib.seed(), timeout=900,
                            work_id="c16-sim-" + dev)
                recs = []
                n = 0
                for line in io.StringIO(r.out):
                    if line.startswith('"T[') and n < 1500:
                        recs += json.loads(json.loads(line)[1:])
                        n += 1
                path = os.path.join(wd, "sim-%s.ndjson" % dev)
                vlib.write_lines(path, recs)
                tj, ok, rej = judge("Trace_CacheProp", path, "sim" + dev)
                return dev, n, len(recs), ok, rej, tj
            caught = 0
            devs = [d for d, _ in INV_OF_DEV]
            with cf.ThreadPoolExecutor(max_workers=4) as ex:
                for dev, n, nrec, ok, rej, tj in ex.map(sim, ["none"] + devs):
                    ctx.add_tlc("property judge on %d simulated behaviours of Dev={%s}" % (n, "" if dev == "none" else dev), tj)
                    if n == 0:
                        raise vlib.ToolError("simulation of Dev=%s produced no behaviour" % dev)
                    if dev == "none" and not ok:
                        raise vlib.ToolError("the property judge rejects behaviours of the fault-free model: %s" % json.dumps(rej[:2]))
                    if dev != "none" and not ok:
                        caught += 1
                    ctx.add_part("judge sensitivity " + dev, behaviours=n, records=nrec, rejected=(not ok),
                                 reasons=sorted(set(x["why"] for x in rej)))
            # random behaviours: a fault may by chance not show within the sample, but most must
            if caught < len(devs) - 3:
                raise vlib.ToolError("the property judge rejected simulated behaviours of only %d of the %d faulty models" % (caught, len(devs)))

    shutil.rmtree(wd, ignore_errors=True)
    ctx.cov["rule"] = ("edges: every transition of TLC's complete state graphs, each replayed from a fresh real Cache and followed by every "
                       "one-step probe; sequences: every word of length L over the 25-operation alphabet (3 routes x 2 hosts x 3 sizes sets, "
                       "6 gets, tick), evaluations = distinct prefixes checked; logs: records of random multi-threaded / handler-level runs. "
                       "Non-trivial = edges whose set evicts or replaces or whose get misses a present (stale) entry; prefixes after which a key "
                       "stored earlier in the sequence is no longer retrievable on the real cache; logged lookups that hit or that miss a key "
                       "stored earlier in the run, and handler responses with status 200")
    ctx.cov["exhaustive"] = True
    ctx.assumptions += [
        "payload identity: content id <-> (fill byte, MIME type) in graph replays; (length, 31-bit FNV-1a, MIME string) in logs",
        "clock: the harness binary overrides clock_gettime(CLOCK_REALTIME); calibrated on every run and cross-checked by cache-level and handler-level runs on the real clock; file modification times are stamped with the same clock",
        "RwLock gives the linearization order: records are numbered while the guard is held",
        "handler level: requests are parsed by the real parser; files change only between phases of requests; the file -> MIME type table of the harness for 5 extensions",
        "TLC and the graphs it prints are the oracle; the harness only looks expectations up",
        "not exercised: time limits / sizes beyond 2^31 (TLC integers are 32-bit)",
    ]
    return ctx.finish()
