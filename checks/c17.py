"""C17 - passwords and session tokens authenticate exactly their owner, only while valid.

1. TLC explores spec/auth/Auth.tla exhaustively (Dev = {}): the code model (AuthProvider over one session
   slot per user) against the reference model written from the property (live grants, creation passwords);
   state invariants + the action property ResultsOK.  Every named deviation (the defect of the shipped code,
   RefreshIgnoresExpiry, and six hypothetical bugs) must be refuted by TLC - the properties are not vacuous.
2. spec -> code (method B): TLC prints the complete state graph (ACTION_CONSTRAINT EdgeOut); the harness
   executes EVERY edge on a real humphrey_auth::AuthProvider over the crate's Vec<User> database put into the
   real state reached for the source state, compares the returned value and the projected database with the
   edge, without and with a pepper; then random walks along the graph without restoring.
3. code -> spec (method C): random operation sequences (length <= 60, 1..5 users, with/without pepper) on the
   real provider, logged, validated by TLC with Trace_Auth.tla (all invariants evaluated along the trace).
3b. TLC evaluates TokenShape.tla on >= 1024 tokens issued by the real provider (structure, not randomness quality).
4. self-test of the binding: one corrupted edge, one corrupted log record and two corrupted token sets must be rejected."""
import concurrent.futures
import json
import os
import re
import vlib
from vlib import Ctx, run_tlc, build_harness, run_bin, parse_jsonl, SPEC

D = os.path.join(SPEC, "auth")
LIVES = ["1", "2", "3"]          # LifeDefault, LifeRefresh, LifeLong of every cfg that is bound to the code
DEVS = ["RefreshIgnoresExpiry", "ExpiryOverflow", "ValidInclusive", "SecondSession", "TokenReuse", "UidNoExpiry",
        "VerifyAnyUser", "RemoveKeepsTok", "RefreshAdds"]
ACTIONS = ["CreateUser", "RemoveUser", "Verify", "Exists", "CreateSession", "Refresh", "Invalidate", "InvalidateUser",
           "UidByToken", "AuthRoute", "Tick"]
# every (call, result) class of the property must occur among the replayed edges (vacuity guard on the graph)
CLASSES = ["auth_route:200", "auth_route:401", "create_session:SessionAlreadyExists", "create_session:UserNotFound",
           "create_session:ok", "create_user:ok", "get_uid_by_token:InvalidToken", "get_uid_by_token:ok",
           "invalidate_session:ok", "invalidate_user_session:ok", "refresh_session:InvalidToken", "refresh_session:ok",
           "remove_user:UserNotFound", "remove_user:ok", "tick:ok", "verify:false", "verify:true", "exists:true", "exists:false",
           # lifecycles (lessons L1/L7): calls in the very second a session expires (now == expiry), a new session over one
           # that expired by itself, a refresh that SHORTENS the remaining lifetime, lifetimes 2^31 .. u64::MAX, a user
           # created after another one was removed
           "get_uid_by_token:at-expiry", "refresh_session:at-expiry", "auth_route:at-expiry", "create_session:ok:at-expiry",
           "create_session:ok:over-expired", "refresh_session:ok:shortens", "create_session:ok:huge", "create_user:ok:after-remove"]


def edge_lines(r):
    return [l for l in r.out.splitlines() if l.startswith('"E')]


def graph_replay(ctx, auth, lines, pepper, budget, walks, walklen, label, max_states=None, env=None):
    args = ["graph", "1" if pepper else "0"] + LIVES + [str(budget), str(walks), str(walklen)]
    if max_states:
        args.append(str(max_states))
    p = run_bin(auth, args, stdin_data="\n".join(lines) + "\n", timeout=3000, env=env)
    res = [x for x in parse_jsonl(p.stdout) if x.get("summary")]
    if p.returncode != 0 or not res:
        raise vlib.ToolError("auth graph (%s) failed rc=%s: %s" % (label, p.returncode, p.stderr[-2000:]))
    return res[0]


def report_drift(ctx, s, label):
    """differences that do not touch the statement of C17: which AuthError / status a refusal carries, `exists`, the
    answer of remove_user for an absent uid, and stored fields the code model predicts differently (probed harmless)"""
    for m in s.get("first_drift_results", [])[:4]:
        ctx.drift("C17 code model (result details beyond the statement)", "%s: %s %s: %s (%d such results)"
                  % (label, json.dumps(m.get("call")), m.get("concrete", ""), m["what"], s["drift_results"]), {"kind": "auth-drift", "case": m})
    for m in s.get("first_drift_state", [])[:4]:
        ctx.drift("C17 code model (stored state beyond the statement)", "%s: state %s call %s %s: %s; every later get_uid_by_token / refusal "
                  "up to the model's horizon still answers as the statement demands (%d such edges)"
                  % (label, json.dumps(m.get("state")), json.dumps(m.get("call")), m.get("concrete", ""), m["what"], s["drift_state"]),
                  {"kind": "auth-drift", "case": m})


def lenient_pass(gctx, auth, lines):
    """Growth: arguments that differ from a real uid / token / cookie name only by case, white-space padding or Unicode
    look-alikes, expected to be treated as unknown.  A tree that normalises its input before the lookup does not
    contradict the statement of C17, so whatever this pass finds is drift."""
    s = graph_replay(gctx, auth, lines, False, 1, 0, 0, "lenient concretisations", max_states=600, env={"VERIF_AUTH_LENIENT": "1"})
    mine = [m for m in s["first"] if m.get("call") and (m["call"]["cookie"] == "wrongname" or (m["call"]["tok"] == 0 and m["call"]["u"] == 0))]
    for m in mine[:4]:
        gctx.violation("argument differing from an issued one by case / padding / look-alike only: state %s call %s %s: %s"
                       % (json.dumps(m.get("state")), json.dumps(m.get("call")), m.get("concrete", ""), m["difference"]),
                       {"kind": "auth-ops", "ops": m.get("ops"), "mismatch": m})
    return {"edges_executed": s["edges_run"], "calls": s["calls"], "treated_as_the_real_argument": len(mine)}


def validate_trace(ctx, path, name, timeout=1500):
    return run_tlc("Trace_Auth.tla", "Trace_Auth.cfg", D, workers=1, env={"TRACE": path}, timeout=timeout,
                   work_id="c17-trace", deque=True, extra=["-difftrace"], heap="6g")


def is_rie_trace(rej):
    """exactly what Dev={RefreshIgnoresExpiry} predicts: refresh of a stored but expired token answered ok"""
    lg, sp = rej["logged"], rej["spec_result"]
    return (lg["op"] == "refresh_session" and lg["res"] == "ok" and sp["res"] == "InvalidToken"
            and any(x[1] == lg["tok"] and x[2] <= rej["spec_clock"] for x in rej["spec_state"]))


def is_eo_trace(rej):
    """what Dev={ExpiryOverflow} stands for: create_session with lifetime u64::MAX (concretisation 5 of "huge") panicked
    (overflow checks) or produced a session that is already expired, where the spec demands Ok with expiry Inf"""
    lg, sp = rej["logged"], rej["spec_result"]
    return lg["op"] == "create_session" and lg["life"] == "huge" and lg["v"] % 6 == 5 and sp["res"] == "ok"


def trace_verdict(ctx, t, records, what):
    """records: the list of logged records (dicts) in file order. Reports violations; returns #rejected runs."""
    # differences in what the statement leaves open (error kind, status, exists, stored state): drift, never a violation
    for pr in t.prints:
        for d in (pr.get("drift") or [])[:4] if isinstance(pr, dict) else []:
            lg = d["logged"]
            ctx.drift("C17 code model (results/state beyond the statement)",
                      "%s: call %s returned %s %s %s, database %s; the code model says %s, database %s"
                      % (what, {k: lg[k] for k in ("op", "u", "pw", "life", "tok", "ck")}, lg["res"], lg.get("detail", ""), lg.get("note", ""),
                         lg["st"], d["spec_result"], d["spec_state"]), {"kind": "auth-drift", "record": d})
    if not t.violation:
        return 0
    rejp = [pr for pr in t.prints if isinstance(pr, dict) and "rejected" in pr]
    if t.violation == "invariant" and t.violated_name == "AllAgree" and rejp:
        rej = rejp[-1]["rejected"]
        shown = {}
        for r in rej:
            i = r["index"] - 1
            j = i
            while j > 0 and records[j]["op"] != "reset":
                j -= 1
            ops = records[j:i + 1]
            dev = "RefreshIgnoresExpiry" if is_rie_trace(r) else ("ExpiryOverflow" if is_eo_trace(r) else None)
            # one VIOLATION line per kind of disagreement (call, real result, demanded result); all are in the replay file
            key = (r["logged"]["op"], r["logged"]["res"].split("!")[0], r["spec_result"]["res"], dev)
            shown[key] = shown.get(key, 0) + 1
            if shown[key] > 1:
                continue
            n_same = sum(1 for x in rej if (x["logged"]["op"], x["logged"]["res"].split("!")[0], x["spec_result"]["res"]) == key[:3])
            ctx.violation("%s (%d of %d rejected histories alike): real call %s returned res=%s ruid=%s rtok=%s state=%s at clock %s; Auth.tla demands res=%s ruid=%s rtok=%s state=%s"
                          % (what, n_same, len(rej), {k: r["logged"][k] for k in ("op", "u", "pw", "life", "tok", "ck")}, r["logged"]["res"],
                             r["logged"]["ruid"], r["logged"]["rtok"], r["logged"]["st"], r["logged"]["c"],
                             r["spec_result"]["res"], r["spec_result"]["ruid"], r["spec_result"]["rtok"], r["spec_state"]),
                          {"kind": "auth-ops", "ops": ops, "rejected": r}, dev=dev)
        return len(rej)
    ctx.violation("%s: TLC reports %s %s while replaying the log (a record no action explains, or a property of Auth.tla "
                  "failing on the recorded behaviour)" % (what, t.violation, t.violated_name or ""),
                  {"kind": "auth-trace-tlc", "violation": t.violation, "name": t.violated_name, "trace_tail": t.trace[-120:]})
    return 1

def token_shape(auth, n, pepper, work, tag):
    """Issues n tokens on the real provider, lets TLC (TokenShape.tla) judge their structure.
    Returns (tlc result, token strings, parsed lines)."""
    p = run_bin(auth, ["tokens", str(n), "1" if pepper else "0"])
    recs = parse_jsonl(p.stdout)
    if p.returncode != 0 or len(recs) != n:
        raise vlib.ToolError("auth tokens failed rc=%s (%d of %d lines): %s" % (p.returncode, len(recs), n, p.stderr[-800:]))
    return shape_verdict(recs, work, tag), recs


def shape_verdict(recs, work, tag):
    path = os.path.join(work, "tokens-%s-%d.ndjson" % (tag, os.getpid()))
    vlib.write_lines(path, [{"d": r["d"], "c": r.get("c", r["d"])} for r in recs])
    try:
        return run_tlc("TokenShape.tla", "TokenShape.cfg", D, workers=1, env={"TOKENS": path}, timeout=600,
                       work_id="c17-shape-" + tag)
    finally:
        os.remove(path)


def shape_failure_text(t):
    fp = [x for x in t.prints if isinstance(x, dict) and "failed" in x]
    if fp:
        f = fp[-1]
        return "token structure: %s fails over %d tokens (%s)" % (
            ", ".join(f.get("failed", [])), f.get("tokens", 0),
            "; ".join("%s=%s" % (k, json.dumps(v)[:160]) for k, v in f.items() if k not in ("failed", "tokens")))
    return "token structure: TLC reports %s %s" % (t.violation, t.violated_name or "")


def do_replay(auth, path):
    """bin/check C17 --replay <file>: re-executes the stored operations on the real code and lets TLC judge."""
    obj = json.load(open(path))
    case = obj.get("case", obj)
    if case.get("kind") == "auth-token-structure":
        # issue the same number of tokens again on the current code and let TLC judge their structure
        t, recs = token_shape(auth, max(256, len(case.get("tokens", []))), bool(case.get("pepper")), vlib.workdir("C17"), "replay")
        vlib.log("  e.g. " + ", ".join(r["t"] for r in recs[:3]))
        if t.violation:
            print("VIOLATION property=C17 replay=%s" % path, flush=True)
            vlib.log("  -> " + shape_failure_text(t))
            return 1
        vlib.log("replay: %d freshly issued tokens pass TokenShape.tla" % len(recs))
        return 0
    ops = case.get("ops")
    if not ops:
        vlib.log("replay file has no operation list (kind=%s); run the full check instead" % case.get("kind"))
        return 2
    p = run_bin(auth, ["rerun"] + LIVES, stdin_data="\n".join(json.dumps(o) for o in ops) + "\n")
    if p.returncode != 0:
        raise vlib.ToolError("auth rerun failed: " + p.stderr[-1000:])
    w = vlib.workdir("C17")
    tr = os.path.join(w, "replay-%d.ndjson" % os.getpid())
    with open(tr, "w") as f:
        f.write(p.stdout)
    try:
        t = validate_trace(None, tr, "replay")
    finally:
        os.remove(tr)
    recs = parse_jsonl(p.stdout)
    for r in recs:
        vlib.log("  %s" % json.dumps({k: r[k] for k in ("op", "u", "pw", "life", "tok", "ck", "res", "ruid", "rtok", "c", "st")}))
    if t.violation:
        print("VIOLATION property=C17 replay=%s" % path, flush=True)
        if t.prints:
            vlib.log("  -> " + json.dumps(t.prints[-1])[:1500])
        return 1
    vlib.log("replay: the recorded operations are now accepted by Auth.tla")
    return 0


def run(tier, replay):
    ctx = Ctx("C17", tier, "model_checking")
    bindir = build_harness(["auth"])
    auth = os.path.join(bindir, "auth")
    if replay:
        return do_replay(auth, replay)
    thorough = tier == "thorough"
    work = vlib.workdir("C17")

    # ---------------------------------------------------------------- 1. model checking
    r = run_tlc("MC_Auth.tla", "MC_Auth_quick.cfg", D, workers=8, coverage=True, timeout=900, work_id="c17-mc")
    ctx.add_tlc("Auth, Dev={}: 2 uids, 2 live, 2 passwords, 3 tokens, clock 0..3 (with coverage; the bound of the replayed quick graph)", r)
    ctx.require_tlc_ok("MC_Auth_quick", r)
    # vacuity guard.  vlib's require_cover looks at the number of NEW states an action found; with the VIEW that
    # hides `last` the read-only calls (Verify, UidByToken, AuthRoute) never find one, so for them the number of
    # transitions taken is required instead (r.coverage[a] = (taken, new)).
    ctx.require_cover("MC_Auth_quick", r, ["CreateUser", "RemoveUser", "CreateSession", "Refresh", "Tick"])
    idle = [a for a in ACTIONS if r.coverage.get(a, (0, 0))[0] == 0]
    if idle:
        raise vlib.ToolError("vacuity guard: TLC never took action(s) %s" % idle)
    if thorough:
        r = run_tlc("MC_Auth.tla", "MC_Auth_thorough.cfg", D, workers=8, timeout=2400, work_id="c17-mc", heap="8g")
        ctx.add_tlc("Auth, Dev={}: 3 uids, 3 live, 2 passwords, 3 tokens, clock 0..4", r)
        ctx.require_tlc_ok("MC_Auth_thorough", r)

    # beyond the exhaustive bound: random behaviours of the spec with up to 5 simultaneous users, 3 passwords,
    # 20 tokens, clock 0..12 and other lifetimes (2/3/5); invariants and ResultsOK are checked on every step
    nsim = 2000 if thorough else 300
    r = run_tlc("MC_Auth.tla", "MC_Auth_sim.cfg", D, workers=4 if thorough else 2, simulate=nsim, depth=60,
                seed_val=ctx.seed, timeout=900, work_id="c17-sim")
    m = re.search(r"The number of states generated: (\d+)", r.out)
    r.generated = int(m.group(1)) if m else 0
    ctx.add_tlc("Auth, Dev={}: -simulate %d behaviours per worker, depth 60, 10 uids / 5 live / 20 tokens" % nsim, r,
                note="simulation: states are counted as transitions only")
    ctx.require_tlc_ok("MC_Auth_sim", r)

    def dev_run(d):
        return d, run_tlc("MC_Auth.tla", "MC_Auth_dev_%s.cfg" % d, D, workers=2, timeout=600, work_id="c17-dev-" + d)
    with concurrent.futures.ThreadPoolExecutor(max_workers=4) as ex:
        results = list(ex.map(dev_run, DEVS + ["RefreshIgnoresExpiry_props"]))
    sens = {}
    for d, r in results:
        ctx.add_tlc("sensitivity: Dev={%s} must be refuted" % d, r)
        if r.violation not in ("invariant", "action_property"):
            raise vlib.ToolError("model lost sensitivity: Dev={%s} violates nothing" % d)
        sens[d] = "%s %s" % (r.violation, r.violated_name or "ResultsOK")
    if not sens["RefreshIgnoresExpiry_props"].startswith("action_property"):
        raise vlib.ToolError("ResultsOK alone no longer refutes RefreshIgnoresExpiry")
    ctx.add_part("sensitivity", refuted_by=sens)

    # ---------------------------------------------------------------- 2. graph replay on the real provider
    graphs = [("Gen_Auth_thorough.cfg", [False, True]), ("Gen_Auth_live3.cfg", [True])] if thorough \
        else [("Gen_Auth_quick.cfg", [False, True])]
    budget = 6000 if thorough else 500
    first_lines = None
    nontrivial = 0
    # L10: a vacuity finding must never mask a real mismatch (a broken tree may make whole classes unreachable):
    # they are collected and raised at the end only when the run found no violation
    tool_errors = []
    for cfg, peppers in graphs:
        g = run_tlc("MC_Auth.tla", cfg, D, workers=1, timeout=1500, work_id="c17-gen", heap="6g")
        if g.violation:
            raise vlib.ToolError("edge generation failed: %s" % g.out[-2000:])
        lines = edge_lines(g)
        if len(lines) != g.generated - 1:
            raise vlib.ToolError("edge dump incomplete: %d lines for %d transitions" % (len(lines), g.generated - 1))
        ctx.add_tlc("state graph dump %s (%d edges)" % (cfg, len(lines)), g)
        g.out = ""
        if first_lines is None:
            first_lines = lines
        for pepper in peppers:
            label = "%s pepper=%s" % (cfg, pepper)
            s = graph_replay(ctx, auth, lines, pepper, budget, 300 if thorough else 40, 60, label)
            if s["edges_total"] != len(lines):
                raise vlib.ToolError("harness loaded %d of %d edges" % (s["edges_total"], len(lines)))
            missing = [c for c in CLASSES if s["classes"].get(c, 0) == 0]
            if missing:
                tool_errors.append("vacuity guard: no replayed edge of class %s (%s)" % (missing, label))
            # every proper prefix / suffix length of the tokens THIS tree issues (whatever their encoding), plus the empty
            # string and one character more: at least as many distinct lengths as a token has characters
            if s["unknown_token_lengths"] < s["token_len_min"]:
                tool_errors.append("vacuity guard: only %d distinct lengths of unknown-token strings were tried for tokens of %d characters (%s)"
                                   % (s["unknown_token_lengths"], s["token_len_min"], label))
            ctx.cov["evaluations"] += s["calls"]
            ctx.cov["traces_validated_against_impl"] += s["edges_run"] + s["walks"]
            if not pepper or len(peppers) == 1:
                nontrivial += s["edges_nontrivial"]
            for x in s["samples"][:2]:
                ctx.sample({"graph_edge": x})
            ctx.add_part("graph " + label, states=s["states_total"], states_reached=s["states_reached"], edges=s["edges_total"],
                         edges_executed=s["edges_run"], argon2_edges_executed=s["argon_edges_run"],
                         argon2_edges_not_sampled=s["argon_edges_skipped"], calls=s["calls"], walks=s["walks"],
                         walk_steps=s["walk_steps"], tokens_issued=s["tokens_issued"], mismatches=s["mismatches"],
                         unknown_token_string_lengths_tried=s["unknown_token_lengths"], token_length=s["token_len_min"], per_class=s["classes"])
            eo = [m for m in s["first_refresh_ignores_expiry"] if m["class"] == "ExpiryOverflow"]
            if s["mismatches_expiry_overflow"] and eo:
                m = eo[0]
                ctx.violation("%d edges (%s): create_session_with_lifetime(uid, u64::MAX) does not yield a never-expiring session (now + lifetime overflows); e.g. state %s %s: %s"
                              % (s["mismatches_expiry_overflow"], label, json.dumps(m.get("state")), m.get("concrete", ""), m["difference"]),
                              {"kind": "auth-ops", "ops": m["ops"], "mismatch": m}, dev="ExpiryOverflow")
            rie = [m for m in s["first_refresh_ignores_expiry"] if m["class"] == "RefreshIgnoresExpiry"]
            if s["mismatches_refresh_ignores_expiry"] and rie:
                m = rie[0]
                ctx.violation("%d edges (%s): refresh_session of a stored but expired token returned Ok and revived it; e.g. state %s call %s: %s"
                              % (s["mismatches_refresh_ignores_expiry"], label, json.dumps(m.get("state")), json.dumps(m.get("call")), m["difference"]),
                              {"kind": "auth-ops", "ops": m["ops"], "mismatch": m}, dev="RefreshIgnoresExpiry")
            for m in s["first"][:6]:
                ctx.violation("graph edge (%s): state %s call %s %s: %s" % (label, json.dumps(m.get("state")), json.dumps(m.get("call")),
                                                                           m.get("concrete", ""), m["difference"]),
                              {"kind": "auth-ops", "ops": m["ops"], "mismatch": m})
            if s["mismatches"] == 0 and s["states_reached"] != s["states_total"]:
                tool_errors.append("graph replay reached %d of %d states without any mismatch" % (s["states_reached"], s["states_total"]))
            report_drift(ctx, s, label)
            if s["token_dups"]:
                ctx.violation("%s: %d repeated tokens among %d issued" % (label, s["token_dups"], s["tokens_issued"]),
                              {"kind": "auth-token-repeat", "summary": {k: s[k] for k in ("token_dups", "tokens_issued")}})
            if s["token_bad_format"]:
                # the statement says 256-bit random values, not how they are written
                ctx.drift("C17 token encoding", "%s: %d token issuances (%d distinct tokens) not of the form [0-9a-f]{64}" % (label, s["token_bad_format"], s["tokens_issued"]),
                          {"kind": "auth-token-format", "summary": {k: s[k] for k in ("token_bad_format", "tokens_issued")}})
    ctx.cov["distinct_nontrivial"] = nontrivial
    r = vlib.run_growth(ctx, "C17 input normalisation (case / padding / look-alikes)", lenient_pass, auth, first_lines)
    ctx.add_part("growth: lenient concretisations", **(r or {"result": "did not complete"}))
    # 2c. what "removed" means for any identifier (the uid and its look-alikes): after remove_user(x) = Ok, x does not exist and
    #     does not verify, and if x had been accepted as the user, the user's token is dead; after Err nothing changed.  This is
    #     within the statement (a removed user's password and token are dead) whatever the tree's policy on look-alikes is.
    p = run_bin(auth, ["removed"], timeout=600)
    rs = [x for x in parse_jsonl(p.stdout) if x.get("summary")]
    if p.returncode != 0 or not rs:
        raise vlib.ToolError("auth removed failed rc=%s: %s" % (p.returncode, p.stderr[-1000:]))
    ctx.cov["evaluations"] += rs[0]["cases"]
    ctx.add_part("removal of look-alike identifiers", cases=rs[0]["cases"], inconsistent=len(rs[0]["bad"]))
    if rs[0]["bad"]:
        b = rs[0]["bad"][0]
        ctx.violation("remove_user(x) with x = %s: %s (%d such case(s))" % (b.get("x_is", "?"), "; ".join(b.get("what", [b.get("what")]) if isinstance(b.get("what"), list) else [str(b.get("what"))]), len(rs[0]["bad"])),
                      {"kind": "auth-removed", "bad": rs[0]["bad"]})

    # ---------------------------------------------------------------- 3. random histories validated by TLC
    n = 2000 if thorough else 150
    p = run_bin(auth, ["trace", str(n), "60"] + LIVES + ["8"], timeout=1800)
    summ = [x for x in parse_jsonl(p.stderr) if x.get("summary")]
    if p.returncode != 0 or not summ:
        raise vlib.ToolError("auth trace failed rc=%s: %s" % (p.returncode, p.stderr[-1500:]))
    summ = summ[0]
    tr = os.path.join(work, "trace-%d.ndjson" % os.getpid())
    with open(tr, "w") as f:
        f.write(p.stdout)
    records = parse_jsonl(p.stdout)
    try:
        t = validate_trace(ctx, tr, "random histories")
    finally:
        os.remove(tr)
    ctx.add_tlc("trace validation: %d histories, %d records" % (n, len(records)), t)
    if not t.violation and t.distinct != len(records) + 1:
        tool_errors.append("trace validation consumed %d of %d records" % (t.distinct - 1, len(records)))
    rejected = trace_verdict(ctx, t, records, "random history")
    ctx.cov["evaluations"] += len(records)
    ctx.cov["traces_validated_against_impl"] += n
    ctx.add_part("random histories", histories=n, records=len(records), rejected_histories=rejected,
                 tokens_issued=summ["tokens_issued"], token_dups=summ["token_dups"], token_bad_format=summ["token_bad_format"],
                 ops={o: sum(1 for x in records if x["op"] == o) for o in sorted(set(x["op"] for x in records))})
    if summ["token_dups"]:
        ctx.violation("random histories: %d repeated tokens among %d issued" % (summ["token_dups"], summ["tokens_issued"]),
                      {"kind": "auth-token-repeat", "summary": summ})
    if summ["token_bad_format"]:
        ctx.drift("C17 token encoding", "random histories: %d of %d tokens are not of the form [0-9a-f]{64}"
                  % (summ["token_bad_format"], summ["tokens_issued"]), {"kind": "auth-token-format", "summary": summ})
    k = next((i for i, x in enumerate(records) if x["op"] == "reset" and i > 0), len(records))
    ctx.sample({"history_excerpt": [{f: x[f] for f in ("op", "u", "pw", "life", "tok", "ck", "res", "ruid", "rtok", "c", "st")}
                                    for x in records[1:min(k, 13)]], "token_example": summ["sample_token"]})

    # ---------------------------------------------------------------- 3b. structure of the issued tokens (TokenShape.tla)
    # Not randomness quality: only defects no 256-bit uniform source can show (constant / narrow / duplicated digit
    # positions, few byte values, repeats).  Each test fails with probability < 1e-30 on a correct tree (bounds in
    # TokenShape.tla), so a failure is reported as a violation.
    ntok = 4096 if thorough else 1024
    shape_recs = None
    for pepper in (False, True):
        try:
            t, recs = token_shape(auth, ntok, pepper, work, "p%d" % pepper)
        except vlib.ToolError as e:
            if ctx.violations:     # L10: a tree that is already known to be broken may not even issue tokens
                ctx.add_part("token structure pepper=%s" % pepper, skipped=str(e)[:300])
                continue
            raise
        ctx.add_tlc("TokenShape: %d tokens issued by the real provider (pepper=%s)" % (ntok, pepper), t)
        ctx.cov["evaluations"] += ntok
        ctx.cov["traces_validated_against_impl"] += 1
        ctx.add_part("token structure pepper=%s" % pepper, tokens=ntok, result="ok" if not t.violation else shape_failure_text(t),
                     example=recs[0]["t"])
        for note in [x for x in t.prints if isinstance(x, dict) and "note" in x][:1]:
            ctx.drift("C17 token encoding", "%s (lengths %s, lower bound of the capacity %s bits); e.g. %s"
                      % (note["note"], note.get("lengths"), note.get("capacity_bits_lower_bound"), recs[0]["t"]),
                      {"kind": "auth-token-format", "note": note, "tokens": [r["t"] for r in recs[:20]]})
        if t.violation:
            ctx.violation(shape_failure_text(t) + "; e.g. " + ", ".join(r["t"] for r in recs[:3]),
                          {"kind": "auth-token-structure", "pepper": pepper, "finding": ([x for x in t.prints if isinstance(x, dict) and "failed" in x] or [None])[-1],
                           "tokens": [r["t"] for r in recs]})
        shape_recs = shape_recs or recs

    # ---------------------------------------------------------------- 4. self-test of the binding
    # only after a clean validation (L10): on a tree with real mismatches the self-tests' expectations about WHICH record
    # is rejected do not hold, and a failing self-test (exit 2) must never hide the violation (exit 1)
    if ctx.violations or ctx.known_hits:
        ctx.add_part("binding self-test", skipped="the run found violations")
    else:
        if tool_errors:
            raise vlib.ToolError("; ".join(tool_errors))
        # (a) one expected result flipped in the edge list -> the harness must report exactly that edge
        sub = list(first_lines[:4000])
        ci = next(i for i, l in enumerate(sub) if '\\"get_uid_by_token\\"' in l and '\\"ok\\",1,0]' in l)
        sub[ci] = sub[ci].replace('\\"ok\\",1,0]', '\\"ok\\",2,0]')
        s = graph_replay(ctx, auth, sub, False, 1, 0, 0, "self-test", max_states=len(sub))
        if s["mismatches"] - s["mismatches_refresh_ignores_expiry"] < 1:
            raise vlib.ToolError("binding self-test: a corrupted edge (uid of get_uid_by_token changed) was not reported by the harness")
        # (b) one logged result flipped in a recorded history -> TLC must reject that record
        short = [dict(x) for x in records[:k]] if k > 3 else [dict(x) for x in records[:200]]
        j = next((i for i, x in enumerate(short) if x["op"] in ("get_uid_by_token", "auth_route", "verify", "create_session")), None)
        if j is not None:
            flip = {"ok": "err", "err": "ok", "200": "rej", "rej": "200", "true": "false", "false": "true"}
            short[j]["res"] = flip.get(short[j]["res"], "ok")
            trc = os.path.join(work, "trace-corrupt-%d.ndjson" % os.getpid())
            vlib.write_lines(trc, short)
            try:
                tc = validate_trace(ctx, trc, "self-test")
            finally:
                os.remove(trc)
            rj = [x for x in tc.prints if isinstance(x, dict) and "rejected" in x]
            ok = tc.violation == "invariant" and rj and any(x["index"] == j + 1 for x in rj[-1]["rejected"])
            if not ok:
                raise vlib.ToolError("binding self-test: a corrupted log record (%d) was not rejected by Trace_Auth" % (j + 1))
        # (c) the real tokens with the high digit of every byte overwritten by the low digit (an encoder writing one nibble
        #     twice), and with one digit position forced to 7 -> TokenShape must reject both
        #     ... and cut to their first 32 characters (another encoding that cannot carry 256 bits) -> Capacity
        for name, fn, expect in (("nibble twice", lambda d: [d[(i | 1)] for i in range(len(d))], "NoTwinPos"),
                                 ("constant position", lambda d: d[:10] + [7] + d[11:], "NoConstantPos"),
                                 ("half length", lambda d: d[:len(d) // 2], "Capacity")):
            if expect != "Capacity" and not all(len(r["d"]) == 64 and min(r["d"]) >= 0 for r in shape_recs):
                continue    # the digit tests (and their self-tests) apply to 64-hex-digit tokens only
            bad = [{"d": fn(list(r["d"])), "c": fn(list(r["c"]))} for r in shape_recs]
            tb = shape_verdict(bad, work, "selftest")
            fl = [x for x in tb.prints if isinstance(x, dict) and "failed" in x]
            if not (tb.violation == "invariant" and fl and expect in fl[-1].get("failed", [])):
                raise vlib.ToolError("binding self-test: tokens corrupted by '%s' were not rejected by TokenShape (%s)" % (name, expect))
        ctx.add_part("binding self-test", corrupted_edge_rejected=True, corrupted_log_record_rejected=j is not None,
                     corrupted_token_sets_rejected=3)

    ctx.cov["rule"] = ("every edge (state, call, result, successor) of the complete TLC state graph of Auth.tla for the bound is executed on a "
                       "real AuthProvider restored to the real state reached for that spec state (breadth-first, snapshots of the Vec<User> "
                       "database), each call with argument 0 under every concretisation of 'unknown' (empty, prefix, suffix, upper-case, "
                       "padded ...); Argon2-bound edges that do not discover a state are executed as a strided sample (counts in parts); "
                       "non-trivial = distinct edges that change the observable state or give a positive answer (verify/exists true, 200, "
                       "Ok(uid), refresh Ok), counted once per graph (not per pepper, not per concretisation)")
    ctx.cov["exhaustive"] = False
    ctx.assumptions += [
        "abstraction: uid/token strings <-> integers by first appearance; a Tick subtracts 10^6 s from every stored expiry (Session::valid is now < expiry); "
        "restoring a snapshot keeps whole units and drops the sub-unit drift, so a session with 0 units left has expiry == now exactly",
        "every created / refreshed session's stored expiry is compared exactly: now + lifetime for a `now` between the two clock reads around the call, saturating at u64::MAX",
        "lifetime 'huge' = {2^31, 2^32, 2^53, 2^63, u64::MAX - 2^40, u64::MAX} s, modelled as never expiring (Inf) within the horizon of the model (clock <= 60 units of 10^6 s); "
        "a lifetime of exactly 1 s is not generated: whether it is still valid at the next call depends on the wall clock",
        "the reference model (grant, refpw) in Auth.tla is the reading of the property text; LifeDefault/LifeRefresh/LifeLong = 1/2/3 units",
        "randomness quality of tokens is NOT decided: only the format [0-9a-f]{64}, pairwise distinctness of all tokens issued in the run, "
        "and gross structure over >=1024 tokens per pepper mode (TokenShape.tla: no constant digit position, >=8 distinct digits per position, "
        "no two identical positions, >=64 distinct byte values); under a uniform 256-bit source each of these tests fails with probability < 1e-30",
        "the with_auth_route closure is taken from a real App (default sub-app handed over by a custom connection handler on loopback) and called in-process with requests parsed by Request::from_stream",
        "Argon2 itself is trusted; passwords are drawn from 5 families of 4 similar strings (empty, unicode, prefix pairs, 150 chars)",
    ]
    return ctx.finish()
