"""C07 - responses serialise to valid HTTP and parse back; the client returns what was sent.

1. Model checking (spec/http/HttpResp.tla, Dev = {}): the serialiser and the parser of response.rs, transcribed
   action by action (Ser_*, Par_*, bytes delivered by Net_Deliver), are run by TLC on every response / server
   wire image of three bounded grammars (A: every status code; B: header lists 0..3; C: every body over the
   symbol alphabet x EVERY composition into chunks x every spelling) and must agree with the denotational
   RenderResp / DenoteResp / IsSerialisationOf (invariants SerValid, RoundTrip, ParCorrect, lemma LemmaInv);
   a segmented run adds arbitrary read segmentation and termination.  spec/http/Client.tla: every redirect
   chain the scripted server can play (0..MaxHops over {301,302,307} x {relative, absolute}) ends at the final
   response (EndsAtFinal, OneRequestPerHop, Terminates).  Each named deviation / plausible bug must be refuted.
2. spec -> code: TLC prints the same spaces as vectors; harness bin `httpresp` replays them on the real code:
   Vec<u8>::from(Response) class-wise against RenderResp, the real bytes parsed back by the real parser,
   Response::from_stream over a scripted reader under split plans and 3..5 byte mappings of the body symbols,
   SetCookie for all 2^7 attribute subsets and boundary values per attribute (Max-Age around 2^24, 2^31, 2^32, 2^53, u64::MAX
   with sub-second parts, '=' in values, spaces / non-ASCII in Domain and Path, 4 KiB names and values), the StatusCode tables, and Client::get(..).with_redirects(..).send()
   against a scripted server on 127.0.0.1:80 / 127.0.0.2:80 playing every chain TLC generated.
   A family with 30..100 header fields of which 2..10 are Set-Cookie (with_cookie) and 2..10 share a custom name
   checks the order of same-named fields after serialising and after parsing back (a sort that is not stable
   only shows above 32 fields).
3. code -> spec: random large responses (0..48 headers, repeated names, 64 KiB bodies, random chunkings and
   segmentations) and random redirect scripts run on the real code; the logs are validated by TLC
   (Trace_HttpResp, Trace_Client).
Deviation CrlfAfterBody (open in KNOWN_FINDINGS.txt) is attributed only when the bytes after the body are
exactly what Dev = {CrlfAfterBody} predicts and every other class is right."""
import concurrent.futures as cf
import json
import os

import vlib
from vlib import Ctx, run_tlc, build_harness, run_bin, parse_jsonl, SPEC

D = os.path.join(SPEC, "http")
RESP_ACTIONS = ["Ser_StatusLine", "Ser_Header", "Ser_Blank", "Ser_Body", "Par_StatusLine", "Par_HeaderLine", "Par_Frame",
                "Par_ClBody", "Par_ChunkSize", "Par_ChunkData"]
CLIENT_ACTIONS = ["Cl_Send", "Srv_Respond", "Cl_Read", "Cl_Redirect", "Cl_Return"]
RESP_BUGS = [("dev_CrlfAfterBody", "SerValid"), ("bug_SplitAllSpaces", None), ("bug_DecimalChunkSize", None),
             ("bug_NoCrlfAfterChunk", None), ("bug_SingleRead", None), ("bug_PhraseTypo", "SerValid"), ("bug_WrongCode", "SerValid"),
             ("bug_NoBlankLine", "SerValid"), ("bug_TeKeptAfterDecode", "ParCorrect"), ("bug_UnstableSameNameOrder", "SerValid"), ("bug_MaxAgeThroughF32", "CookieInv")]
CLIENT_BUGS = ["bug_Follow303", "bug_StopAfterFirst", "bug_RelToFirstHost", "bug_AbsKeepsHost", "bug_Skip307", "bug_RefuseRevisit",
               "reach_MaxChain", "reach_HostSwitch"]


_seq = [0]
SHORT = [True]     # default for tlc(short=..): True in the quick tier


def tlc(mod, cfg, workers=1, **kw):
    # parallel runs need distinct metadirs (run_tlc names them work_id-pid-milliseconds)
    _seq[0] += 1
    kw.setdefault("work_id", "c07-%d-%s" % (_seq[0], cfg[:-4]))
    kw.setdefault("timeout", 1700)
    kw.setdefault("heap", "2g")
    short = kw.pop("short", SHORT[0])
    if kw.get("coverage"):
        # -coverage keeps per-expression statistics and needs far more heap than the run itself (25 k states: > 512 MB);
        # under a loaded machine the "GC overhead limit" heuristic fired at 2 GB, so it is switched off
        kw["heap"] = "4g"
        opts = "-XX:-UseGCOverheadLimit"
    elif short:
        # runs of a few seconds: C1-only JIT halves the JVM's start-up CPU (measured 6.4 -> 2.6 s)
        opts = "-XX:TieredStopAtLevel=1 -XX:-UseGCOverheadLimit"
    else:
        opts = "-XX:-UseGCOverheadLimit"
    kw["env"] = dict(kw.get("env") or {}, _JAVA_OPTIONS=opts)
    return run_tlc(mod, cfg, D, workers=workers, **kw)


def par(jobs, width):
    """jobs: list of (name, callable); run with at most `width` at a time, return {name: result}."""
    out = {}
    with cf.ThreadPoolExecutor(max_workers=width) as ex:
        futs = {ex.submit(fn): name for name, fn in jobs}
        for f in cf.as_completed(futs):
            out[futs[f]] = f.result()
    return out


def summary_of(p, what):
    res = [x for x in parse_jsonl(p.stdout) if x.get("summary")]
    if p.returncode != 0 or not res:
        raise vlib.ToolError("httpresp %s failed rc=%s: %s" % (what, p.returncode, p.stderr[-2000:]))
    return res[0]


def _run(tier, replay):
    ctx = Ctx("C07", tier, "model_checking")
    bindir = build_harness(["httpresp"])
    hbin = os.path.join(bindir, "httpresp")
    thorough = tier == "thorough"
    T = "thorough" if thorough else "quick"
    work = vlib.workdir("C07")
    SHORT[0] = not thorough

    if replay:
        return replay_case(ctx, hbin, replay)

    # ---- all TLC work that does not depend on the harness runs concurrently, at most 8 TLC workers in total ----
    # quick: the open deviation and a representative subset of the plausible bugs; thorough: all of them
    rb = RESP_BUGS if thorough else [x for x in RESP_BUGS if x[0] in ("dev_CrlfAfterBody", "bug_DecimalChunkSize", "bug_SplitAllSpaces", "bug_UnstableSameNameOrder", "bug_MaxAgeThroughF32")]
    cb = CLIENT_BUGS if thorough else ["bug_Follow303", "bug_StopAfterFirst", "bug_RefuseRevisit", "reach_MaxChain"]
    jobs = [("mc:A", lambda: tlc("MC_HttpResp.tla", "MC_HttpResp_%sA.cfg" % T, 2 if thorough else 1, coverage=True)),
            ("mc:B", lambda: tlc("MC_HttpResp.tla", "MC_HttpResp_%sB.cfg" % T, 2 if thorough else 1, coverage=True)),
            ("mc:C", lambda: tlc("MC_HttpResp.tla", "MC_HttpResp_%sC.cfg" % T, 1, coverage=True)),
            ("mc:seg", lambda: tlc("MC_HttpResp.tla", "MC_HttpResp_seg_%s.cfg" % T, 1, coverage=True)),
            ("mc:client", lambda: tlc("MC_Client.tla", "MC_Client_%s.cfg" % T, 1, coverage=True)),
            ("gen:A", lambda: tlc("MC_HttpResp.tla", "Gen_HttpResp_%sA.cfg" % T)),
            ("gen:B", lambda: tlc("MC_HttpResp.tla", "Gen_HttpResp_%sB.cfg" % T)),
            ("gen:C", lambda: tlc("MC_HttpResp.tla", "Gen_HttpResp_%sC.cfg" % T)),
            ("gen:extra", lambda: tlc("MC_HttpResp.tla", "Gen_HttpResp_extra_%s.cfg" % T, heap="1g", short=not thorough)),
            ("gen:client", lambda: tlc("MC_Client.tla", "Gen_Client_%s.cfg" % T, heap="1g"))]
    jobs += [("sens:resp:" + n, (lambda n=n: tlc("MC_HttpResp.tla", "MC_HttpResp_%s.cfg" % n, 1, heap="1g", short=True))) for n, _ in rb]
    jobs += [("sens:client:" + n, (lambda n=n: tlc("MC_Client.tla", "MC_Client_%s.cfg" % n, 1, heap="1g", short=True))) for n in cb]
    res = par(jobs, 6 if thorough else 8)
    mc = {k[3:]: v for k, v in res.items() if k.startswith("mc:")}
    gen = {k[4:]: v for k, v in res.items() if k.startswith("gen:")}
    sr = {k[5:]: v for k, v in res.items() if k.startswith("sens:")}

    # ---- 1. model checking ---------------------------------------------------------------------------------
    notes = {"A": "every status code x header lists x bodies (one per length) x every composition, Dev={}",
             "B": "few status codes x header lists 0..%d x every spelling, Dev={}" % (3 if thorough else 2),
             "C": "every body over {a, LF} up to %d bytes x every composition into chunks x every spelling, Dev={}" % (6 if thorough else 4),
             "seg": "arbitrary read segmentation (Net_Deliver) + liveness Terminates, Dev={}",
             "client": "Client.tla: all redirect chains up to %d hops, safety + Terminates, Dev={}" % (5 if thorough else 4)}
    for name in ("A", "B", "C", "seg", "client"):
        r = mc[name]
        ctx.add_tlc("MC %s: %s" % (name, notes[name]), r)
        ctx.require_tlc_ok("MC_%s" % name, r)
    cov = {}
    for name in ("A", "B", "C"):
        for a, (_, n) in mc[name].coverage.items():
            cov[a] = cov.get(a, 0) + n

    class _R:  # union of the three runs for the vacuity guard (C only has chunked srv cases by construction)
        coverage = {a: (n, n) for a, n in cov.items()}
    ctx.require_cover("MC_HttpResp A+B+C", _R, RESP_ACTIONS)
    ctx.require_cover("MC_HttpResp seg", mc["seg"], RESP_ACTIONS + ["Net_Deliver"])
    ctx.require_cover("MC_Client", mc["client"], CLIENT_ACTIONS)

    for name, r in sorted(sr.items()):
        ctx.add_tlc("sensitivity %s must violate an invariant" % name, r)
        if r.violation != "invariant":
            raise vlib.ToolError("model lost sensitivity: %s no longer violates any invariant" % name)
    for n, inv in rb:
        if inv and sr["resp:" + n].violated_name != inv:
            raise vlib.ToolError("sensitivity %s violated %s, expected %s" % (n, sr["resp:" + n].violated_name, inv))

    # ---- 2. vectors from TLC replayed on the real code ------------------------------------------------------
    vectors = []
    for name in ("A", "B", "C", "extra"):
        g = gen[name]
        if g.violation:
            raise vlib.ToolError("generation %s failed (%s %s): the spec-level lemma does not hold\n%s" % (name, g.violation, g.violated_name, g.out[-1500:]))
        ctx.add_tlc("vector generation Gen_HttpResp_%s (lemma DenoteResp(RenderResp(r)) = r evaluated on every case)" % name, g)
        got = [x for x in g.prints if x.get("k") in ("s", "p", "c")]
        if len(got) != g.distinct:
            raise vlib.ToolError("generation %s: %d vectors for %d cases" % (name, len(got), g.distinct))
        if not vectors:
            vectors += [x for x in g.prints if x.get("k") == "codes"][:1]
        vectors += got
    data = "\n".join(json.dumps(x) for x in vectors) + "\n"
    p = run_bin(hbin, ["replay", "2" if thorough else "1"], stdin_data=data)
    s = summary_of(p, "replay")
    want = {k: sum(1 for x in vectors if x["k"] == k) for k in ("s", "p", "c", "codes")}
    if s["vectors"] != want:
        raise vlib.ToolError("harness consumed %s of %s vectors" % (s["vectors"], want))
    ctx.cov["evaluations"] += s["evaluations"]
    ctx.cov["distinct_nontrivial"] += s["nontrivial"]
    ctx.cov["traces_validated_against_impl"] += len(vectors)
    for x in s["samples"]:
        ctx.sample(x, limit=6)
    ctx.add_part("vector replay", vectors=want, evaluations=s["evaluations"], serialise_parse_roundtrips_on_real_code=s["roundtrips"],
                 mismatches=s["mismatches"], attributed=s["dev_hits"])
    report_harness(ctx, s, "vectors")
    if s.get("notes"):
        ctx.drift("status table", "status.rs and the spec's table differ in which codes exist (%s); the property speaks of the codes Humphrey models, "
                  "so this is a gap of the check's table, not a violation; vectors for codes without a variant were skipped"
                  % ", ".join(str(x["code"]) for x in s["notes"][:12]), {"kind": "codes-domain", "notes": s["notes"]})
    if s.get("unconsumed_tail_cases"):
        ctx.drift("parser", "%d parse(s) returned the right response but left the last bytes of the message (the CRLF after the last chunk) unread"
                  % s["unconsumed_tail_cases"], None)
    ctx.add_part("binding self-test", **selftest(hbin, vectors))

    # ---- the client against the scripted server -------------------------------------------------------------
    g = gen["client"]
    if g.violation:
        raise vlib.ToolError("Gen_Client failed: %s %s" % (g.violation, g.violated_name))
    ctx.add_tlc("behaviour generation Gen_Client (every complete chain)", g)
    beh = [x for x in g.prints if x.get("k") == "client"]
    p = run_bin(hbin, ["client", "2" if thorough else "1"], stdin_data="\n".join(json.dumps(x) for x in beh) + "\n")
    cs = summary_of(p, "client")
    client_ok = cs.get("available", False)
    if not client_ok:
        ctx.assumptions.append("REDUCED COVERAGE: client part not run - " + cs.get("reason", "?"))
        ctx.add_part("client replay", available=False, reason=cs.get("reason"))
    else:
        if cs["behaviours"] != len(beh):
            raise vlib.ToolError("client harness consumed %d of %d behaviours" % (cs["behaviours"], len(beh)))
        ctx.cov["evaluations"] += cs["evaluations"]
        ctx.cov["distinct_nontrivial"] += cs["nontrivial"]
        ctx.cov["traces_validated_against_impl"] += len(beh)
        for x in cs["samples"][:2]:
            ctx.sample(x, limit=8)
        ctx.add_part("client replay", behaviours=len(beh), runs=cs["evaluations"], tcp_connections=cs["connections"], mismatches=cs["mismatches"])
        if cs.get("followed_optional_3xx"):
            ctx.drift("client", "%d behaviour(s): a final 300/303/305 carrying a Location was followed to where it points (the code model returns it as "
                      "it is; the statement allows either)" % cs["followed_optional_3xx"], None)
        if cs["mismatches"]:
            ctx.violation("client: %d behaviour(s) did not end at the response the model predicts; first: %s" % (cs["mismatches"], json.dumps(cs["first"][0])[:1500]),
                          {"kind": "client", "mode": "client", "stdin": [x for x in beh if x["script"] == cs["first"][0]["script"]][:1], "first": cs["first"]})

    # ---- 3. random large cases validated by TLC ------------------------------------------------------------
    n = 6000 if thorough else 1200
    p = run_bin(hbin, ["random", str(n), "65536"])
    if p.returncode != 0:
        raise vlib.ToolError("httpresp random failed: " + p.stderr[-1000:])
    tr = os.path.join(work, "random-%d.ndjson" % os.getpid())
    with open(tr, "w") as f:
        f.write(p.stdout)
    jobs = [("resp", lambda: tlc("Trace_HttpResp.tla", "Trace_HttpResp.cfg", env={"TRACE": tr}, deque=True, heap="3g"))]
    # trace binding self-test: the first records with one logged field flipped must be rejected by TLC
    recs = [json.loads(x) for x in [y for y in p.stdout.split("\n") if y.strip()][:24]]
    victim = next(i for i, x in enumerate(recs) if x["k"] == "parse")
    recs[victim]["got"]["body"][1] = "0" * 16
    trs = os.path.join(work, "random-selftest-%d.ndjson" % os.getpid())
    vlib.write_lines(trs, recs)
    jobs.append(("resp-selftest", lambda: tlc("Trace_HttpResp.tla", "Trace_HttpResp.cfg", env={"TRACE": trs}, deque=True, heap="1g", short=True)))
    ctr = os.path.join(work, "client-%d.ndjson" % os.getpid())
    nruns = 1500 if thorough else 250
    if client_ok:
        p2 = run_bin(hbin, ["client-random", str(nruns)])
        if p2.returncode != 0:
            raise vlib.ToolError("httpresp client-random failed: " + p2.stderr[-1000:])
        with open(ctr, "w") as f:
            f.write(p2.stdout)
        jobs.append(("client", lambda: tlc("Trace_Client.tla", "Trace_Client.cfg", env={"TRACE": ctr}, deque=True, heap="3g")))
    tv = par(jobs, 3)
    t = tv["resp"]
    ctx.add_tlc("trace validation of %d random large responses (Trace_HttpResp)" % n, t)
    verdict = t.prints[-1] if t.prints else None
    if verdict is None or verdict.get("n") != n:
        raise vlib.ToolError("Trace_HttpResp did not reach the end of the log: %s" % t.out[-1500:])
    ctx.cov["evaluations"] += n
    ctx.cov["traces_validated_against_impl"] += n
    ctx.add_part("random responses", records=n, parsed_bytewise_by_tlc=verdict["parsed_bytewise"], rejected=len(verdict["rejected"]),
                 attributed_CrlfAfterBody=verdict["CrlfAfterBody"])
    lines = [y for y in p.stdout.split("\n") if y.strip()]   # not splitlines(): U+0085 inside a header value is not a line break
    if verdict["CrlfAfterBody"]:
        ctx.violation("CRLF follows a non-empty body in %d random serialisations (bytes beyond the message; Trace_HttpResp attributes exactly this)" % verdict["CrlfAfterBody"],
                      {"kind": "trace", "record": json.loads(lines[verdict["first_CrlfAfterBody"] - 1])}, dev="CrlfAfterBody")
    if verdict.get("unconsumed_tail"):
        ctx.drift("parser", "%d random parse(s) returned the right response but left the last bytes of the message unread" % verdict["unconsumed_tail"], None)
    if verdict["rejected"]:
        rej = verdict["rejected"]
        ctx.violation("%d+ random case(s) rejected by Trace_HttpResp; first: line %d (%s) fails %s" % (len(rej), rej[0]["line"], rej[0]["k"], rej[0]["fails"]),
                      {"kind": "trace", "mode": "trace-resp", "seed": ctx.seed, "n": n, "rejected": rej, "records": [json.loads(lines[x["line"] - 1]) for x in rej[:5]]})
    elif t.violation:
        raise vlib.ToolError("Trace_HttpResp failed without a verdict: %s" % t.out[-1500:])
    os.remove(tr)
    # the self-test: the flipped field of the victim record must be among the reasons TLC gives for that line (other
    # lines may be rejected too when the code under test is defective - that is the main run's verdict, not a tool error)
    st = tv["resp-selftest"]
    os.remove(trs)
    sv = st.prints[-1] if st.prints else {}
    hit = [x for x in sv.get("rejected", []) if x["line"] == victim + 1 and "body" in x["fails"]]
    if not hit and len(sv.get("rejected", [])) < 20 and not ctx.violations:
        raise vlib.ToolError("trace self-test: the corrupted record (line %d, body hash flipped) was not rejected by Trace_HttpResp: %s" % (victim + 1, sv))
    ctx.cov["parts"]["binding self-test"]["corrupted_trace_record_rejected"] = bool(hit)
    if client_ok:
        t = tv["client"]
        nev = len([y for y in p2.stdout.split("\n") if y.strip()])
        ctx.add_tlc("trace validation of %d random redirect scripts, %d events (Trace_Client)" % (nruns, nev), t)
        verdict = t.prints[-1] if t.prints else None
        if verdict is None or verdict.get("n") != nev:
            raise vlib.ToolError("Trace_Client did not reach the end of the log: %s" % t.out[-1500:])
        ctx.cov["evaluations"] += nruns
        ctx.cov["traces_validated_against_impl"] += nruns
        ctx.add_part("random redirect scripts", runs=nruns, events=nev, rejected=len(verdict["rejected"]))
        for d in verdict.get("drift", [])[:3]:
            ctx.drift("client", "random redirect script, log line %d: %s (explained by the statement, not by Client.tla)" % (d["line"], d["what"]),
                      {"kind": "trace", "mode": "trace-client", "seed": ctx.seed, "n": nruns, "drift": verdict["drift"]})
        if verdict["rejected"] or not verdict["complete"]:
            rej = verdict["rejected"]
            ctx.violation("client event log not explained by Client.tla; first: %s" % json.dumps(rej[:1])[:1200],
                          {"kind": "trace", "mode": "trace-client", "seed": ctx.seed, "n": nruns, "rejected": rej})
        elif t.violation:
            ctx.require_tlc_ok("Trace_Client", t)
        os.remove(ctr)

    ctx.cov["rule"] = ("vectors: every case of the bounded grammars A/B/C + all Set-Cookie attribute subsets + the status table, each under "
                       "3..5 byte mappings x split plans (all-at-once, bytewise, every split point in thorough, random); non-trivial = distinct "
                       "parse vectors with >= 2 chunks or >= 3 headers, api vectors with body and headers, cookies with >= 2 attributes, "
                       "redirect chains with >= 2 hops; random cases are counted in evaluations only")
    ctx.cov["exhaustive"] = True
    ctx.assumptions += [
        "RenderResp / DenoteResp / Phrases in HttpRespSyntax.tla are the property's definition of a valid response message (RFC 7230/7231, RFC 6265)",
        "for 413, 414, 416 the RFC 2616 and the RFC 7231 phrase are both accepted (DESIGN 5a), for 413 also the RFC 9110 phrase of today's IANA registry",
        "header lists are compared per case-insensitive name, values in order; order between different names is free; attribute order inside Set-Cookie is free",
        "bodiless statuses (1xx, 204, 205, 304) are generated without body and without framing header; a 304 carrying the Content-Length of the "
        "omitted representation is not generated",
        "the code model follows exactly 301, 302, 307; a client that also follows a final 300/303/305 carrying a Location is accepted and reported as SPEC-DRIFT",
        "a sub-second Max-Age may come out truncated, rounded or rounded up; Set-Cookie attribute names and the SameSite value are compared case-insensitively",
        "a message without framing header is delimited by the server closing: reading up to the EOF is accepted there; whether the last CRLF of a message is consumed is not compared",
        "random redirect scripts have 0..5 hops (a client may cap longer chains); a run Client.tla cannot explain is judged by the statement itself (PropHolds)",
        "close-delimited bodies, unknown status codes and malformed messages are outside C07 (C09 / C03)",
        "body symbol mappings (a, LF) -> {(a,LF), (NUL,0xFF), (CR,LF), ('0',CR), (0x80,':')} stand for arbitrary bytes",
    ]
    # which request the client builds from a URL (spec/http/Url.tla; spec growth, DESIGN section 6): beyond what C07 states
    # (the property starts at the response): drift only
    import c07_url
    vlib.run_growth(ctx, "client URLs", c07_url.run_part, tier)
    return ctx.finish()


def run(tier, replay):
    """Entry point: _run plus removal of this process's scratch logs whatever the outcome."""
    import glob
    try:
        return _run(tier, replay)
    finally:
        for f in glob.glob(os.path.join(vlib.workdir("C07"), "*-%d.ndjson" % os.getpid())):
            try:
                os.remove(f)
            except OSError:
                pass


def selftest(hbin, vectors):
    """One flipped expected value per vector kind must make the harness report a mismatch (otherwise the
    replay would be comparing nothing): tool error, not a verdict about the code."""
    import copy
    pv = copy.deepcopy(next(x for x in vectors if x["k"] == "p" and x["exp"]["body"]))
    pv["exp"]["body"] += "a"
    sv = copy.deepcopy(next(x for x in vectors if x["k"] == "s" and x["r"]["headers"]))
    sv["r"]["headers"][0]["v"] += "x"          # the harness builds the response from r; the accepted lines are unchanged,
    sv["lines"] = [l + "!" for l in sv["lines"]]  # so a changed status line expectation must be noticed
    cv = copy.deepcopy(next(x for x in vectors if x["k"] == "c" and len(x["attrs"]) >= 2))
    cv["avsets"] = [a[1:] for a in cv["avsets"]]
    out = {}
    for name, v in (("parse", pv), ("ser", sv), ("cookie", cv)):
        p = run_bin(hbin, ["replay", "1"], stdin_data=json.dumps(v) + "\n")
        s = summary_of(p, "self-test")
        if not s["mismatches"]:
            raise vlib.ToolError("binding self-test: a corrupted %s vector was not rejected by the harness" % name)
        out[name + "_corrupted_rejected"] = True
    return out


def report_harness(ctx, s, where):
    for dev, cnt in s.get("dev_hits", {}).items():
        ctx.violation("CRLF follows a non-empty body in %d serialisations of the %s (got = RenderResp(r) + what Dev={%s} predicts, every other class equal); e.g. %s"
                      % (cnt, where, dev, json.dumps(s["dev_first"][dev].get("got_bytes"))),
                      {"kind": "vectors", "case": s["dev_first"][dev]}, dev=dev)
    if s["mismatches"]:
        kinds = sorted({x["kind"] for x in s["first"]})
        ctx.violation("%d mismatch(es) between the real code and the TLC vectors (%s); first: %s" % (s["mismatches"], ",".join(kinds), json.dumps(s["first"][0])[:1500]),
                      {"kind": "vectors", "mode": "replay", "first": s["first"]})


def replay_case(ctx, hbin, path):
    """--replay <file>: run the stored failing case(s) again on the current tree.  Vector and behaviour cases are fed
    to the harness again; trace cases (observations of random runs) are regenerated from the stored seed and
    validated by TLC again.  Exit 1 when the case still fails, 0 when it no longer does."""
    case = json.load(open(path)).get("case", {})
    mode = case.get("mode")
    ctx.level = "other"
    ctx.cov["explanation"] = "replay of %s (mode %s): the stored case is run again on the current tree" % (os.path.basename(path), mode)
    work = vlib.workdir("C07")
    if mode == "replay":
        vecs = [x["vector"] for x in case.get("first", []) if "vector" in x] or [x for x in case.get("vectors", [])]
        p = run_bin(hbin, ["replay", "3"], stdin_data="\n".join(json.dumps(x) for x in vecs) + "\n")
        s = summary_of(p, "replay")
        ctx.cov["evaluations"] = s["evaluations"]
        ctx.cov["samples"] = vecs[:2]
        report_harness(ctx, s, "replayed vectors")
    elif mode == "client" and case.get("stdin"):
        p = run_bin(hbin, ["client", "2"], stdin_data="\n".join(json.dumps(x) for x in case["stdin"]) + "\n")
        s = summary_of(p, "client")
        if not s.get("available"):
            raise vlib.ToolError("cannot replay the client case: " + s.get("reason", "?"))
        ctx.cov["evaluations"] = s["evaluations"]
        ctx.cov["samples"] = case["stdin"][:1]
        if s["mismatches"]:
            ctx.violation("replayed client behaviour still fails: %s" % json.dumps(s["first"][:1])[:1500], case)
    elif mode in ("trace-resp", "trace-client") and "seed" in case:
        os.environ["VERIF_SEED"] = str(case["seed"])
        args, mod = (["random", str(case["n"]), "65536"], "Trace_HttpResp") if mode == "trace-resp" else (["client-random", str(case["n"])], "Trace_Client")
        p = run_bin(hbin, args)
        tr = os.path.join(work, "replay-%d.ndjson" % os.getpid())
        with open(tr, "w") as f:
            f.write(p.stdout)
        t = tlc(mod + ".tla", mod + ".cfg", env={"TRACE": tr}, deque=True, heap="3g")
        os.remove(tr)
        v = t.prints[-1] if t.prints else None
        if v is None:
            raise vlib.ToolError("trace validation gave no verdict: " + t.out[-1000:])
        ctx.cov["evaluations"] = case["n"]
        ctx.cov["samples"] = v["rejected"][:2] or [{"n": v["n"], "rejected": 0}]
        if v["rejected"] or v.get("complete") is False:
            ctx.violation("replayed random run (seed %s) is still rejected by %s: %s" % (case["seed"], mod, json.dumps(v["rejected"][:1])[:1200]), case)
    else:
        vlib.log("replay: unknown case kind; running the quick tier")
        return _run("quick", None)
    return ctx.finish()
