"""C13 - Value::parse accepts exactly RFC 8259 (within the depth limit) and yields the denoted value;
serialize / serialize_pretty emit RFC 8259 text that parses back to an equal value.

Oracle: spec/json/Json8259.tla (Part 1 = RFC 8259 written from the ABNF; Part 2 = transcription of parser.rs
with named deviations; Part 3 = transcription of serialize.rs).  Python only orchestrates.

0. JsonMachine.tla: parser.rs as a state machine (one action per loop iteration, the Rust call stack explicit):
   TLC checks on all inputs of the bound that it terminates, that it stops with the RFC's answer, that
   self.depth counts the open containers and stays within max_depth; each deviation is refuted.
1. TLC enumerates bounded input spaces AS STATES (one token appended per step; texts that can no longer become
   acceptable - rejected at a character, not at the end, by the RFC definition and by the model - are not
   extended: the lemma that justifies this, Inv_DeadStaysDead, is checked on complete smaller spaces) and on
   every string checks the model of the code against the RFC definition (accept <=> IsJson /\\ Depth <= d for several d, value =
   denotation, member order, depth-by-scan = depth-by-parse, serialiser model round-trips).  In the same pass
   it prints the ACCEPTED strings with their denotation.   Spaces: the 18-token alphabet (<=5 / <=6), number-like
   strings (<=7 / <=8), member-level objects (<=7 / <=8), escape tokens (<=6 / <=7), serialiser atoms (<=5 / <=6).
2. spec -> code (method A): the harness enumerates the same spaces and requires Value::parse and
   parse_max_depth(., 0..3) to accept exactly the printed set (with the printed depth) and return the printed value.
3. sensitivity: each named deviation (= the three defects repaired in /repo) and eight plausible bugs must make
   TLC report a violation.
4. code -> spec (method C): grammar-generated documents (every escape form, surrogate pairs, raw characters,
   whitespace placements, nesting to 300) and all their single-edit mutants, and random Values through
   serialize / serialize_pretty(0..8), are logged by the harness and validated record by record by TLC
   (Trace_Json8259.tla).
5. self-test of the binding: a corrupted vector file / trace must be rejected (else exit 2)."""
import concurrent.futures as cf
import json
import os
import vlib
from vlib import Ctx, run_tlc, build_harness, run_bin, parse_jsonl, SPEC, ToolError

D = os.path.join(SPEC, "json")
DEVS = ("LenientNumber", "MissingComma", "PlusInUnicodeEscape")
SENS = [("MC_Json8259_dev_%s.cfg" % d, d) for d in DEVS] + \
       [("MC_Json8259_bug_%s.cfg" % b, "Bug" + b) for b in
        ("ArrayTrailingComma", "DepthOffByOne", "ControlInString", "LiteralPrefix", "MemberOrder",
         "SerRawControl", "SerNoQuoteEscape", "SerPrettyComma", "GetMutNoInsert",
         "PairNoOffset", "SerBoundary1F", "SerPrettyEmptyPop")]
MACHINE_ACTIONS = ["M_Extend", "M_Start", "PV_Enter", "Str_Step", "Lit_Scan", "Ret", "Arr_Loop", "Arr_After", "Obj_Loop", "Obj_Colon", "Eof"]
MACHINE_SENS = [("MC_JsonMachine_dev_%s.cfg" % d, d) for d in DEVS] + [("MC_JsonMachine_bug_DepthOffByOne.cfg", "BugDepthOffByOne"),
                                                                          ("MC_JsonMachine_bug_DepthLeak.cfg", "BugDepthLeak")]
CHUNK = 30000


def jsonl(text):
    """vlib.parse_jsonl uses str.splitlines(), which also splits at U+2028/U+2029/U+0085 - characters this
    harness legitimately prints inside JSON strings."""
    out = []
    for line in text.split("\n"):
        line = line.strip(" \r\t")
        if line.startswith("{"):
            try:
                out.append(json.loads(line))
            except Exception:
                pass
    return out


AREA = "beyond the statement of C13"


def split_drift(rej):
    """Reasons that start with DRIFT: concern behaviour the property does not state (parse_max_depth, the policy for
    repeated names, indexing.rs): they are reported with ctx.drift and never change the exit code."""
    return [(i, w) for i, w in rej if not w.startswith("DRIFT:")], [(i, w) for i, w in rej if w.startswith("DRIFT:")]


def report_drifts(ctx, lines, soft, what):
    groups = {}
    for i, w in soft:
        groups.setdefault(w, []).append(i)
    for w, idx in groups.items():
        rec = json.loads(lines[idx[0]])
        txt = text_of(rec.get("in", rec.get("src", rec.get("out", []))))
        ctx.drift(AREA, "%s: %s; e.g. %s (%d record(s))" % (what, w[7:], json.dumps(txt[:120], ensure_ascii=False), len(idx)),
                  {"kind": "json-docs", "texts": [json.loads(lines[i]).get("in", json.loads(lines[i]).get("src", [])) for i in idx[:20]], "why": w})


def judge_texts(ctx, jb, limit, texts, wid="c13j"):
    """Two-level judging of value mismatches on texts with repeated names: the real code parses them again and TLC
    judges the records against the property (Trace_Json8259): returns (lines, hard, soft)."""
    wd = vlib.workdir("C13")
    data = "\n".join(json.dumps({"s": [ord(c) for c in t]}) for t in texts) + "\n"
    p = run_bin(jb, ["log", str(limit)], stdin_data=data)
    if p.returncode != 0:
        raise ToolError("json log failed: " + p.stderr[-500:])
    path = os.path.join(wd, "judge.ndjson")
    with open(path, "w") as f:
        f.write("\n".join(l for l in p.stdout.split("\n") if '"k":"doc"' in l) + "\n")
    try:
        lines, rej, _ = trace_validate(path, wid=wid)
    finally:
        os.remove(path)
    hard, soft = split_drift(rej)
    return lines, hard, soft


def text_of(cps):
    return "".join(chr(c) if c < 0xD800 or c > 0xDFFF else "�" for c in cps)


def tlc_space(cfg, workers, wid):
    r = run_tlc("MC_Json8259.tla", cfg, D, workers=workers, timeout=2400, work_id=wid, heap="8g")
    return r


def hang_of(p):
    """The harness ends with code 3 when a call into the code under test did not return within 120 s (a finding,
    not a tool error): the last line says which call and with what input."""
    if p.returncode != 3:
        return None
    h = [x for x in jsonl(p.stdout) if x.get("k") == "hang"]
    return h[-1] if h else {"k": "hang", "call": "?", "in": [], "seconds": 120}


def report_hang(ctx, h, where):
    ctx.violation("%s: %s did not return within %s s on %s" % (where, h["call"], h["seconds"], json.dumps(text_of(h["in"])[:300], ensure_ascii=False)),
                  {"kind": "json-docs", "texts": [h["in"]], "hang": h})


def strip_hang(text):
    return "\n".join(l for l in text.split("\n") if '"k":"hang"' not in l)


def enum_replay(jb, r, limit):
    data = "\n".join(json.dumps(x, separators=(",", ":")) for x in r.prints) + "\n"
    p = run_bin(jb, ["enum", str(limit)], stdin_data=data, timeout=2400)
    if hang_of(p):
        return {"hang": hang_of(p)}
    res = [x for x in jsonl(p.stdout) if x.get("summary")]
    if p.returncode != 0 or not res:
        raise ToolError("json enum failed rc=%s (%d vectors): stderr=%s stdout=%s" % (p.returncode, len(r.prints), p.stderr[-1500:], p.stdout[:600]))
    return res[0]


def trace_validate(path, cfg="Trace_Json8259.cfg", wid="c13t", par=1, chunk=CHUNK):
    """Validate an ndjson log with TLC, in chunks. Returns (records, [(line_index, why)], [TLCResult])."""
    lines = [l for l in open(path).read().split("\n") if l.strip()]
    chunks = [lines[i:i + chunk] for i in range(0, len(lines), chunk)] or [[]]
    rejected, runs = [], []

    def one(k):
        cp = "%s.%d" % (path, k)
        with open(cp, "w") as f:
            f.write("\n".join(chunks[k]) + "\n")
        try:
            t = run_tlc("Trace_Json8259.tla", cfg, D, workers=1, env={"TRACE": cp}, timeout=2400,
                        work_id="%s%d" % (wid, k), deque=True, heap="6g")
        finally:
            os.remove(cp)
        if t.violation not in (None, "invariant"):
            raise ToolError("trace validation failed: %s\n%s" % (t.violation, t.out[-1500:]))
        if t.violation is None and t.generated != len(chunks[k]) + 1:
            raise ToolError("trace validation consumed %d of %d records" % (t.generated - 1, len(chunks[k])))
        rej = []
        if t.violation == "invariant":
            rr = [x for x in t.prints if isinstance(x, dict) and "rejected" in x]
            if not rr:
                raise ToolError("trace validation: invariant violated without a rejection list\n" + t.out[-1500:])
            rej = [(k * chunk + x["i"] - 1, x["why"]) for x in rr[-1]["rejected"]]
        return t, rej

    with cf.ThreadPoolExecutor(max_workers=par) as ex:
        for t, rej in ex.map(one, range(len(chunks))):
            runs.append(t)
            rejected += rej
    return lines, sorted(rejected), runs


def attribute(ctx, jb, limit, texts):
    """Which single deviation of the model of parser.rs predicts exactly what the code did on these texts?
    Returns {index: dev}. (Diagnostic; all three deviations are repaired, none is listed open.)"""
    out = {}
    if not texts:
        return out
    wd = vlib.workdir("C13")
    data = "\n".join(json.dumps({"s": [ord(c) for c in t]}) for t in texts) + "\n"
    p = run_bin(jb, ["log", str(limit)], stdin_data=data)
    if p.returncode != 0:
        return out
    path = os.path.join(wd, "attr.ndjson")
    with open(path, "w") as f:
        f.write("\n".join(l for l in p.stdout.split("\n") if '"k":"doc"' in l) + "\n")
    try:
        for d in DEVS:
            _, rej, _ = trace_validate(path, "Trace_Json8259_dev_%s.cfg" % d, wid="c13a")
            bad = set(i for i, _ in rej)
            for i in range(len(texts)):
                if i not in bad and i not in out:
                    out[i] = d
    finally:
        os.remove(path)
    return out


def lane_spaces(jb, limit, spaces, workers, tag):
    res = []
    for name, cfg in spaces:
        r = tlc_space(cfg, workers, "c13%s" % tag)
        s = None
        if r.violation is None:
            s = enum_replay(jb, r, limit)
        res.append((name, cfg, r, s))
    return res


def lane_sens(cfgs, module="MC_Json8259.tla", par=1):
    def one(cd):
        return (cd[0], cd[1], run_tlc(module, cd[0], D, workers=1, timeout=900, work_id="c13s" + cd[1] + module[3:8]))
    with cf.ThreadPoolExecutor(max_workers=par) as ex:
        return list(ex.map(one, cfgs))


def lane_machine(thorough):
    """JsonMachine.tla: parser.rs as a state machine (one action per loop iteration, explicit call stack)."""
    runs = []
    live = run_tlc("MC_JsonMachine.tla", "MC_JsonMachine_live.cfg", D, workers=1, timeout=1200, work_id="c13ml", heap="6g")
    runs.append(("parser state machine: all invariants + termination (liveness)", "MC_JsonMachine_live.cfg", live))
    for name, cfg in [("parser state machine, 18-token alphabet", "MC_JsonMachine_%s.cfg" % ("thorough" if thorough else "quick")),
                      ("parser state machine, escape tokens", "MC_JsonMachine_esc.cfg")] + \
                     ([("parser state machine, member-level objects", "MC_JsonMachine_obj.cfg")] if thorough else []):
        runs.append((name, cfg, run_tlc("MC_JsonMachine.tla", cfg, D, workers=1, timeout=2400, work_id="c13mm", heap="6g")))
    return runs, lane_sens(MACHINE_SENS, "MC_JsonMachine.tla")


def run(tier, replay):
    ctx = Ctx("C13", tier, "model_checking")
    thorough = tier == "thorough"
    bindir = build_harness(["json"])
    jb = os.path.join(bindir, "json")
    wd = vlib.workdir("C13")

    p = run_bin(jb, ["probe"])
    pr = jsonl(p.stdout)
    if p.returncode != 0 or not pr:
        raise ToolError("json probe failed: " + p.stderr[-500:])
    limit = pr[0]["limit"]
    ctx.add_part("depth limit probed from Value::parse (pure array nesting)", limit=limit)

    if replay:
        return do_replay(ctx, jb, limit, replay)

    suffix = "thorough" if thorough else "quick"
    main_space = [("18-token alphabet", "MC_Json8259_%s.cfg" % suffix)]
    side_spaces = [("number-like strings", "MC_Json8259_num_%s.cfg" % suffix),
                   ("member-level objects", "MC_Json8259_obj_%s.cfg" % suffix),
                   ("escape tokens", "MC_Json8259_esc_%s.cfg" % suffix),
                   ("surrogate escapes", "MC_Json8259_sur_%s.cfg" % suffix),
                   ("serialiser atoms", "MC_Json8259_ser_%s.cfg" % suffix)]

    # the harness logs (cheap) first
    n_docs = 3000 if thorough else 220
    docs_path = os.path.join(wd, "docs.ndjson")
    p = run_bin(jb, ["docs", str(n_docs), str(limit), "200"])
    if hang_of(p):
        report_hang(ctx, hang_of(p), "documents")
    elif p.returncode != 0:
        raise ToolError("json docs failed: " + p.stderr[-1000:])
    with open(docs_path, "w") as f:
        f.write(strip_hang(p.stdout))
    docs_sum = ([x for x in jsonl(p.stderr) if x.get("summary")] or [{"families": [], "grammar_docs": 0}])[0]
    n_ser, per, every = (20000, 3, 2) if thorough else (10000, 2, 4)
    ser_path = os.path.join(wd, "ser.ndjson")
    p = run_bin(jb, ["ser", str(n_ser), str(per), str(every)])
    if hang_of(p):
        h = hang_of(p)
        ctx.violation("serialiser: %s did not return within %s s on the value %s" % (h["call"], h["seconds"], text_of(h["in"])[:300]),
                      {"kind": "json-ser", "seed": ctx.seed, "n": n_ser, "per": per, "every": every, "hang": h})
    elif p.returncode != 0:
        raise ToolError("json ser failed: " + p.stderr[-1000:])
    with open(ser_path, "w") as f:
        f.write(strip_hang(p.stdout))
    ser_sum = ([x for x in jsonl(p.stderr) if x.get("summary")] or
               [{"values": 0, "outputs": 0, "reparse_not_equal": 0, "equal_but_not_bit_identical": 0, "variants": {}}])[0]
    idx_path = os.path.join(wd, "idx.ndjson")
    p = run_bin(jb, ["idx", str(2000 if thorough else 400)])
    if hang_of(p):
        report_hang(ctx, hang_of(p), "indexing run")
    elif p.returncode != 0:
        raise ToolError("json idx failed: " + p.stderr[-1000:])
    with open(idx_path, "w") as f:
        f.write(strip_hang(p.stdout))

    # TLC lanes: pruned spaces + vector replay (2 workers) || complete spaces with the lemma (1-2) || sensitivity + trace
    # validation (<= 2) || state machine (1) || its coverage run (1): at most 8 workers
    with cf.ThreadPoolExecutor(max_workers=6) as ex:
        f_main = ex.submit(lane_spaces, jb, limit, main_space + side_spaces, 2, "m")

        def lane_full():
            return [(cfg, run_tlc("MC_Json8259.tla", cfg, D, workers=2, timeout=2400, work_id="c13c", heap="6g"))
                    for cfg in ["MC_Json8259_full_%s.cfg" % suffix] + ["MC_Json8259_full_%s.cfg" % x for x in ("num", "obj", "esc", "sur", "ser")]]

        def lane_cover():
            # action coverage of the state machine (-coverage costs ~1 CPU-minute of cost-model construction, own lane)
            return run_tlc("MC_JsonMachine.tla", "MC_JsonMachine_cover.cfg", D, workers=1, coverage=True, timeout=1800, work_id="c13mc", heap="8g")

        def lane2():
            sens = lane_sens(SENS, par=2)
            dv = trace_validate(docs_path, wid="c13d", par=2, chunk=CHUNK if thorough else 7000)
            sv = trace_validate(ser_path, wid="c13e", par=2, chunk=15000 if thorough else 3000)
            iv = trace_validate(idx_path, wid="c13i")
            return sens, dv, sv, iv
        f_l2 = ex.submit(lane2)
        f_full = ex.submit(lane_full)
        f_cover = ex.submit(lane_cover)
        f_mach = ex.submit(lane_machine, thorough)
        sens, (doc_lines, doc_rej, doc_runs), (ser_lines, ser_rej, ser_runs), (idx_lines, idx_rej, idx_runs) = f_l2.result()
        small = f_full.result()
        mach_runs, mach_sens = f_mach.result()
        cover = f_cover.result()
        spaces = f_main.result()
        main, side = spaces[:1], spaces[1:]

    # 1. model checking results
    # Vacuity guard.  The state machine (JsonMachine) runs with -coverage and every action must have been taken.
    # On Json8259 itself `-coverage 1` is not usable: TLC's cost model inlines every operator
    # application and on the mutually recursive descent operators that takes minutes and > 4 GB even for 343
    # states.  Instead: the complete (unpruned) configurations must have exactly sum(|Alphabet|^k) states, the
    # harness must have enumerated sum(|Alphabet|^k) strings and met every accepted string of the pruned spaces,
    # the accepted sets must be non-empty, and every sensitivity config must fail.
    for cfg, r in small:
        ctx.add_tlc("complete space (no pruning): all invariants and the pruning lemma Inv_DeadStaysDead (%s)" % cfg, r)
        ctx.require_tlc_ok(cfg, r)
        hdr = [x for x in r.prints if isinstance(x, dict) and x.get("header")]
        want = sum(len(hdr[0]["alphabet"]) ** k for k in range(hdr[0]["maxlen"] + 1)) if hdr else -1
        if r.distinct != want:
            raise ToolError("vacuity guard: %s explored %d states, expected %d" % (cfg, r.distinct, want))
    for name, cfg, r in mach_runs:
        ctx.add_tlc("%s (%s)" % (name, cfg), r)
        ctx.require_tlc_ok(cfg, r)
    ctx.add_tlc("parser state machine: action coverage (MC_JsonMachine_cover.cfg)", cover)
    ctx.require_tlc_ok("MC_JsonMachine_cover.cfg", cover)
    ctx.require_cover("MC_JsonMachine_cover", cover, MACHINE_ACTIONS)
    for cfg, dev, r in sens + mach_sens:
        ctx.add_tlc("sensitivity: Dev={%s} must violate (%s)" % (dev, cfg), r)
        if r.violation != "invariant":
            raise ToolError("model lost sensitivity: Dev={%s} no longer violates (%s)" % (dev, cfg))

    # 2. spaces: model checking + vector replay
    all_first = []
    acc_total = 0
    nontrivial_texts = set()
    for name, cfg, r, s in main + side:
        ctx.add_tlc("%s: model of the code vs RFC 8259 on every viable string (dead prefixes pruned), accepted set printed (%s)" % (name, cfg), r)
        ctx.require_tlc_ok(cfg, r)
        if s is None:
            continue
        if "hang" in s:
            report_hang(ctx, s["hang"], name)
            continue
        acc = len([x for x in r.prints if isinstance(x, dict) and "t" in x])
        if acc == 0 or s["accepted_by_spec"] != acc or s["accepted_seen"] != acc:
            raise ToolError("%s: harness saw %s of %s accepted strings (TLC printed %d)" % (cfg, s["accepted_seen"], s["accepted_by_spec"], acc))
        depths = sorted(set(x["d"] for x in r.prints if isinstance(x, dict) and "d" in x))
        na = len(s["alphabet"])
        if s["strings"] != sum(na ** k for k in range(s["maxlen"] + 1)) or r.distinct <= acc:
            raise ToolError("vacuity guard: %s: harness enumerated %d strings, TLC explored %d states" % (cfg, s["strings"], r.distinct))
        acc_total += acc
        ctx.cov["evaluations"] += s["evaluations"]
        for x in r.prints:                      # distinct accepted texts of >= 2 tokens, across all spaces
            if isinstance(x, dict) and "t" in x and len(x["t"]) >= 2:
                nontrivial_texts.add("".join(s["alphabet"][k - 1] for k in x["t"]))
        ctx.cov["traces_validated_against_impl"] += s["strings"]
        for x in s["samples"][2:3]:
            ctx.sample({"space": name, **x})
        ctx.add_part("vectors: " + name, alphabet=s["alphabet"], maxlen=s["maxlen"], strings=s["strings"], tlc_states_after_pruning=r.distinct,
                     accepted_by_spec=acc, depths_of_accepted=depths, either_outcome_allowed=s["either"],
                     calls=s["evaluations"], mismatches=s["mismatches"])
        if s["mismatches"]:
            all_first.append((name, cfg, s))
        if s.get("pm_mismatches"):
            m0 = s["pm_first"][0]
            ctx.drift(AREA, "%s: %s on %s: %s (%d call(s)); the property names Value::parse only" % (
                name, m0["call"], json.dumps(m0["text"], ensure_ascii=False), m0["problem"], s["pm_mismatches"]),
                {"kind": "json-enum", "space": name, "texts": [m["cps"] for m in s["pm_first"]], "first": s["pm_first"]})
        if s.get("dup_value_mismatches"):
            texts = []
            for m in s["dup_first"]:
                if m["text"] not in texts:
                    texts.append(m["text"])
            jl, hard, soft = judge_texts(ctx, jb, limit, texts)
            if hard:
                r0 = json.loads(jl[hard[0][0]])
                ctx.violation("%s: text with repeated names %s: %s (%d such call(s) in the space)" % (
                    name, json.dumps(text_of(r0["in"]), ensure_ascii=False), hard[0][1], s["dup_value_mismatches"]),
                    {"kind": "json-enum", "space": name, "texts": [json.loads(jl[i])["in"] for i, _ in hard], "first": s["dup_first"][:5]})
            else:
                report_drifts(ctx, jl, soft or [(0, "DRIFT: repeated names: value differs from keep-all")], name)
    for name, cfg, s in all_first:
        first = s["first"]
        texts = []
        for m in first:
            if m["text"] not in texts:
                texts.append(m["text"])
        attr = attribute(ctx, jb, limit, texts)
        by_dev = {}
        for i, t in enumerate(texts):
            by_dev.setdefault(attr.get(i), []).append(t)
        for dev, ts in by_dev.items():
            ms = [m for m in first if m["text"] in ts]
            what = "%s: Value::parse disagrees with Json8259 on %d call(s) of the enumerated space; e.g. %s: %s%s" % (
                name, s["mismatches"], json.dumps(ms[0]["text"], ensure_ascii=False), ms[0]["problem"],
                (" [exactly what deviation %s of the model predicts]" % dev) if dev else "")
            ctx.violation(what, {"kind": "json-enum", "space": name, "cfg": cfg, "deviation": dev, "texts": [[ord(c) for c in t] for t in ts],
                                 "first": ms}, dev=dev)

    # 4. code -> spec
    for t in doc_runs:
        ctx.add_tlc("trace validation: documents and mutants (%d records)" % (t.generated - 1), t)
    for t in ser_runs:
        ctx.add_tlc("trace validation: serialiser outputs (%d records)" % (t.generated - 1), t)
    ctx.cov["distinct_nontrivial"] += len(nontrivial_texts)
    distinct_docs = len(set(doc_lines))
    ctx.cov["evaluations"] += sum(l.count('"d":') + 1 for l in doc_lines) + ser_sum["outputs"] + len(ser_lines)
    ctx.cov["traces_validated_against_impl"] += len(doc_lines) + len(ser_lines)
    ok_docs = sum(1 for l in doc_lines if '"ok":true,"pm"' in l)
    ctx.cov["distinct_nontrivial"] += distinct_docs + len(set(ser_lines))
    ctx.add_part("documents", records=len(doc_lines), distinct=distinct_docs, accepted_by_parse=ok_docs,
                 families=docs_sum["families"], grammar_docs=docs_sum["grammar_docs"], rejected_by_tlc=len(doc_rej))
    ctx.add_part("serialiser", values=ser_sum["values"], outputs_reparsed_by_harness=ser_sum["outputs"],
                 outputs_validated_by_tlc=len(ser_lines), reparse_not_equal=ser_sum["reparse_not_equal"],
                 equal_but_not_bit_identical=ser_sum["equal_but_not_bit_identical"], variants=ser_sum["variants"],
                 rejected_by_tlc=len(ser_rej))
    for l in (doc_lines[200:201] + doc_lines[-1:]):
        rec = json.loads(l)
        ctx.sample({"document": text_of(rec["in"]), "parse_ok": rec["ok"]})
    for l in ser_lines[5:6]:
        rec = json.loads(l)
        ctx.sample({"serialised": text_of(rec["out"])[:200], "indent": rec["ind"], "reparsed_equal": rec["re"]})
    doc_bad_all, ser_bad_all = set(i for i, _ in doc_rej), set(i for i, _ in ser_rej)
    doc_rej, doc_soft = split_drift(doc_rej)
    ser_rej, ser_soft = split_drift(ser_rej)
    report_drifts(ctx, doc_lines, doc_soft, "documents")
    report_drifts(ctx, ser_lines, ser_soft, "serialiser")
    chain_rej = [(i, why) for i, why in doc_rej if '"k":"ser"' in doc_lines[i]]
    doc_only_rej = [(i, why) for i, why in doc_rej if '"k":"ser"' not in doc_lines[i]]
    if chain_rej:
        recs = [(json.loads(doc_lines[i]), why) for i, why in chain_rej]
        r0, why0 = recs[0]
        ctx.violation("parse -> serialise: %s; text %s gives output %s (indent %s); %d such record(s)" % (
            why0, json.dumps(text_of(r0["src"])[:120], ensure_ascii=False), json.dumps(text_of(r0["out"])[:160], ensure_ascii=False), r0["ind"], len(recs)),
            {"kind": "json-docs", "texts": [r["src"] for r, _ in recs][:50], "why": [w for _, w in recs][:50], "records": [r for r, _ in recs][:3]})
    if doc_only_rej:
        recs = [(json.loads(doc_lines[i]), why) for i, why in doc_only_rej]
        texts = [text_of(r["in"]) for r, _ in recs]
        attr = attribute(ctx, jb, limit, texts)
        groups = {}
        for k, (r, why) in enumerate(recs):
            groups.setdefault(attr.get(k), []).append((r, why))
        for dev, g in groups.items():
            r0, why0 = g[0]
            ctx.violation("document %s: %s (parse ok=%s)%s; %d such record(s)" % (
                json.dumps(text_of(r0["in"])[:120], ensure_ascii=False), why0, r0["ok"],
                (" [exactly what deviation %s of the model predicts]" % dev) if dev else "", len(g)),
                {"kind": "json-docs", "deviation": dev, "texts": [r["in"] for r, _ in g][:50], "why": [w for _, w in g][:50],
                 "records": [r for r, _ in g][:5]}, dev=dev)
    if ser_rej:
        recs = [(json.loads(ser_lines[i]), why) for i, why in ser_rej]
        r0, why0 = recs[0]
        ctx.violation("serialiser: %s; output %s (indent %s); %d such record(s)" % (
            why0, json.dumps(text_of(r0["out"])[:160], ensure_ascii=False), r0["ind"], len(recs)),
            {"kind": "json-ser", "seed": ctx.seed, "n": n_ser, "per": per, "every": every, "records": [r for r, _ in recs][:5],
             "why": [w for _, w in recs][:50]})
    elif ser_sum["reparse_not_equal"] and not ser_soft:
        raise ToolError("harness saw %d outputs that do not re-parse to the value but logged none" % ser_sum["reparse_not_equal"])

    # extension beyond the property text (DESIGN section 6): indexing.rs against Json8259 Part 5.  Reported in the
    # evidence and on stderr; never a violation of C13, whose statement is about parse and serialize only.
    for t in idx_runs:
        ctx.add_tlc("extension: indexing operations validated against Part 5 (%d records)" % (t.generated - 1), t)
    ctx.add_part("extension: indexing (get/get_mut/Index/IndexMut), not gating", records=len(idx_lines),
                 not_explained_by_model=[{"record": json.loads(idx_lines[i]), "op": why} for i, why in idx_rej[:5]],
                 not_explained_count=len(idx_rej))
    report_drifts(ctx, idx_lines, [(i, w if w.startswith("DRIFT:") else "DRIFT: " + w) for i, w in idx_rej], "indexing")
    os.remove(idx_path)

    # 5. self-test of the binding (tool error if the machinery does not notice a corruption)
    selftest(ctx, jb, limit, side[0][2], side[0][3]["mismatches"], doc_lines, doc_bad_all, ser_lines, ser_bad_all, wd)

    os.remove(docs_path)
    os.remove(ser_path)
    ctx.cov["rule"] = ("vectors: every string of at most maxlen tokens over each alphabet, each through parse and parse_max_depth(0..3); "
                       "non-trivial = distinct strings of >= 2 tokens that the specification accepts (their value is compared too), "
                       "plus distinct logged documents (grammar documents, systematic families, single-edit mutants) and distinct "
                       "serialiser outputs validated by TLC")
    ctx.cov["exhaustive"] = True
    ctx.assumptions += [
        "Part 1 of Json8259.tla is RFC 8259 (written from the ABNF)",
        "decimal <-> f64 conversion is Rust's f64::from_str / Display (trusted); TLC compares numbers exactly when the literal has <= 15 significant digits",
        "escapes denoting unpaired surrogates and literals beyond the f64 range: accepting and rejecting are both allowed",
        "the depth limit (%d) is taken from the implementation; parse == parse_max_depth(., limit) is checked" % limit,
        "the sign of zero is not compared (Value's equality identifies 0 and -0)"]
    return ctx.finish()


def selftest(ctx, jb, limit, r_num, base_mismatches, doc_lines, doc_bad, ser_lines, ser_bad, wd):
    # (a) vectors: drop one accepted string and change the value of another -> the harness must report both
    prints = [dict(x) for x in r_num.prints]
    acc = [i for i, x in enumerate(prints) if "t" in x and len(x["t"]) >= 2 and x["v"]["t"] == "num"]
    if len(acc) < 2:
        raise ToolError("self-test: not enough vectors")
    dropped = prints[acc[0]]
    changed = json.loads(json.dumps(prints[acc[1]]))
    changed["v"]["n"] = changed["v"]["n"] + [49]           # literal with one more digit
    mod = [x for i, x in enumerate(prints) if i not in (acc[0], acc[1])] + [changed]
    r2 = type(r_num)()
    r2.prints = mod
    s = enum_replay(jb, r2, limit)
    hit = set(tuple(m["tokens"]) for m in s["first"])
    seen = tuple(dropped["t"]) in hit and tuple(changed["t"]) in hit
    if s["mismatches"] < base_mismatches + 2 or (base_mismatches == 0 and not seen):
        raise ToolError("self-test: corrupted vector file was not rejected by the harness")
    # (b) traces: flip `ok` of an accepted document, break one serialiser output -> TLC must reject exactly those
    docs = [json.loads(l) for i, l in enumerate(doc_lines[:600]) if i not in doc_bad and '"k":"doc"' in l][:400]
    k = next(i for i, d in enumerate(docs) if d["ok"] and len(d["in"]) > 3 and not any(n.get("inf") for n in d["v"]))
    docs[k]["ok"] = False
    sers = [json.loads(l) for i, l in enumerate(ser_lines[:400]) if i not in ser_bad][:200]
    j = next(i for i, d in enumerate(sers) if 44 in d["out"])
    sers[j]["out"] = [c for c in sers[j]["out"] if c != 44] + [44]
    path = os.path.join(wd, "selftest.ndjson")
    with open(path, "w") as f:
        f.write("\n".join(json.dumps(x, separators=(",", ":")) for x in docs + sers) + "\n")
    try:
        _, rej, runs = trace_validate(path, wid="c13st")
    finally:
        os.remove(path)
    got = [i for i, w in rej if not w.startswith("DRIFT:")]
    if got != [k, len(docs) + j]:
        raise ToolError("self-test: corrupted trace: TLC rejected %s, expected %s" % (got, [k, len(docs) + j]))
    ctx.add_part("self-test of the binding", corrupted_vectors_detected=2, corrupted_trace_records_detected=2)


def do_replay(ctx, jb, limit, path):
    """Re-run a stored case on the current tree: documents are parsed again by the real code and the fresh
    records validated by TLC; serialiser cases re-run the generator with the stored seed."""
    case = json.load(open(path))["case"]
    wd = vlib.workdir("C13")
    kind = case.get("kind")
    log = os.path.join(wd, "replay.ndjson")
    if kind in ("json-enum", "json-docs"):
        data = "\n".join(json.dumps({"s": t}) for t in case["texts"]) + "\n"
        p = run_bin(jb, ["log", str(limit)], stdin_data=data)
    elif kind == "json-ser":
        p = run_bin(jb, ["ser", str(case["n"]), str(case["per"]), str(case["every"])], env={"VERIF_SEED": case["seed"]})
    else:
        raise ToolError("unknown replay kind %r" % kind)
    if hang_of(p):
        report_hang(ctx, hang_of(p), "replay")
        return ctx.finish()
    if p.returncode != 0:
        raise ToolError("replay: harness failed: " + p.stderr[-800:])
    with open(log, "w") as f:
        f.write(p.stdout)
    try:
        lines, rej, runs = trace_validate(log, wid="c13r")
    finally:
        os.remove(log)
    for t in runs:
        ctx.add_tlc("replay: trace validation (%d records)" % (t.generated - 1), t)
    ctx.cov["evaluations"] += len(lines)
    ctx.cov["traces_validated_against_impl"] += len(lines)
    ctx.cov["distinct_nontrivial"] += len(set(lines))
    ctx.cov["rule"] = "replay of a stored case: every stored text / the stored generator seed, re-executed and validated by TLC"
    rej, soft = split_drift(rej)
    report_drifts(ctx, lines, soft, "replay")
    for i, why in rej[:20]:
        rec = json.loads(lines[i])
        txt = text_of(rec.get("in", rec.get("out")))
        ctx.sample({"text": txt[:200], "why": why})
        ctx.violation("replay: %s: %s" % (json.dumps(txt[:160], ensure_ascii=False), why),
                      {"kind": kind, "texts": [rec["in"]] if "in" in rec else [], "record": rec, **({k: case[k] for k in ("seed", "n", "per", "every") if k in case})})
    if not rej and lines:
        ctx.sample({"text": text_of(json.loads(lines[0]).get("in", json.loads(lines[0]).get("out")))[:200], "why": "explained by the specification"})
    return ctx.finish()
