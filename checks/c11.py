"""C11 - WebSocket endpoint: valid handshake, well-formed frames out, Ping/Close answered, messages
delivered exactly, blocking and non-blocking receive agree.

1. TLC checks WsEndpoint.tla (Dev = {}) exhaustively for the bounded client (frame catalogue x delivery
   split classes x {blocking, nonblocking} x {echo, no echo} x every point at which the client may stop
   or shut down x every point at which the handler may return): invariants Inv_Handshake,
   Inv_WellFormedOut, Inv_Delivered, Inv_PingPong, Inv_Close, action properties NoneOnlyWhenNothing and
   MsgIsNext, ErrorOnlyAtEof, Inv_SockRestored / Inv_Pushed (the socket mode left by every receive call: handlers
   that MIX recv_nonblocking, send and recv - an empty poll, then a push of 3 bytes or 6 MiB to a client that
   starts reading late, then blocking or polling receives of frames that arrive later), liveness
   (CloseAnswered, AllDelivered under fairness) on a smaller configuration.  Each named
   deviation of the code as it was (ReplyPayloadOnly, OneByteHeader) and six plausible bugs must be refuted
   by TLC (sensitivity), two "can happen" witnesses must be found.
2. spec -> code (method B): the same TLC run prints every finished behaviour (client script with cuts, how it
   ends, what must have been delivered, what the server must have written).  bin wsendpoint replays each on
   loopback against a real humphrey App + humphrey_ws::websocket_handler with recv / recv_nonblocking / send,
   as a reference RFC 6455 client that parses the server's byte stream as frames, and compares.
3. code -> spec (method C): random scripts (up to 12 frames, payloads to 70 KiB, random cuts, keys incl.
   empty / 1 char / 16-byte base64 / 200 and 1000 chars / UTF-8) and a sample of the replayed behaviours
   are logged event by event (client pieces, FIONREAD before each receive call, what each call returned,
   sends, drop, the server's whole output) and TLC accepts or rejects each log with Trace_WsEndpoint.tla.
4. binding self-test: corrupted expectations must be flagged by the harness, corrupted logs must be rejected
   by TLC; otherwise the check itself fails (exit 2)."""
import concurrent.futures
import copy
import json
import os
import random

import vlib
from vlib import Ctx, run_tlc, build_harness, run_bin, parse_jsonl, SPEC

D = os.path.join(SPEC, "wsendpoint")
ACTIONS = ["A_Handshake", "A_StartFrame", "A_Piece", "A_Shut", "A_CallRecv", "A_Frame", "A_None", "A_Eof",
           "A_Send", "A_Drop"]
# (config, deviation, what TLC must report, name)
SENS = [
    ("MC_WsEndpoint_dev_ReplyPayloadOnly.cfg", "ReplyPayloadOnly", "invariant", "Inv_WellFormedOut"),
    ("MC_WsEndpoint_dev_ReplyPayloadOnly_close.cfg", "ReplyPayloadOnly", "invariant", "Inv_Close"),
    ("MC_WsEndpoint_dev_OneByteHeader.cfg", "OneByteHeader", "invariant", "Inv_Delivered"),
    ("MC_WsEndpoint_dev_PongTruncated.cfg", "PongTruncated", "invariant", "Inv_PingPong"),
    ("MC_WsEndpoint_dev_ControlAsData.cfg", "ControlAsData", "invariant", "Inv_Delivered"),
    ("MC_WsEndpoint_dev_TypeFromLast.cfg", "TypeFromLast", "invariant", "Inv_Delivered"),
    ("MC_WsEndpoint_dev_CloseNoReply.cfg", "CloseNoReply", "invariant", "Inv_Close"),
    ("MC_WsEndpoint_dev_DropCloseTwice.cfg", "DropCloseTwice", "invariant", "Inv_Close"),
    ("MC_WsEndpoint_dev_NoneWhilePartial.cfg", "NoneWhilePartial", "action_property", "NoneOnlyWhenNothing"),
    ("MC_WsEndpoint_dev_LenForm126.cfg", "LenForm126", "invariant", "Inv_WellFormedOut"),
    ("MC_WsEndpoint_dev_LenForm65536.cfg", "LenForm65536", "invariant", "Inv_WellFormedOut"),
    ("MC_WsEndpoint_dev_NonblockingLeftOn.cfg", "NonblockingLeftOn", "invariant", "Inv_SockRestored"),
    ("MC_WsEndpoint_dev_NonblockingLeftOn_send.cfg", "NonblockingLeftOn", "invariant", "Inv_WellFormedOut"),
    ("MC_WsEndpoint_dev_NonblockingLeftOn_recv.cfg", "NonblockingLeftOn", "action_property", "ErrorOnlyAtEof"),
    ("MC_WsEndpoint_wit_fragping.cfg", "witness: fragmented message with a Ping inside is delivered whole", "invariant", "NeverFragmentedWithPing"),
    ("MC_WsEndpoint_wit_nonemsg.cfg", "witness: `nothing yet` followed by a message", "invariant", "NeverNoneThenMsg"),
]
RANDOM_BASE = 10_000_000


def case_key(c):
    fr = [[f["op"], f["fin"], f["pay"], sorted(f["cuts"])] for f in c["frames"]]
    return json.dumps([c["key"], c.get("hsv", "canon"), c["mode"], c["echo"], c.get("pre", "none"), c.get("push", []), fr, c["sent"], c["end"]],
                      sort_keys=True)


def nontrivial(c):
    """a case is non-trivial when the server has to do more than deliver single unfragmented frames that arrive
    whole: a control frame, a fragmented message, or a frame written in pieces"""
    fs = c["frames"]
    if c.get("pre", "none") != "none":
        return True
    return any(f["op"] in ("ping", "pong", "close") or not f["fin"] or f["op"] == "cont" or f["cuts"] for f in fs)


def brief(c):
    return {"key": c["key"], "mode": c["mode"], "echo": c["echo"], "end": c["end"], "sent": c["sent"],
            "hsv": c.get("hsv", "canon"), "pre": c.get("pre", "none"), "push_len": sum(r["n"] for r in c.get("push", [])),
            "frames": [{"op": f["op"], "fin": f["fin"], "len": sum(r["n"] for r in f["pay"]), "cuts": sorted(f["cuts"])[:8]}
                       for f in c["frames"]]}


def trace_line(r, c=None):
    return {"c": r["c"] if c is None else c, "mode": r["mode"], "echo": r["echo"], "pre": r["pre"], "push": r["push"],
            "ev": r["ev"]}


class HarnessDied(Exception):
    """the harness process - the code under test runs inside it - was ended by a signal"""

    def __init__(self, rc, args, inflight, done):
        Exception.__init__(self, "wsendpoint %s died rc=%s" % (args, rc))
        self.rc, self.inflight, self.done = rc, inflight, done


def run_harness(ws, args, cases=None, timeout=3000, env=None):
    data = None
    if cases is not None:
        data = "\n".join(json.dumps(c, separators=(",", ":")) for c in cases) + "\n"
    p = run_bin(ws, args, stdin_data=data, timeout=timeout, env=env)
    out = parse_jsonl(p.stdout)
    started = {r["c"]: r for r in out if r.get("start")}
    res = [r for r in out if not r.get("start")]
    if p.returncode < 0:
        fin = set(r["c"] for r in res)
        by = {c["c"]: c for c in cases} if cases is not None else {}
        inflight = [by.get(c) or started[c].get("case") for c in started if c not in fin]
        raise HarnessDied(p.returncode, args, [c for c in inflight if c], res)
    if p.returncode != 0:
        raise vlib.ToolError("wsendpoint %s failed rc=%s: %s" % (args, p.returncode, p.stderr[-2000:]))
    fatal = [r for r in res if "fatal" in r]
    if fatal:
        raise vlib.ToolError("wsendpoint could not run %d connection(s): %s" % (len(fatal), fatal[0]["fatal"]))
    return res


def harness_died(ctx, ws, e):
    """SIGKILL / SIGABRT / SIGSEGV of the harness while connections were in flight: the code under test runs inside that
    process, so the death is an observation. Every in-flight script is retried alone in a fresh process (with a smaller
    address-space limit, so that a runaway allocation aborts quickly); a script that kills the process again is a
    violation with that script as replay object. If none reproduces it is tool trouble (exit 2)."""
    vlib.log("wsendpoint died with rc=%s; retrying the %d script(s) that were in flight, one per process" % (e.rc, len(e.inflight)))
    hit = 0
    items = []
    for c in e.inflight[:48]:
        c = dict(c)
        c["c"] = 1
        ctx.sample(brief(c))
        try:
            r = run_harness(ws, ["replay", "1"], [c], timeout=600, env={"VERIF_HARNESS_AS_GB": "8"})
        except HarnessDied as e2:
            hit += 1
            ctx.violation("the process serving this connection was ended by signal %d (first run: %d) - memory exhaustion or an "
                          "abort inside the endpoint; script %s" % (-e2.rc, -e.rc, json.dumps(brief(c))),
                          {"kind": "ws-case", "case": c, "signal": -e2.rc})
            continue
        if r and r[0].get("mismatch"):
            items.append((trace_line(r[0]), "behaviour %s (in flight when the harness died with signal %d): %s" % (
                json.dumps(brief(c)), -e.rc, "; ".join(r[0]["mismatch"])),
                {"kind": "ws-case", "case": c, "observed": r[0].get("obs"), "ev": r[0].get("ev")}))
    hit += judge(ctx, items)[0]
    if not hit:
        raise vlib.ToolError("wsendpoint died with rc=%s and no in-flight script reproduces it alone (%d tried)" % (e.rc, len(e.inflight[:48])))
    ctx.cov["evaluations"] += len(e.done)
    ctx.cov["rule"] = "run cut short: the harness process died, the in-flight scripts were retried one per process"
    return ctx.finish()


def validate_traces(ctx, name, lines, work_id="c11-trace", timeout=3000, cfg="Trace_WsEndpoint.cfg"):
    """TLC (Trace_WsEndpoint) on a list of trace lines. Returns (TLCResult, rejected list)."""
    tr = os.path.join(vlib.workdir("C11"), "%s-%d.ndjson" % (work_id, os.getpid()))
    vlib.write_lines(tr, lines)
    try:
        t = run_tlc("Trace_WsEndpoint.tla", cfg, D, workers=1, env={"TRACE": tr}, timeout=timeout,
                    work_id=work_id, heap="8g")
    finally:
        os.remove(tr)
    rej = []
    for pr in t.prints:
        if isinstance(pr, dict) and "rejected" in pr:
            rej = pr["rejected"]
    if t.violation and t.violation != "postcondition" and not rej:
        rej = [{"c": -1, "at": 0, "ev": "TLC: %s %s violated while replaying a log" % (t.violation, t.violated_name)}]
    if name:
        ctx.add_tlc(name, t)
    return t, rej


def judge(ctx, items):
    """Second level of judging. `items` are connections the strict comparison (the code model's frame-by-frame output,
    clean end of stream, no client-side trouble) did not accept: (trace line, description, replay object). Their logs are
    judged against the statement itself (Trace_WsEndpointProp.cfg: same messages / Pongs / Close in the same order in a
    well-formed frame sequence, however messages are cut into frames). Rejected there = VIOLATION; accepted = the code
    differs from today's code model in a way the statement allows = SPEC-DRIFT (never changes the exit code)."""
    if not items:
        return 0, 0
    lines = []
    for i, (line, what, obj) in enumerate(items):
        l = dict(line)
        l["c"] = i + 1
        lines.append(l)
    t, rej = validate_traces(ctx, "second-level judging of %d connection(s) against the statement (message level)" % len(items),
                             lines, work_id="c11-judge", cfg="Trace_WsEndpointProp.cfg")
    bad = {x["c"]: x for x in rej}
    if -1 in bad:      # TLC could not replay the logs at all: every one of them stays a violation
        bad = {i + 1: bad[-1] for i in range(len(items))}
    nv = nd = 0
    for i, (line, what, obj) in enumerate(items):
        x = bad.get(i + 1)
        if x is not None:
            nv += 1
            if nv <= 20:
                ctx.violation("%s [statement-level judge: rejected at event %s: %s]" % (what[:1500], x["at"], str(x["ev"])[:300]), obj)
            else:
                ctx.violations.append(("(further violating connection)", obj))
        else:
            nd += 1
            ctx.drift("C11 output framing / code model", "%s [accepted by the statement-level judge]" % what[:1500], obj)
    return nv, nd


def validate_accepts(ctx, name, results, limit, work_id="c11-accept", corrupt=False):
    """TLC (WsAccept, with spec/codec Sha1 + Base64) recomputes Sec-WebSocket-Accept for up to `limit` distinct keys
    and compares it with what the server answered and with what the harness wanted. Returns the rejected lines."""
    seen, lines = set(), []
    for r in results:
        h = r["hs"]
        if not h["haskey"] or h["status"] != 101 or h["key"] in seen:
            continue
        seen.add(h["key"])
        lines.append({"kb": list(h["key"].encode("utf-8")), "acc": list(h["accept"].encode("utf-8")),
                      "want": list(h["want"].encode("utf-8")), "key": h["key"]})
        if len(lines) >= limit:
            break
    if corrupt:
        lines = lines[:2]
        lines[-1]["acc"][0] = 66 if lines[-1]["acc"][0] != 66 else 67
    f = os.path.join(vlib.workdir("C11"), "%s-%d.ndjson" % (work_id, os.getpid()))
    vlib.write_lines(f, [{"kb": l["kb"], "acc": l["acc"], "want": l["want"]} for l in lines])
    try:
        t = run_tlc("WsAccept.tla", "WsAccept.cfg", D, workers=1, timeout=1800, heap="4g", work_id=work_id,
                    env={"ACCEPTS": f, "JAVA_TOOL_OPTIONS": "-DTLA-Library=" + os.path.join(SPEC, "codec")})
    finally:
        os.remove(f)
    rej = []
    for pr in t.prints:
        if isinstance(pr, dict) and "rejected" in pr:
            rej = [dict(x, key=lines[x["line"] - 1]["key"], answered=bytes(lines[x["line"] - 1]["acc"]).decode("utf-8", "replace"),
                        tlc="".join(map(chr, x["tlc"]))) for x in pr["rejected"]]
    if t.violation and not rej:
        raise vlib.ToolError("WsAccept failed: %s\n%s" % (t.violation, t.out[-1500:]))
    if name:
        ctx.add_tlc(name % len(lines), t)
    return lines, rej


def corrupt_expectation(c, how):
    c = copy.deepcopy(c)
    e = c["exp"]
    if how == "text" and e["delivered"]:
        e["delivered"][0]["text"] = not e["delivered"][0]["text"]
    elif how == "pong":
        for f in e["out"]:
            if f["op"] == "pong" and f["pay"]:
                f["pay"][0]["b"] = (f["pay"][0]["b"] + 1) % 256
                break
        else:
            return None
    elif how == "noclose" and e["out"] and e["out"][-1]["op"] == "close":
        e["out"] = e["out"][:-1]
    elif how == "closed":
        e["closed"] = not e["closed"]
    elif how == "concat" and any(len(m["pay"]) > 1 for m in e["delivered"]):
        for m in e["delivered"]:
            if len(m["pay"]) > 1:
                m["pay"] = m["pay"][::-1]
                break
    else:
        return None
    return c


def corrupt_trace(line, how):
    line = copy.deepcopy(line)
    ev = line["ev"]
    if how == "text":
        for e in ev:
            if e["e"] == "ret" and e["kind"] == "msg":
                e["text"] = not e["text"]
                return line
    elif how == "pong":
        for f in ev[-1]["frames"]:
            if f["op"] == "pong" and f["pay"]:
                f["pay"][0]["b"] = (f["pay"][0]["b"] + 1) % 256
                return line
    elif how == "accept":
        if ev[0]["haskey"] and ev[0]["status"] == 101:
            ev[0]["accept"] = "A" + ev[0]["accept"][1:] if not ev[0]["accept"].startswith("A") else "B" + ev[0]["accept"][1:]
            return line
    elif how == "none":
        # a `nothing yet` although the whole next frame was visible in the socket before the call
        sent = 0
        for i, e in enumerate(ev):
            if e["e"] == "cframe" and not e["cuts"]:
                n = sum(r["n"] for r in e["pay"])
                sent = 6 + (0 if n < 126 else 2 if n < 65536 else 8) + n
            if e["e"] == "call" and sent and i + 1 < len(ev) and ev[i + 1]["e"] == "ret" and ev[i + 1]["kind"] == "msg" \
                    and e["nb"] and e["avail"] >= sent and not any(x["e"] == "ret" for x in ev[:i]):
                ev.insert(i, {"e": "ret", "kind": "none", "text": False, "pay": []})
                ev.insert(i, {"e": "call", "avail": e["avail"], "nb": e["nb"]})
                return line
    elif how == "dropclose":
        fr = ev[-1]["frames"]
        if fr and fr[-1]["op"] == "close":
            ev[-1]["frames"] = fr[:-1]
            return line
    return None


def replay_one(ctx, ws, path):
    obj = json.load(open(path))
    case = obj.get("case", {})
    c = case.get("case") if isinstance(case.get("case"), dict) else None
    if c is None:
        vlib.log("replay file carries no connection script; running the whole check")
        return None
    c = dict(c)
    c["c"] = 1
    try:
        res = run_harness(ws, ["replay", "1"], [c])
    except HarnessDied as e:
        ctx.sample(brief(c))
        ctx.violation("the process serving this connection was ended by signal %d; script %s" % (-e.rc, json.dumps(brief(c))),
                      {"kind": "ws-case", "case": c, "signal": -e.rc})
        return ctx.finish()
    r = res[0]
    ctx.cov["evaluations"] += 1
    ctx.sample(brief(c))
    t, rej = validate_traces(ctx, "trace validation of the replayed connection", [trace_line(r)])
    ctx.cov["traces_validated_against_impl"] += 1
    if r.get("mismatch") or rej:
        what = "replayed connection disagrees with the spec: %s %s" % (
            "; ".join(r.get("mismatch") or [])[:1200], ("(log rejected at event %s: %s)" % (rej[0]["at"], rej[0]["ev"])) if rej else "")
        judge(ctx, [(trace_line(r), what, {"kind": "ws-case" if "exp" in c else "ws-trace", "case": c, "observed": r["obs"], "ev": r["ev"]})])
    ctx.cov["distinct_nontrivial"] = 1 if nontrivial(c) else 0
    ctx.cov["rule"] = "single connection re-run from a replay file"
    return ctx.finish()


def run(tier, replay):
    ctx = Ctx("C11", tier, "model_checking")
    thorough = tier == "thorough"
    bindir = build_harness(["wsendpoint"])
    ws = os.path.join(bindir, "wsendpoint")
    rnd = random.Random(ctx.seed)
    if replay:
        rc = replay_one(ctx, ws, replay)
        if rc is not None:
            return rc

    # ---- 1. model checking; sensitivity, witnesses and liveness run beside the big run
    pool = concurrent.futures.ThreadPoolExecutor(max_workers=3)
    side = {}
    for cfg, dev, kind, name in SENS:
        side[cfg] = pool.submit(run_tlc, "MC_WsEndpoint.tla", cfg, D, workers=2, timeout=900, heap="2g",
                                work_id="c11-" + cfg[14:-4])
    live_cfg = "MC_WsEndpoint_live_thorough.cfg" if thorough else "MC_WsEndpoint_live.cfg"
    side["live"] = pool.submit(run_tlc, "MC_WsEndpoint.tla", live_cfg, D, workers=2, timeout=1800, heap="4g", work_id="c11-live")

    cases = {}
    side["mixed"] = pool.submit(run_tlc, "MC_WsEndpoint.tla", "MC_WsEndpoint_mixed_%s.cfg" % tier, D, workers=2, coverage=True,
                                timeout=1800, heap="4g", work_id="c11-mixed")
    side["bound"] = pool.submit(run_tlc, "MC_WsEndpoint.tla", "MC_WsEndpoint_bound_%s.cfg" % tier, D, workers=2 if not thorough else 6,
                                timeout=3000, heap="6g", work_id="c11-bound")
    side["burst"] = pool.submit(run_tlc, "MC_WsEndpoint.tla", "MC_WsEndpoint_burst.cfg", D, workers=2, timeout=900, heap="2g",
                                work_id="c11-burst")
    for label, cfg, cover in (("exhaustive check + behaviours", "MC_WsEndpoint_%s.cfg" % tier, True),
                              ("all split classes, 147 keys (every length 0..130), 7 request spellings + behaviours",
                               "Gen_WsEndpoint_%s.cfg" % tier, False),
                              ("handlers mixing the calls: empty poll, push of 3 B / 6 MiB, then the mode + behaviours",
                               "MC_WsEndpoint_mixed_%s.cfg" % tier, None),
                              ("echo at the encoder's length boundaries (0..2^20, fragment sums), Close bodies + behaviours",
                               "MC_WsEndpoint_bound_%s.cfg" % tier, "bound"),
                              ("bursts of 2 MiB echoes to a late reader + behaviours", "MC_WsEndpoint_burst.cfg", "burst")):
        if cover is None:
            r = side["mixed"].result()
        elif cover in ("bound", "burst"):
            r = side[cover].result()
            cover = False
        else:
            r = run_tlc("MC_WsEndpoint.tla", cfg, D, workers=8, coverage=cover, timeout=3300, heap="6g", work_id="c11-mc")
        ctx.add_tlc("%s (%s, Dev={})" % (label, cfg), r)
        ctx.require_tlc_ok(cfg, r)
        if r.violation:
            return ctx.finish()
        if cover:
            ctx.require_cover(cfg, r, ACTIONS)
        if cover is None:
            ctx.require_cover(cfg, r, ACTIONS + ["A_Push"])
        raw = sum(1 for l in r.out.splitlines() if l.startswith('"{'))
        if raw != len(r.prints) or not r.prints:
            raise vlib.ToolError("%s: %d behaviour lines printed, %d decoded" % (cfg, raw, len(r.prints)))
        for c in r.prints:
            k = case_key(c)
            if k in cases:
                if cases[k]["exp"] != c["exp"] and c["exp"] not in cases[k].get("exp_alt", []):
                    # one script, two outcomes: only where the spec leaves the outcome open (request spelled in another case)
                    eof_either = (c["mode"] == "nonblocking" and c["end"] == "shut"
                                  and dict(c["exp"], failed=None) == dict(cases[k]["exp"], failed=None))
                    if c["hsv"] == "canon" and not eof_either:      # leniencies: request spelling, EofPollEither
                        raise vlib.ToolError("the spec predicts two different outcomes for one script: %s" % k[:400])
                    cases[k].setdefault("exp_alt", []).append(c["exp"])
                continue
            cases[k] = c
    for cfg, dev, kind, name in SENS:
        r = side[cfg].result()
        ctx.add_tlc("sensitivity %s: must violate %s" % (dev, name), r)
        if r.violation != kind or (r.violated_name not in (None, name)):
            raise vlib.ToolError("model lost sensitivity: %s (%s) reports %s %s instead of a violation of %s"
                                 % (dev, cfg, r.violation, r.violated_name, name))
    r = side["live"].result()
    ctx.add_tlc("liveness CloseAnswered, AllDelivered under fairness (%s)" % live_cfg, r)
    ctx.require_tlc_ok(live_cfg, r)
    pool.shutdown()

    # a request spelled in another letter case may also be left un-upgraded, however the client goes on afterwards
    refused = {(c["key"], c["hsv"]): c["exp"] for c in cases.values() if c["exp"]["status"] != 101}
    for c in cases.values():
        alt = refused.get((c["key"], c["hsv"]))
        if c["hsv"] != "canon" and c["exp"]["status"] == 101 and alt is not None and alt not in c.get("exp_alt", []):
            c.setdefault("exp_alt", []).append(alt)

    # ---- 2. replay of every behaviour on the real endpoint
    order = sorted(cases)
    clist = []
    for i, k in enumerate(order):
        c = cases[k]
        c["c"] = i + 1
        c["gap"] = rnd.choice([0, 300]) if not thorough else rnd.choice([0, 300, 1200])
        # a client that starts reading late whenever the server has several MiB to write (the writes must still complete)
        if sum(f["len"] for f in c["exp"]["out"]) >= (4 << 20):
            c["late"] = 300
        clist.append(c)
    step = 8
    try:
        res = run_harness(ws, ["replay", "32", str(step), str(ctx.seed % step)], clist)
    except HarnessDied as e:
        return harness_died(ctx, ws, e)
    if len(res) != len(clist):
        raise vlib.ToolError("harness ran %d of %d behaviours" % (len(res), len(clist)))
    skipped = [r for r in res if r.get("skipped")]
    res = [r for r in res if not r.get("skipped")]
    by_c = {r["c"]: r for r in res}
    bad = [r for r in res if r["mismatch"]]
    if skipped and not bad:
        raise vlib.ToolError("harness skipped %d behaviours without reporting a hang" % len(skipped))
    ctx.cov["evaluations"] += len(res)
    nt = sum(1 for c in clist if nontrivial(c))
    ctx.add_part("behaviour replay", behaviours=len(clist), nontrivial=nt, mismatches=len(bad),
                 nonblocking=sum(1 for c in clist if c["mode"] == "nonblocking"),
                 skipped_after_repeated_hangs=len(skipped),
                 request_spelling_variants=sum(1 for c in clist if c["hsv"] != "canon"),
                 distinct_keys=len(set(c["key"] for c in clist)),
                 echoed_frame_lengths=sorted(set(f["len"] for c in clist if c["echo"] for f in c["exp"]["out"] if f["op"] in ("text", "binary")))[:40],
                 late_reader_connections=sum(1 for c in clist if c.get("late")),
                 mixed_poll_then_receive=sum(1 for c in clist if c.get("pre") == "poll"),
                 mixed_poll_then_push=sum(1 for c in clist if c.get("pre") == "pollpush"),
                 mixed_poll_then_push_6MiB_to_slow_reader=sum(1 for c in clist if c.get("pre") == "pollpush" and sum(x["n"] for x in c["push"]) > (1 << 20)),
                 nothing_yet_results=sum(r["nones"] for r in res),
                 connections_with_a_call_entered_on_a_partial_header=sum(1 for r in res if r["partial"]))
    nv, nd = judge(ctx, [(trace_line(r), "behaviour %s: %s" % (json.dumps(brief(clist[r["c"] - 1])), "; ".join(r["mismatch"])),
                          {"kind": "ws-case", "case": clist[r["c"] - 1], "observed": r["obs"], "ev": r["ev"]}) for r in bad[:3000]])
    for r in bad[3000:]:
        ctx.violations.append(("(further mismatching behaviour)", {"kind": "ws-case", "case": clist[r["c"] - 1]}))
    ctx.cov["parts"]["behaviour replay"]["mismatches_judged_violation"] = nv + max(0, len(bad) - 3000)
    ctx.cov["parts"]["behaviour replay"]["mismatches_judged_drift"] = nd
    for c in (clist[len(clist) // 3], clist[len(clist) // 2], clist[-1]):
        ctx.sample(brief(c))

    # ---- 3. random scripts; logs validated by TLC
    n = 4000 if thorough else 400
    try:
        rres = run_harness(ws, ["random", str(n), "12", str(70 * 1024), "16"])
    except HarnessDied as e:
        return harness_died(ctx, ws, e)
    if len(rres) != n:
        raise vlib.ToolError("harness ran %d of %d random connections" % (len(rres), n))
    rres = [r for r in rres if not r.get("skipped")]      # after repeated hangs the rest is skipped; the hangs are rejected below
    n = len(rres)
    ctx.cov["evaluations"] += n
    rcases = {}
    for r in rres:
        rcases[case_key(r["case"])] = r["case"]
    rnt = sum(1 for c in rcases.values() if nontrivial(c))
    for r in rres[:3]:
        ctx.sample(brief(r["case"]))
    sample = [r for r in res if "ev" in r and not r["mismatch"]]
    lines = [trace_line(r) for r in sample] + [trace_line(r, RANDOM_BASE + r["c"]) for r in rres]
    # (the accept values are recomputed by TLC at the same time, see 3b)
    apool = concurrent.futures.ThreadPoolExecutor(max_workers=1)
    afut = apool.submit(validate_accepts, ctx, "Sec-WebSocket-Accept recomputed by TLC (Sha1, Base64) for %d distinct keys",
                        [r for r in res if not r["mismatch"]] + rres, 500 if thorough else 170)
    t, rej = validate_traces(ctx, "trace validation: %d replayed + %d random connections" % (len(sample), n), lines)
    ctx.cov["traces_validated_against_impl"] += len(lines) - len(rej)
    ctx.add_part("trace validation", traces=len(lines), rejected=len(rej), random=n, random_distinct=len(rcases),
                 random_nontrivial=rnt, events=sum(len(l["ev"]) for l in lines),
                 max_frames=max(len(r["case"]["frames"]) for r in rres),
                 max_payload=max([sum(x["n"] for x in f["pay"]) for r in rres for f in r["case"]["frames"]] or [0]))
    rr = {RANDOM_BASE + r["c"]: r for r in rres}
    jitems = []
    for x in rej:
        r = rr.get(x["c"]) or by_c.get(x["c"])
        what = "log rejected by Trace_WsEndpoint at event %s (%s); script %s" % (
            x["at"], str(x["ev"])[:600], json.dumps(brief(r["case"])) if r else "?")
        obj = {"kind": "ws-trace", "case": r["case"] if r else None, "rejected": x, "ev": r["ev"] if r else None}
        if r is None:
            ctx.violation(what, obj)
        else:
            jitems.append((trace_line(r, x["c"]), what, obj))
    tv, td = judge(ctx, jitems)
    ctx.cov["parts"]["trace validation"]["rejected_judged_violation"] = tv
    ctx.cov["parts"]["trace validation"]["rejected_judged_drift"] = td

    # ---- 3b. the accept values, recomputed by TLC from the RFC definitions of SHA-1 and Base64
    alines, arej = afut.result()
    apool.shutdown()
    ctx.add_part("handshake accept values", keys=len(alines), longest_key=max(len(l["kb"]) for l in alines),
                 empty_key=any(not l["kb"] for l in alines), disagree=len(arej))
    for x in arej[:5]:
        ctx.violation("Sec-WebSocket-Accept for key %r: server answered %r, Base64(SHA-1(key+GUID)) is %r" % (
            x["key"][:80], x["answered"], x["tlc"]), {"kind": "ws-accept", "rejected": x})

    # ---- 4. binding self-test (only meaningful when the run itself is clean)
    if not bad and not rej and not arej:
        wanted = ["text", "pong", "noclose", "closed", "concat"]
        corrupted = []
        for how in wanted:
            for c in clist[:: max(1, len(clist) // 997)]:
                cc = corrupt_expectation(c, how)
                if cc is not None:
                    cc["c"] = len(corrupted) + 1
                    corrupted.append(cc)
                    break
        if len(corrupted) < 4:
            raise vlib.ToolError("self-test: could not build corrupted expectations")
        cres = run_harness(ws, ["replay", "4"], corrupted)
        missed = [r["c"] for r in cres if not r["mismatch"]]
        if missed or len(cres) != len(corrupted):
            raise vlib.ToolError("binding self-test: the harness accepted corrupted expectation(s) %s" % missed)
        good = [l for l in lines]
        bad_lines, want_rej = [], set()
        for how in ("text", "pong", "accept", "none", "dropclose"):
            for l in good:
                if l["c"] in want_rej:
                    continue
                cl = corrupt_trace(l, how)
                if cl is not None:
                    bad_lines.append(cl)
                    want_rej.add(l["c"])
                    break
        if len(bad_lines) < 4:
            raise vlib.ToolError("self-test: could not build corrupted logs")
        ok_lines = [l for l in good if l["c"] not in want_rej][:20]
        t2, rej2 = validate_traces(None, None, bad_lines + ok_lines, work_id="c11-selftest")
        got = set(x["c"] for x in rej2)
        if got != want_rej:
            raise vlib.ToolError("binding self-test: TLC rejected %s, corrupted were %s" % (sorted(got), sorted(want_rej)))
        _, arej2 = validate_accepts(None, None, rres, 2, work_id="c11-accept-selftest", corrupt=True)
        if [x["line"] for x in arej2] != [2]:
            raise vlib.ToolError("binding self-test: TLC did not reject exactly the corrupted accept value: %s" % arej2)
        ctx.add_part("binding self-test", corrupted_expectations_flagged=len(corrupted), corrupted_logs_rejected=len(want_rej),
                     untouched_logs_accepted=len(ok_lines), corrupted_accept_rejected=1)

    ctx.cov["distinct_nontrivial"] = nt + rnt
    ctx.cov["rule"] = ("every finished behaviour of the bounded TLC model (distinct by key, mode, echo, frames with cuts, bytes "
                       "written, ending) is one connection on loopback, plus seeded random scripts; non-trivial = distinct "
                       "scripts containing a control frame, a fragmented message or a frame written in several pieces")
    ctx.cov["exhaustive"] = True
    ctx.assumptions += [
        "the reference client's frame parser (harness) reports header fields and payload bytes of the server's stream faithfully; well-formedness and equality are judged by the spec",
        "Sec-WebSocket-Accept: for every model key and a sample of the random keys TLC recomputes Base64(SHA-1(key+GUID)) with spec/codec/{Sha1,Base64}.tla (WsAccept.tla) and compares it with the server's answer and with the harness' own straightforward SHA-1/Base64; for the remaining random keys the wanted value is the harness' implementation, which that comparison cross-checks",
        "FIONREAD before a receive call is a lower bound on what had arrived; TIOCOUTQ = 0 on the client means everything written has arrived",
        "the payload of a Close reply is not prescribed by the property: any well-formed Close is accepted",
        "leniencies where the statement is silent: a request spelled in another letter case may or may not be upgraded; a poll at the end of the stream with nothing pending may report `nothing yet` or an error (EofPollEither); the Debug text of errors, response headers other than the status code and Sec-WebSocket-Accept, and the reason phrase are not looked at",
        "two-level judging: a connection the strict comparison rejects (frame-by-frame equality with today's one-frame-per-message output, clean end of stream) is re-judged by TLC at message level (Trace_WsEndpointProp.cfg); only a rejection there is a VIOLATION, otherwise it is reported as SPEC-DRIFT",
        "client scripts are conforming (RFC 6455 5.4/5.5): fragments in order, control frames final and <= 125 bytes; text payloads are ASCII",
        "delivery is folded into the server's reads (every read observes some amount between what was observed before and what was written), which has the same behaviours as an explicit network process because every guard is a threshold on the amount arrived",
    ]
    return ctx.finish()
