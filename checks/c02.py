"""C02 - request parsing is faithful, segmentation-independent and round-trips.

Specification: spec/http/HttpReqSyntax.tla (requests as syntax trees and as byte sequences, Render, the
denotation Denote written from RFC 7230 / 6265 and the X-Forwarded-For convention, Norm, request equality
ReqEq) and spec/http/HttpReq.tla (bounded grammar built as states, a model of Request::from_stream under
every read segmentation, the serialiser with any stable field order, named deviations).

1. TLC, Dev = {}:  the lemmas Denote(Render(r)) = Norm(r) and Denote(Render(Inject(Denote(b)))) = Denote(b)
   on every request of the bounded grammar (sweep A: all start lines x bodies x Content-Length spellings x few
   fields, and the scale family - 19..100 fields over a pool of 3 / 11 names in three spellings, bodies of
   255..257 bytes; sweep C (thorough): pairs over the whole 33-entry catalogue; sweep B: field
   lists up to length 2 / 3 from the catalogue); the parser model returns Denote(wire) and consumes exactly
   the request under EVERY segmentation (BufReader capacity 8192 and 3), always terminates, and
   serialise-then-parse yields an equal request for every stable field order.
2. TLC, one deviation each (XffUntrimmed, UnstableHeaderSort, UnicodeTrimStart - the three repaired defects -
   and eight plausible regressions): the named invariant MUST be violated (the model is not vacuous).
3. spec -> code: TLC prints every request of the grammar (bytes, peer, expected abstract request); the
   harness parses each under all read plans (all-at-once, one byte per read, every single split point,
   fixed 2/3/7, seeded random; the tokio twin additionally with Poll::Pending before segments) with the
   sync and the tokio parser, compares field by field, serialises, parses again and compares again.
4. code -> spec: a Rust-side generator (0..100 fields with one name 2..10 times and counts around 20 / 32, long
   values, one representative per Unicode class at the start / inside / at the end of values, paths, queries and
   cookie names / values, degenerate Cookie pieces, X-Forwarded-For lists of up to 8 entries with empty ones and
   non-ASCII digits, bodies up to 64 KiB with lengths around 2^8, 2^13 and 2^16, zero-padded Content-Length) is parsed / serialised / re-parsed by the real code and logged; TLC (Trace_HttpReq) computes
   the denotation of each logged head with the same operators and accepts or rejects every record.
5. binding self-test: one corrupted vector must be reported by the harness, one corrupted log record must be
   rejected by TLC."""
import concurrent.futures
import copy
import json
import os
import re
import shutil

import vlib
from vlib import Ctx, run_tlc, build_harness, run_bin, parse_jsonl, SPEC

D = os.path.join(SPEC, "http")

BUILD_ACTIONS = ["Build_AddHeader", "Build_Finish"]
MACHINE_ACTIONS = ["P_ReadFirst", "Buf_Fill", "P_LinePartial", "P_StartLine", "P_HeaderLine", "P_EndOfHeaders",
                   "P_BodyFromBuf", "Ser_Serialise", "Ser_Reparse"]
SENSITIVITY = [  # (deviation, invariant that must be violated)
    ("XffUntrimmed", "Inv_Faithful"),
    ("UnstableHeaderSort", "Inv_RoundTrip"),
    ("UnicodeTrimStart", "Inv_Faithful"),
    ("BodySingleRead", "Inv_Faithful"),
    ("SplitAllColons", "Inv_Faithful"),
    ("ValueLowercased", "Inv_Faithful"),
    ("XffFirstIsOrigin", "Inv_Faithful"),
    ("LineNoAccumulate", "Inv_NoError"),
    ("NameCaseSensitive", "Inv_Faithful"),
    ("CookieLastEq", "Inv_Faithful"),
    ("XffStopAtGarbage", "Inv_Faithful"),
    ("ZeroHdrExtraCrlf", "Inv_SerialExact"),   # auxiliary invariant, not part of C02: documents the extra CRLF
]


def _actions_from_dump(path):
    """Action name -> number of edges carrying it, from a `-dump dot,actionlabels` file (removed afterwards)."""
    cnt = {}
    with open(path, errors="replace") as f:
        for line in f:
            if "->" in line:
                m = re.search(r'label="(\w+)"', line)
                if m:
                    cnt[m.group(1)] = cnt.get(m.group(1), 0) + 1
    os.remove(path)
    if os.path.exists(path[:-4] + "_liveness.dot"):      # written next to it for configurations with a PROPERTY
        os.remove(path[:-4] + "_liveness.dot")
    return {k: (v, v) for k, v in cnt.items()}


def _jtmp():
    """TLC unpacks its standard modules into java.io.tmpdir: keep that under .work/C02, not /tmp."""
    d = os.path.join(vlib.workdir("C02"), "jtmp")
    os.makedirs(d, exist_ok=True)
    return {"_JAVA_OPTIONS": "-Djava.io.tmpdir=" + d}


DRIFT_RECORDS = []   # indices of the records of the last validated log that Trace_HttpReq judged "drift"
HUNG = set()      # runtimes whose parser did not return (watchdog of the harness)


def _tlc(cfg, **kw):
    kw.setdefault("work_id", "c02")
    kw.setdefault("timeout", 2400)
    kw["env"] = dict(kw.get("env") or {}, **_jtmp())
    return run_tlc("MC_HttpReq.tla", cfg, D, **kw)


def _replay_vectors(ctx, bins, lines, label, account=True):
    """Feed vector lines to the sync and the tokio harness; returns the two summaries."""
    data = "\n".join(json.dumps(x, separators=(",", ":")) for x in lines) + "\n"
    out = []
    for rt, path in bins:
        if rt in HUNG:      # this parser already failed to return once: do not wait for it again
            out.append({"cases": 0, "parses": 0, "roundtrips": 0, "nontrivial": 0, "mismatches": 1, "samples": [], "first": []})
            continue
        p = run_bin(path, ["replay"], stdin_data=data, timeout=3000)
        res = [x for x in parse_jsonl(p.stdout) if x.get("summary")]
        if p.returncode < 0 and not res:
            # killed by a signal inside the code under test (abort, stack overflow): a finding, not a tool failure
            ctx.violation("%s parser: the harness process was killed by signal %d while parsing the vectors of %s" % (rt, -p.returncode, label),
                          {"kind": "httpreq-crash", "runtime": rt, "label": label, "stderr": p.stderr[-1500:]})
            out.append({"cases": 0, "parses": 0, "roundtrips": 0, "nontrivial": 0, "mismatches": 1, "samples": [], "first": []})
            continue
        if p.returncode != 0 or not res:
            raise vlib.ToolError("httpreq replay (%s) failed rc=%s: %s" % (rt, p.returncode, p.stderr[-2000:]))
        s = res[0]
        if s.get("hang"):
            # the parser never returned: a finding about the code, not a tool failure
            HUNG.add(rt)
            vec = s.get("vector") or {}
            ctx.violation(s["hang"], {"kind": "httpreq-vectors", "runtime": rt, "label": label, "what": s["hang"],
                                      "first": [{"b": vec.get("b"), "peer": vec.get("peer"), "expected": vec.get("exp")}]})
            out.append({"cases": 0, "parses": 0, "roundtrips": 0, "nontrivial": 0, "mismatches": 1, "samples": [], "first": []})
            continue
        if s["cases"] != len(lines):
            raise vlib.ToolError("harness (%s) consumed %d of %d vectors" % (rt, s["cases"], len(lines)))
        out.append(s)
        if not account:
            continue
        ctx.cov["evaluations"] += s["parses"]
        ctx.cov["traces_validated_against_impl"] += s["cases"]
        ctx.add_part("vectors %s, %s parser" % (label, rt), cases=s["cases"], parses=s["parses"], roundtrips=s["roundtrips"],
                     read_plans_max_per_case=s["plans_max"], mismatches=s["mismatches"],
                     serialised_with_unread_trailing_bytes=s["trailing_cases"], trailing_example=s["trailing_example"],
                     requests_with_a_lenient_observable=s.get("lenient_cases", 0), drifts=s.get("drifts", 0))
        if s.get("drifts"):
            # differences confined to observables the statement leaves free for that request (HttpReqSyntax, Lenient),
            # or beyond it (which value `get` picks, how many bytes were requested): reported, never a violation
            f = s["drift_first"]
            ctx.drift("C02 lenient observables", "%s parser: %d parse(s) differ from the specification only where the property leaves "
                      "freedom; first: %s on %s (differs: %s, lenient: %s)" % (rt, s["drifts"], f[0]["what"], f[0]["wire"][:300],
                                                                              ",".join(f[0]["differs"]), ",".join(f[0]["lenient"])),
                      {"kind": "httpreq-drift", "runtime": rt, "label": label, "first": f})
        for x in s["samples"][:3] if rt == "threaded" else s["samples"][:1]:
            ctx.sample(x)
        if s["mismatches"]:
            f = s["first"]
            ctx.violation("%s parser: %d parse(s) disagree with the specification; first: %s under plan %s on %s (differs: %s)" % (
                rt, s["mismatches"], f[0]["what"], f[0]["plan"], f[0]["wire"], ",".join(f[0]["differs"])),
                {"kind": "httpreq-vectors", "runtime": rt, "label": label, "first": f})
    return out


def _validate_trace(ctx, path, name, n, account=True):
    t = run_tlc("Trace_HttpReq.tla", "Trace_HttpReq.cfg", D, workers=1, env=dict({"TRACE": path}, **_jtmp()), timeout=2400,
                work_id="c02", deque=True, heap="4g")
    if account:
        ctx.add_tlc(name, t)
    DRIFT_RECORDS[:] = []
    rejected = []
    for pr in t.prints:
        if isinstance(pr, dict) and "rejected" in pr:
            rejected = pr["rejected"]
            DRIFT_RECORDS[:] = pr.get("drift", [])
    if t.violation:
        if t.violation != "invariant" or not rejected:
            raise vlib.ToolError("Trace_HttpReq failed in an unexpected way: %s\n%s" % (t.violation, t.out[-1500:]))
    elif t.distinct != n + 1:
        raise vlib.ToolError("Trace_HttpReq consumed %d of %d records" % (t.distinct - 1, n))
    return rejected


def _short(rec):
    """A log record reduced to something a reader can look at (head as text, values cut)."""
    return {"runtime": rec["runtime"], "head": "".join(rec["head"])[:1500], "body": rec["body"], "peer": "".join(rec["peer"]["ip"]),
            "agree": rec["agree"], "errors": rec["errors"], "fields": rec["got"]["nh"],
            "origin": "".join(rec["got"]["origin"]), "proxies": ["".join(p) for p in rec["got"]["proxies"]]}


def _replay_file(ctx, bins, replay):
    obj = json.load(open(replay))
    case = obj.get("case", {})
    if case.get("kind") == "httpreq-vectors":
        lines = [{"b": f["b"], "peer": f["peer"], "exp": f["expected"]} for f in case["first"]]
        _replay_vectors(ctx, bins, lines, "replay of %s" % os.path.basename(replay))
    elif case.get("kind") == "httpreq-trace":
        tr = os.path.join(vlib.workdir("C02"), "replay.ndjson")
        vlib.write_lines(tr, case["records"])
        rej = _validate_trace(ctx, tr, "replayed log records", len(case["records"]))
        os.remove(tr)
        ctx.cov["evaluations"] += len(case["records"])
        ctx.cov["traces_validated_against_impl"] += len(case["records"])
        if rej:
            ctx.violation("replayed log records rejected by Trace_HttpReq: %s" % rej,
                          {"kind": "httpreq-trace", "records": [case["records"][i - 1] for i in rej]})
    else:
        raise vlib.ToolError("replay file %s is not a C02 case" % replay)
    ctx.cov["states"] = max(ctx.cov["states"], 1)
    ctx.cov["transitions"] = max(ctx.cov["transitions"], 1)
    if not ctx.cov["samples"]:
        ctx.sample({"replayed": os.path.basename(replay)})
    ctx.cov["rule"] = "replay of a stored failing case"
    shutil.rmtree(os.path.join(vlib.workdir("C02"), "jtmp"), ignore_errors=True)
    return ctx.finish()


def run(tier, replay):
    ctx = Ctx("C02", tier, "model_checking")
    thorough = tier == "thorough"
    bins = [("threaded", os.path.join(build_harness(["httpreq"]), "httpreq")),
            ("tokio", os.path.join(build_harness(["httpreq"], tokio=True), "httpreq"))]
    if replay:
        return _replay_file(ctx, bins, replay)
    T = "thorough" if thorough else "quick"

    # 1. model checking, Dev = {} ------------------------------------------------------------------
    # (`-coverage 1` cannot be used on this module: TLC's cost-model construction does not terminate on the
    #  nested recursive operators of HttpReqSyntax.  The vacuity guard is done on the dumped state graph of
    #  the two small machine configurations instead - every action must label at least one edge - and, for
    #  the lemma sweeps, by requiring that the generation run prints one vector per built request.)
    lemma = {}
    sweeps = ("A", "B", "C") if thorough else ("A", "B")
    for sweep in sweeps:
        r = _tlc("MC_HttpReq_%s%s.cfg" % (T, sweep), workers=8, heap="4g")
        ctx.add_tlc("lemmas on the bounded grammar, sweep %s, Dev={}" % sweep, r)
        ctx.require_tlc_ok("MC_HttpReq_%s%s" % (T, sweep), r)
        lemma[sweep] = r.distinct
    seg = [("MC_HttpReq_seg_quick.cfg", None), ("MC_HttpReq_seg_cap3.cfg", MACHINE_ACTIONS + ["P_BodyDirect"]),
           ("MC_HttpReq_seg_live.cfg", MACHINE_ACTIONS + ["P_BodyDirect"])]
    if thorough:
        seg.append(("MC_HttpReq_seg_thorough.cfg", None))
    for cfg, acts in seg:
        dump = os.path.join(vlib.workdir("C02"), cfg[:-4]) if acts else None
        r = _tlc(cfg, workers=8, heap="6g" if "thorough" in cfg else "3g", dump=dump)
        if dump:
            r.coverage = _actions_from_dump(dump + ".dot")
        ctx.add_tlc("parser + serialiser model under every segmentation (%s), Dev={}" % cfg, r)
        ctx.require_tlc_ok(cfg, r)
        if acts:
            ctx.require_cover(cfg, r, BUILD_ACTIONS + acts)
            if "P_Eof" in r.coverage:
                raise vlib.ToolError("%s: the model ran out of bytes on a well-formed request" % cfg)

    # 2. sensitivity: every deviation must break its invariant --------------------------------------
    def sens(item):
        dev, inv = item
        return dev, inv, _tlc("MC_HttpReq_dev_%s.cfg" % dev, workers=2, heap="2g", timeout=900, work_id="c02-" + dev)
    with concurrent.futures.ThreadPoolExecutor(max_workers=6) as ex:
        # quick runs the repaired defects and one plausible regression per mechanism, thorough runs all of them
        quick_devs = ("XffUntrimmed", "UnstableHeaderSort", "UnicodeTrimStart", "BodySingleRead", "NameCaseSensitive",
                      "CookieLastEq", "XffStopAtGarbage", "ZeroHdrExtraCrlf")
        for dev, inv, r in ex.map(sens, [x for x in SENSITIVITY if thorough or x[0] in quick_devs]):
            ctx.add_tlc("sensitivity: Dev={%s} must violate %s" % (dev, inv), r)
            if r.violation != "invariant" or r.violated_name != inv:
                raise vlib.ToolError("model lost sensitivity: Dev={%s} gives %s %s instead of a violation of %s" % (
                    dev, r.violation, r.violated_name, inv))

    # 3. vectors from TLC replayed on both parsers --------------------------------------------------
    nontrivial = 0
    keep = []
    for sweep in sweeps:
        g = _tlc("Gen_HttpReq_%s%s.cfg" % (T, sweep), workers=4, heap="4g")
        if g.violation:
            raise vlib.ToolError("generation failed: %s" % g.out[-2000:])
        ctx.add_tlc("vector generation, sweep %s" % sweep, g)
        lines = [x for x in g.prints if isinstance(x, dict) and "b" in x]
        if not lines or g.distinct != lemma[sweep]:
            raise vlib.ToolError("generation explored %d states and printed %d vectors, the lemma run explored %d states" % (
                g.distinct, len(lines), lemma[sweep]))
        if len(set(x["b"] + "|" + x["peer"]["ip"] for x in lines)) != len(lines):
            raise vlib.ToolError("generation printed duplicate vectors")
        sums = _replay_vectors(ctx, bins, lines, "sweep " + sweep)
        nontrivial += sums[0]["nontrivial"]
        keep += lines[:1] + lines[len(lines) // 2:len(lines) // 2 + 1]

    # 4. random / large requests recorded from the real code, validated by TLC ----------------------
    n_rand = {"threaded": 1500 if thorough else 240, "tokio": 800 if thorough else 120}
    recs = []
    for rt, path in bins:
        if rt in HUNG:
            continue
        p = run_bin(path, ["random", str(n_rand[rt]), "65536"], timeout=1800)
        got = parse_jsonl(p.stdout)
        hung = [x for x in got if x.get("hang")]
        if hung:
            HUNG.add(rt)
            ctx.violation(hung[0]["hang"], {"kind": "httpreq-hang", "runtime": rt, "what": hung[0]["hang"]})
            continue
        if p.returncode < 0:
            ctx.violation("%s parser: the harness process was killed by signal %d while parsing generated requests" % (rt, -p.returncode),
                          {"kind": "httpreq-crash", "runtime": rt, "stderr": p.stderr[-1500:]})
            continue
        if p.returncode != 0 or len(got) != n_rand[rt]:
            raise vlib.ToolError("httpreq random (%s) failed rc=%s n=%d: %s" % (rt, p.returncode, len(got), p.stderr[-1500:]))
        recs += got
    rej = []
    big = 0
    if recs:
        tr = os.path.join(vlib.workdir("C02"), "random.ndjson")
        vlib.write_lines(tr, recs)
        rej = _validate_trace(ctx, tr, "trace validation of %d recorded requests" % len(recs), len(recs))
        os.remove(tr)
        ctx.cov["evaluations"] += sum(r["plans"] + 2 for r in recs)
        ctx.cov["traces_validated_against_impl"] += len(recs)
        big = sum(1 for r in recs if r["got"]["nh"] > 20 or r["body"][0] >= 8192)
        ctx.add_part("recorded requests validated by TLC", records=len(recs), with_more_than_20_fields=sum(1 for r in recs if r["got"]["nh"] > 20),
                     with_body_of_8KiB_or_more=sum(1 for r in recs if r["body"][0] >= 8192),
                     max_head_bytes=max(len(r["head"]) for r in recs), max_body_bytes=max(r["body"][0] for r in recs), rejected=len(rej))
        ctx.sample({"recorded": _short(recs[0])}, limit=12)
        if DRIFT_RECORDS:
            ctx.drift("C02 lenient observables", "%d recorded request(s) differ from the specification only in an observable that is lenient "
                      "for them; first: %s" % (len(DRIFT_RECORDS), json.dumps(_short(recs[DRIFT_RECORDS[0] - 1]))[:600]),
                      {"kind": "httpreq-trace-drift", "records": [recs[i - 1] for i in DRIFT_RECORDS[:3]]})
        if rej:
            ctx.violation("%d recorded request(s) are not explained by the specification (parse, segmentation or round trip); first: %s" % (
                len(rej), json.dumps(_short(recs[rej[0] - 1]))[:900]),
                {"kind": "httpreq-trace", "records": [recs[i - 1] for i in rej[:5]]})

    # 5. the binding itself: a corrupted vector and a corrupted log record must be caught ------------
    # (only after a clean validation: on a tree that already fails, the verdict is the violation, not the self-test)
    if not ctx.violations:
        bad = copy.deepcopy(keep[-1])
        bad["exp"]["v"] = bad["exp"]["v"] + "x"
        s = _replay_vectors(ctx, bins[:1], [bad], "self-test", account=False)[0]
        if s["mismatches"] == 0:
            raise vlib.ToolError("self-test: the harness accepted a vector whose expected version was altered")
        ok_rec = next(r for r in recs if r["got"]["ok"] and r["got"]["nh"] > 0 and not (rej and recs.index(r) + 1 in rej))
        bad_rec = copy.deepcopy(ok_rec)
        bad_rec["got"]["h"][0][1][0] = bad_rec["got"]["h"][0][1][0] + ["!"]
        tr = os.path.join(vlib.workdir("C02"), "selftest.ndjson")
        vlib.write_lines(tr, [ok_rec, bad_rec])
        rej2 = _validate_trace(ctx, tr, "self-test", 2, account=False)
        os.remove(tr)
        if rej2 != [2]:
            raise vlib.ToolError("self-test: Trace_HttpReq did not single out the corrupted record (rejected %s)" % rej2)
        ctx.add_part("binding self-test", corrupted_vector_reported=True, corrupted_log_record_rejected=True)

    ctx.cov["distinct_nontrivial"] = nontrivial + big
    ctx.cov["rule"] = ("TLC enumerates the bounded grammar (start lines x bodies x field lists from a 33-entry catalogue, plus the scale family of 19..100 fields); each request is "
                       "parsed by both parsers under every read plan and round-tripped. Non-trivial = distinct generated requests with a repeated "
                       "field name, a Cookie field, an X-Forwarded-For list, a body or a query, plus recorded requests with more than 20 fields "
                       "or a body of at least 8 KiB")
    ctx.cov["exhaustive"] = True
    ctx.assumptions += [
        "Denote / Norm / ReqEq in spec/http/HttpReqSyntax.tla are the reading of the property (DESIGN 5a): header names compare "
        "case-insensitively, leading SP/HTAB is not part of a value, None and Some(empty) bodies are the same body",
        "addresses are compared as text; only canonical spellings are generated",
        "the harness projection (observe / diff in httpreq_common/mod.rs) and fnv64 for [len, hash] payloads are trusted",
        "a serialised request without fields ends in one extra CRLF (left unread by the second parse); request equality, which is what "
        "C02 states, is unaffected - reported in coverage.parts, modelled as ZeroHdrExtraCrlf / Inv_SerialExact",
    ]
    shutil.rmtree(os.path.join(vlib.workdir("C02"), "jtmp"), ignore_errors=True)
    return ctx.finish()
