"""C20 - a shutdown signal always ends `run`, promptly, and frees the port (threaded and tokio runtimes).

1. TLC checks Shutdown.tla (accept loop + run thread + abstract pool + kernel backlog + clients; both runtimes,
   every pool size, Dev = {}): Live_RunReturns / Live_Accepts under fairness of the accept loop and the run
   thread ONLY, Inv_PortFree, Inv_ServingBefore, Inv_NoTruncation (+ structural invariants); with every process
   fair, Live_Drains / Live_Answered (the pool keeps draining after run returned).  Each named deviation must
   violate its property (sensitivity) and each race of DESIGN C20 must be reachable (negated invariant violated).
2. spec -> code (method D): TLC -simulate prints behaviours of the model; both harnesses replay them on the real
   App::run step by step through the hook gates (a step the model allows that does not happen = hang).
3. code -> spec (method C): the event logs of (a) those replays, (b) the scripted gated races, (c) seeded random
   scenarios of the property's traffic-state matrix (0..16 connections x 8 states, pools 1..8 incl. saturated,
   signal before/between/concurrent/after, binds 127.0.0.1 / 0.0.0.0 / [::]) are validated by TLC with
   Trace_Shutdown.tla.  "run did not return", "port not re-bindable", "response truncated / missing" all surface
   as records the spec cannot explain; Python only orchestrates and reports what TLC rejected.
   (d) "accept fails while the signal arrives" (races group, both runtimes): the harness fills its own descriptor table
   (lowered RLIMIT_NOFILE + duplicates of /dev/null), so accept() and the wake-up connect fail with EMFILE, confirms it
   (Accept_Return hook without a peer / own probe), signals; the table is released when run has returned (before the
   re-bind) or when the wait was given up.  Not provoked = reduced coverage (evidence part), never a violation.
4. self-test: corrupted logs must be rejected."""
import concurrent.futures as cf
import copy
import json
import os
import re
import threading
import time
import vlib
from vlib import Ctx, run_tlc, build_harness, parse_jsonl, SPEC

D = os.path.join(SPEC, "shutdown")
ACTIONS = ["Sig_Send", "Sig_Again", "Cli_Connect", "Cli_SendHalf", "Cli_SendRest", "Cli_Close", "Worker_Take", "Worker_Disc",
           "H_Read", "H_Finish", "H_Write", "H_Eof", "Accept_Return", "Flag_Read", "Dispatch", "Pool_Stop",
           "Closure_Drop", "Sig_Recv", "Flag_Set", "Wake_Connect", "Join_Return"]
SENS = [  # (cfg, deviation, kind of violation expected, name)
    ("MC_Shutdown_dev_NoWake.cfg", "NoWake", "temporal", None),
    ("MC_Shutdown_dev_JoinWorkers.cfg", "JoinWorkers", "temporal", None),
    ("MC_Shutdown_dev_BoundedQueue.cfg", "BoundedQueue", "temporal", None),
    ("MC_Shutdown_dev_BoundedQueueCap.cfg", "BoundedQueueCap", "temporal", None),
    ("MC_Shutdown_dev_ReturnBeforeJoin.cfg", "ReturnBeforeJoin", "invariant", "Inv_PortFree"),
    ("MC_Shutdown_dev_ListenerLeak.cfg", "ListenerLeak", "invariant", "Inv_PortFree"),
    ("MC_Shutdown_dev_DenyWhenSaturated.cfg", "DenyWhenSaturated", "invariant", "Inv_ServingBefore"),
    ("MC_Shutdown_dev_FlagBeforeRecv.cfg", "FlagBeforeRecv", "invariant", "Inv_ServingBefore"),
    ("MC_Shutdown_dev_AbortOnStop.cfg", "AbortOnStop", "invariant", "Inv_NoTruncation"),
    ("MC_Shutdown_dev_StopDropsQueue.cfg", "StopDropsQueue", "invariant", "Inv_DispatchedKept"),
    # Faults = {"nofd"}: accept() fails (EMFILE) and so does the wake-up connect; the flag must be looked at after a FAILED accept too
    ("MC_Shutdown_dev_AcceptErrorsRetriedInside.cfg", "AcceptErrorsRetriedInside", "temporal", None),
]
NOFD_CFG = "MC_Shutdown_nofd.cfg"   # Dev = {}, the process may run out of descriptors while run is running
WITNESS = ["Never_ClientBeforeWake", "Never_WakeDuringDispatch", "Never_ReturnedSaturated", "Never_ReturnedDeepQueue", "Never_AcceptAfterCancel"]


def tlc_job(*a, **k):
    """run_tlc, but a liveness counterexample (TLC exit code 13, 'Temporal property X was violated', a format
    vlib.run_tlc does not recognise and reports as a tool error) is returned as a temporal violation."""
    try:
        return run_tlc(*a, **k)
    except vlib.ToolError as e:
        msg = str(e)
        if "rc=13" not in msg:
            raise
        r = vlib.TLCResult()
        r.rc, r.violation, r.out = 13, "temporal", msg
        m = re.search(r"(\d+) states generated, (\d+) distinct states found", msg)
        if m:
            r.generated, r.distinct = int(m.group(1)), int(m.group(2))
        r.trace = msg.splitlines()[-60:]
        return r


def prep(scens):
    """Concatenate scenario logs; per record add the scenario number (1-based), the index of the scenario's last
    record and the index of the previous record of the same thread (bookkeeping for the trace spec's
    early-execution rule; no judgement here)."""
    out, spans = [], []
    for si, o in enumerate(scens):
        last = {}
        start = len(out) + 1
        end = len(out) + len(o["events"])
        for e in o["events"]:
            e = dict(e)
            idx = len(out) + 1
            e["sc"] = si + 1
            e["end"] = end
            e["pv"] = 0 if e["ev"] == "Reset" else last.get(e["th"], 0)
            last[e["th"]] = idx
            e["pc"] = last.get("#connect", 0) if e["ev"] == "Cli_Connect" else 0
            if e["ev"] == "Cli_Connect":
                last["#connect"] = idx
            out.append(e)
        spans.append((start, end))
    return out, spans


def tlc_trace(scens, tag, timeout=240):
    """One TLC run over a batch of scenario logs (independent initial states).  Returns (set of accepted positions in
    `scens`, {position: info} for the others, TLC result).  Raises ToolError on a TLC timeout."""
    recs, spans = prep(scens)
    path = os.path.join(vlib.workdir("C20"), "trace-%s-%d-%d.ndjson" % (re.sub(r"[^A-Za-z0-9]+", "-", tag), os.getpid(), threading.get_ident() % 100000))
    vlib.write_lines(path, recs)
    try:
        r = run_tlc("Trace_Shutdown.tla", "Trace_Shutdown.cfg", D, workers=1, env={"TRACE": path},
                    work_id="c20tr", timeout=timeout, heap="3g")
    finally:
        os.remove(path)
    acc = set()
    for line in r.raw_prints:
        m = re.match(r'<<"ACC", (\d+)>>', line)
        if m:
            acc.add(int(m.group(1)) - 1)
    far = None
    for p in r.prints:
        if isinstance(p, dict) and "far" in p:
            far = p["far"]
    info = {}
    if r.violation == "invariant" and r.violated_name != "Report":
        # an invariant of Shutdown failed inside some scenario: TLC stopped; the scenario is named in the last state
        m = re.findall(r"/\\ sc = (\d+)", "\n".join(r.trace))
        k = int(m[-1]) - 1 if m else 0
        info[k] = {"invariant": r.violated_name, "stopped": True}
        return acc, info, r
    if far is None:
        raise vlib.ToolError("trace validation produced no verdict:\n" + r.out[-1500:])
    for k in range(len(scens)):
        if k not in acc:
            at = far[k]
            lo, hi = spans[k]
            info[k] = {"rejected_at": at, "record_in_scenario": at - lo, "event": recs[at - 1] if lo <= at <= hi else None}
    return acc, info, r


def validate(ctx, scens, label, chunk=80):
    """TLC validates the logs in batches (every scenario an independent initial state, so an inexplicable log cannot
    disturb the others).  A batch that times out is split in two and retried; a single scenario that cannot be explained
    within the time bound is reported like a rejected one.  Returns (number accepted, [(scenario, info)] rejected)."""
    todo = [s for s in scens if s.get("events")]
    batches = [todo[i:i + chunk] for i in range(0, len(todo), chunk)]
    accepted, rejected = 0, []

    def work(batch, depth=0):
        try:
            acc, info, r = tlc_trace(batch, label, timeout=240 if len(batch) > 1 else 120)
        except vlib.ToolError as e:
            if "timed out" not in str(e):
                raise
            if len(batch) == 1:
                return 0, [(batch[0], {"unexplained_within_bound": True, "event": None})], []
            h = len(batch) // 2
            a1, r1, t1 = work(batch[:h], depth + 1)
            a2, r2, t2 = work(batch[h:], depth + 1)
            return a1 + a2, r1 + r2, t1 + t2
        runs = [("trace validation: %s (%d scenarios)" % (label, len(batch)), r)]
        rej = [(batch[k], i) for k, i in sorted(info.items())]
        n = len(acc)
        stopped = [k for k, i in info.items() if i.get("stopped")]
        if stopped:
            rest = [o for j, o in enumerate(batch) if j != stopped[0] and j not in acc]
            if rest:
                a2, r2, t2 = work(rest, depth + 1)
                return n + a2, rej + r2, runs + t2
        return n, rej, runs

    with cf.ThreadPoolExecutor(max_workers=4) as tp:
        for a, rj, runs in tp.map(work, batches):
            accepted += a
            rejected += rj
            for name, r in runs:
                ctx.add_tlc(name, r)
    return accepted, rejected


def judge(ctx, scens):
    """The property by itself (Trace_ShutdownProp.tla) judges the given scenario logs.  Returns, per scenario, the list of
    findings [{at, why}] (empty = the property holds on this log)."""
    recs, spans = prep(scens)
    path = os.path.join(vlib.workdir("C20"), "judge-%d-%d.ndjson" % (os.getpid(), threading.get_ident() % 100000))
    vlib.write_lines(path, recs)
    try:
        r = run_tlc("Trace_ShutdownProp.tla", "Trace_ShutdownProp.cfg", D, workers=1, env={"TRACE": path},
                    work_id="c20j", timeout=600, heap="3g")
    finally:
        os.remove(path)
    ctx.add_tlc("property judge on %d scenario(s) the code model did not explain" % len(scens), r)
    acc, bad = set(), {}
    for line in r.raw_prints:
        m = re.match(r'<<"ACC", (\d+)>>', line)
        if m:
            acc.add(int(m.group(1)) - 1)
    for p in r.prints:
        if isinstance(p, dict) and "judge" in p:
            k = p["judge"] - 1
            bad[k] = [{"at": b["at"] - spans[k][0], "why": b["why"]} for b in p["bad"]]
    if r.violation is not None or len(acc) + len(bad) != len(scens):
        raise vlib.ToolError("property judge gave no verdict for every scenario:\n" + r.out[-1500:])
    return [bad.get(k, []) for k in range(len(scens))]


MAX_HANGS = 3


def run_harness(path, args, stdin_data=None, timeout=1500):
    """Runs a scenario group in a child process; a scenario whose server hangs ends the child (exit 3) and the rest of
    the group is run by a new child.  After MAX_HANGS confirmed hangs the rest of the group is not run any more: the
    tree is broken and every further hang costs 20 s."""
    outs, skip, hangs = [], 0, 0
    for _ in range(40):
        p = vlib.run_bin(path, args, stdin_data=stdin_data, timeout=timeout, env={"C20_SKIP": skip})
        got = parse_jsonl(p.stdout)
        outs += got
        if p.returncode == 0:
            return outs
        if p.returncode == 4 and got:
            vlib.log("[C20] %s: three scenarios waited out the full escalation, the rest of the group is skipped" % args[0])
            return outs
        if p.returncode == 3 and got:
            hangs += 1
            if hangs >= MAX_HANGS:
                vlib.log("[C20] %s %s: %d scenarios hung, the rest of the group is skipped" % (os.path.basename(os.path.dirname(os.path.dirname(path))), args[0], hangs))
                return outs
            skip = got[-1]["index"] + 1
            continue
        raise vlib.ToolError("harness %s %s failed rc=%s: %s" % (path, args, p.returncode, p.stderr[-1500:]))
    raise vlib.ToolError("harness restarted too often")


def brief(ev):
    return " ".join("%s%s%s%s" % (e["ev"], "(%d)" % e["c"] if e["c"] >= 0 else "", "=%d" % e["v"] if e["v"] else "",
                                  ":" + e["k"] if e["k"] else "") for e in ev)


def run(tier, replay):
    ctx = Ctx("C20", tier, "model_checking")
    thorough = tier == "thorough"
    bins = {"threaded": os.path.join(build_harness(["shutdown"]), "shutdown"),
            "tokio": os.path.join(build_harness(["shutdown"], tokio=True), "shutdown")}
    seed = vlib.seed()

    if replay:
        # re-run the scenario of a replay file on the real code and let TLC judge its log again
        case = json.load(open(replay)).get("case", {})
        sc = case.get("scenario")
        if not sc or sc.get("rt") not in bins:
            raise vlib.ToolError("replay file has no scenario to run: %s" % replay)
        outs = run_harness(bins[sc["rt"]], ["script"], json.dumps(sc) + "\n")
        for o in outs:
            o["group"] = "replay-file"
        acc, rej = validate(ctx, outs, "replay-file")
        ctx.cov["evaluations"] = len(outs)
        ctx.cov["traces_validated_against_impl"] = acc
        ctx.cov["distinct_nontrivial"] = len(outs)
        ctx.cov["rule"] = "re-execution of the scenario stored in the replay file"
        for o in outs:
            ctx.sample({"scenario": o["scenario"], "verdict": o["verdict"], "log": brief(o["events"])[:900]})
        sus = [o for o, _ in rej] + [o for o in outs if o.get("hang") and o not in [x for x, _ in rej]]
        if sus:
            for o, bad in zip(sus, judge(ctx, sus)):
                obj = {"kind": "c20-trace", "scenario": {k: o[k] for k in o if k != "events"}, "events": o["events"], "property_judge": bad}
                if bad:
                    ctx.violation("replayed scenario %s: %s (record %s)" % (o["scenario"], bad[0]["why"], bad[0]["at"]), obj)
                else:
                    ctx.drift("code model of run", "replayed scenario %s satisfies the property but not the code model" % o["scenario"], obj)
        return ctx.finish()

    # ---------------------------------------------------------------- 1. TLC jobs run beside the harness work
    pool = cf.ThreadPoolExecutor(max_workers=3)
    jobs = {}
    mc_cfgs = [("MC_Shutdown_thorough.cfg" if thorough else "MC_Shutdown_quick.cfg", "accept loop/run thread fair only", 8 if thorough else 4)]
    # the signal sent a second time (Sig_Again) nearly doubles the state space: checked on smaller configurations
    mc_cfgs.append(("MC_Shutdown_twice2.cfg" if thorough else "MC_Shutdown_twice.cfg", "accept loop/run thread fair only, signal possibly sent twice", 2))
    mc_cfgs.append(("MC_Shutdown_allfair_thorough.cfg" if thorough else "MC_Shutdown_allfair.cfg", "every process fair: drain after return", 2))
    mc_cfgs.append((NOFD_CFG, "accept loop/run thread fair only, descriptor exhaustion (accept() and the wake-up connect fail)", 2))
    for cfg, note, w in mc_cfgs:
        jobs[("mc", cfg, note)] = pool.submit(tlc_job, "MC_Shutdown.tla", cfg, D, workers=w, coverage=True,
                                              timeout=2400, work_id="c20mc", heap="8g" if thorough else "4g",
                                              extra=["-lncheck", "final"])
    for cfg, dev, kind, name in SENS:
        if dev == "BoundedQueueCap" and not thorough:
            continue   # 3 clients: tens of seconds
        jobs[("sens", cfg, dev)] = pool.submit(tlc_job, "MC_Shutdown.tla", cfg, D, workers=1, timeout=900, work_id="c20s")
    for w in WITNESS:
        if w == "Never_ReturnedDeepQueue" and not thorough:
            continue   # 3 clients, about half a million states before the witness is reached
        jobs[("wit", "MC_Shutdown_wit_%s.cfg" % w, w)] = pool.submit(run_tlc, "MC_Shutdown.tla", "MC_Shutdown_wit_%s.cfg" % w, D,
                                                                       workers=1, timeout=600, work_id="c20w")

    # ---------------------------------------------------------------- 2. behaviours from TLC, replayed with gates
    nsim = 400 if thorough else 45
    beh, seen = [], set()
    for cfg, sd in (("Gen_Shutdown.cfg", seed), ("Gen_Shutdown_late.cfg", seed + 1000)):
        g = run_tlc("Gen_Shutdown.tla", cfg, D, workers=1, simulate=nsim, depth=80, seed_val=sd, work_id="c20g", timeout=600)
        if g.violation:
            raise vlib.ToolError("behaviour generation failed: " + g.out[-1500:])
        ctx.add_tlc("behaviour generation (-simulate) %s" % cfg, g)
        for p in g.prints:
            k = json.dumps(p["steps"], sort_keys=True) + p["rt"] + str(p["nw"])
            if k not in seen and len(p["steps"]) >= 6:
                seen.add(k)
                beh.append(p)
    data = "\n".join(json.dumps(b) for b in beh) + "\n"
    groups = {}
    with cf.ThreadPoolExecutor(max_workers=2) as hp:
        fut = {rt: hp.submit(run_harness, bins[rt], ["replay"], data) for rt in bins}
        for rt in bins:
            groups[("replay", rt)] = fut[rt].result()
        # ------------------------------------------------------------ 3. scripted races and the state matrix
        nmat = 60 if thorough else 12
        fut = {}
        for rt in bins:
            fut[("races", rt)] = hp.submit(run_harness, bins[rt], ["races", tier])
        for rt in bins:
            groups[("races", rt)] = fut[("races", rt)].result()
        fut = {}
        for rt in bins:
            fut[("matrix", rt)] = hp.submit(run_harness, bins[rt], ["matrix", str(nmat)])
        for rt in bins:
            groups[("matrix", rt)] = fut[("matrix", rt)].result()

    n_replayed = sum(len(v) for k, v in groups.items() if k[0] == "replay")
    any_hang = any(o.get("hang") or o["verdict"].get("wait_level", 0) >= 3 for v in groups.values() for o in v)
    if n_replayed != len(beh) and not any_hang:
        raise vlib.ToolError("harnesses replayed %d of %d behaviours" % (n_replayed, len(beh)))

    total_scen, total_acc, nontrivial = 0, 0, set()
    max_wait, max_ms = 0, 0
    everything = []
    for (kind, rt), outs in sorted(groups.items()):
        for o in outs:
            if o.get("tool_error"):
                raise vlib.ToolError("scenario %s: %s %s" % (o.get("scenario"), o["tool_error"], o.get("problems")))
            o["group"] = "%s/%s" % (kind, rt)
            everything.append(o)
    vlib.log("[C20] %d scenarios executed on the real code (%.0fs); validating the logs with TLC" % (len(everything), time.time() - ctx.t0))
    # all logs in one TLC run (Reset records between scenarios); the thorough tier validates group by group
    batches = [everything] if not thorough else [outs for _, outs in sorted(groups.items())]
    rej_all = []
    for batch in batches:
        acc, rej = validate(ctx, batch, batch[0]["group"] if thorough else "all groups")
        total_acc += acc
        rej_all += rej
    total_scen = len(everything)
    for o in everything:
        v = o["verdict"]
        max_wait = max(max_wait, v.get("wait_level", 0))
        max_ms = max(max_ms, v.get("sig_to_return_ms", 0))
        evs = [e["ev"] for e in o["events"]]
        # non-trivial: at least one connection existed when the signal was sent
        if "Sig_Send" in evs and any(e in evs[:evs.index("Sig_Send")] for e in ("Accept_Return", "Cli_Connect")):
            nontrivial.add(json.dumps([o["rt"], o["nw"], o["bind"], o["steps"]], sort_keys=True))
    # ---- two-level judging (false-alarm rule): Shutdown.tla models THIS implementation of run (flag, wake-up connection,
    # order of the accept loop's steps, pool stop).  A scenario the code model cannot explain, a gated step that came out
    # differently and a step that did not happen are re-examined by the property itself (Trace_ShutdownProp.tla: run returns,
    # port free at once, serving until the signal, no truncated / missing response to a request received before the signal).
    # Only what the property forbids is a VIOLATION; everything else is reported as SPEC-DRIFT and does not gate.
    suspects = {}
    for o, info in rej_all:
        suspects[id(o)] = (o, ["the code model cannot explain the log: TLC stops at record %s %s"
                               % (info.get("record_in_scenario"), json.dumps(info.get("event") or info.get("invariant") or "not explained within the time bound"))], info)
    for o in everything:
        why = []
        if o.get("hang"):
            why.append("a step the code model says is enabled did not happen within 1 s + 4 s + 15 s: %s" % o.get("problems"))
        why += ["gated replay of a TLC behaviour: " + p for p in o.get("problems", []) if p.startswith("gated step expected")]
        if why:
            if id(o) in suspects:
                suspects[id(o)][1].extend(why)
            else:
                suspects[id(o)] = (o, why, {})
    if suspects:
        sus = [v[0] for v in suspects.values()]
        verdicts = judge(ctx, sus)
        for (o, why, info), bad in zip(suspects.values(), verdicts):
            obj = {"kind": "c20-trace", "scenario": {k: o[k] for k in o if k != "events"}, "events": o["events"],
                   "code_model": why, "tlc": info, "property_judge": bad}
            if bad:
                ctx.violation("%s scenario %s: %s (record %s of the log); harness verdict fields %s; code model: %s"
                              % (o["group"], o["scenario"], bad[0]["why"], bad[0]["at"], json.dumps(o["verdict"]), "; ".join(why)[:400]), obj)
            else:
                ctx.drift("code model of run", "%s scenario %s satisfies the property but not Shutdown.tla's model of this implementation: %s"
                          % (o["group"], o["scenario"], "; ".join(why)[:500]), obj)
    for (kind, rt), outs in sorted(groups.items()):
        ctx.add_part("%s %s" % (kind, rt), scenarios=len(outs),
                     rejected_by_tlc=sum(1 for o, _ in rej_all if o["group"] == "%s/%s" % (kind, rt)),
                     hangs=sum(1 for o in outs if o.get("hang")), not_forceable=sum(1 for o in outs if o.get("diverged")),
                     timed_waits=sum(1 for o in outs if o["verdict"].get("wait_level", 0) > 0))
    # "accept fails while the signal arrives": in how many of these scenarios was the situation really there
    fdsc = [o for o in everything if o.get("fd_fault")]
    ctx.add_part("descriptor exhaustion at the signal", scenarios=len(fdsc),
                 provoked=sum(1 for o in fdsc if o["fd_fault"] in ("hook", "probe")),
                 confirmed_by_accept_hook=sum(1 for o in fdsc if o["fd_fault"] == "hook"),
                 not_provoked_reduced_coverage=sum(1 for o in fdsc if o["fd_fault"] == "not-provoked"),
                 failed_accepts_counted=sum(o.get("accept_errors", 0) for o in fdsc))
    if fdsc and not any(o["fd_fault"] in ("hook", "probe") for o in fdsc):
        vlib.log("[C20] descriptor exhaustion could not be provoked in any scenario: reduced coverage")
    for o in (groups[("races", "threaded")][:1] + groups[("races", "threaded")][2:3] + groups[("matrix", "tokio")][1:2] + groups[("replay", "threaded")][:1]):
        ctx.sample({"scenario": o["scenario"], "rt": o["rt"], "pool": o["nw"], "bind": o["bind"], "verdict": o["verdict"], "log": brief(o["events"])[:900]})

    # ---------------------------------------------------------------- 4. self-test of the binding
    def by_name(kind, rt, name):
        return next((copy.deepcopy(o) for o in groups[(kind, rt)] if o["scenario"].endswith(name)), None)
    base = by_name("races", "threaded", "wake-during-dispatch")
    base_t = by_name("races", "tokio", "cancel-during-dispatch")
    def mutate(o, f):
        o = copy.deepcopy(o)
        o["events"] = f(o["events"])
        return o
    def idx(ev, name, nth=0):
        return [i for i, e in enumerate(ev) if e["ev"] == name][nth]
    # (only after a clean validation: on a broken tree the verdict is already exit 1 and must not be turned into a tool error)
    muts = [] if base is None or base_t is None or ctx.violations else [
        ("Flag_Read value flipped", mutate(base, lambda ev: [dict(e, v=1 - e["v"]) if i == idx(ev, "Flag_Read") else e for i, e in enumerate(ev)])),
        ("Dispatch record dropped", mutate(base, lambda ev: [e for i, e in enumerate(ev) if i != idx(ev, "Dispatch")])),
        ("Run_Return record dropped (run did not return)", mutate(base, lambda ev: [e for e in ev if e["ev"] not in ("Run_Return", "Rebind", "Obs_Closed")])),
        ("Rebind failed", mutate(base, lambda ev: [dict(e, v=0) if e["ev"] == "Rebind" else e for e in ev])),
        ("response truncated", mutate(base, lambda ev: [dict(e, ev="Cli_Eof", v=1) if e["ev"] == "Cli_Resp" else e for e in ev])),
        ("response missing", mutate(base, lambda ev: [dict(e, ev="Cli_Timeout", v=0) if e["ev"] == "Cli_Resp" else e for e in ev])),
        ("connection dropped before the signal", mutate(base, lambda ev: [dict(e, ev="Cli_Eof", v=0) if e["ev"] == "Cli_Resp" else e for e in ev if e["ev"] not in ("H_Read", "H_Finish")])),
        ("tokio: run did not return", mutate(base_t, lambda ev: [e for e in ev if e["ev"] not in ("Run_Return", "Rebind", "Obs_Closed")])),
    ]
    caught = 0
    with cf.ThreadPoolExecutor(max_workers=4) as tp:
        futs = [(name, tp.submit(tlc_trace, [m], "selftest", 120)) for name, m in muts]
        for name, f in futs:
            acc1, info, r = f.result()
            ctx.add_tlc("self-test: corrupted log (%s) must be rejected" % name, r)
            if acc1:
                raise vlib.ToolError("self-test failed: corrupted log accepted (%s)" % name)
            caught += 1
    # the property judge separates what the statement forbids from what merely differs from today's code
    base2 = by_name("races", "threaded", "inflight-at-signal-0")
    jres = None
    if muts and base2 is not None:
        def first_resp(ev, c):
            return next(i for i, e in enumerate(ev) if e["ev"] == "Cli_Resp" and e["c"] == c)
        jm = [
            ("implementation only: Flag_Read value flipped", False, muts[0][1]),
            ("implementation only: Dispatch record dropped", False, muts[1][1]),
            ("run did not return", True, mutate(base2, lambda ev: [e for e in ev if e["ev"] not in ("Run_Return", "Rebind", "Obs_Closed")])),
            ("re-bind failed", True, mutate(base2, lambda ev: [dict(e, v=0) if e["ev"] == "Rebind" else e for e in ev])),
            ("response to a request whose handler ran before the signal truncated", True,
             mutate(base2, lambda ev: [dict(e, ev="Cli_Eof", v=1) if i == first_resp(ev, 1) else e for i, e in enumerate(ev)])),
            ("response to such a request missing", True,
             mutate(base2, lambda ev: [dict(e, ev="Cli_Timeout", v=0) if i == first_resp(ev, 4) else e for i, e in enumerate(ev)])),
            ("unchanged log", False, base2),
        ]
        verdicts = judge(ctx, [m for _, _, m in jm])
        for (name, want, _), bad in zip(jm, verdicts):
            if bool(bad) != want:
                raise vlib.ToolError("self-test of the property judge failed: %s -> %s" % (name, bad))
        jres = len(jm)
    ctx.add_part("self-test", corrupted_logs=len(muts), rejected=caught, property_judge_cases=jres)

    # ---------------------------------------------------------------- collect the TLC jobs
    for (kind, cfg, x), f in jobs.items():
        r = f.result()
        if kind == "mc":
            ctx.add_tlc("Shutdown.tla Dev={} %s (%s)" % (cfg, x), r)
            ctx.require_tlc_ok(cfg, r)
            if r.violation is None and "allfair" not in cfg:
                ctx.require_cover(cfg, r, [a for a in ACTIONS if (a != "Sig_Again" or "twice" in cfg) and not ("twice" in cfg and a == "Worker_Disc")]
                                  + (["Accept_Error", "Fd_Exhaust", "Fd_Recover"] if cfg == NOFD_CFG else []))
        elif kind == "sens":
            want = next(s for s in SENS if s[0] == cfg)
            ctx.add_tlc("sensitivity: Dev={%s} must violate %s" % (x, want[3] or "Live_RunReturns"), r)
            if r.violation != want[2] or (want[3] and r.violated_name != want[3]):
                raise vlib.ToolError("model lost sensitivity: Dev={%s} gives %s %s" % (x, r.violation, r.violated_name))
        else:
            ctx.add_tlc("reachability witness: %s must be violated" % x, r)
            if r.violation != "invariant" or r.violated_name != x:
                raise vlib.ToolError("race %s is not reachable in the model (%s %s)" % (x, r.violation, r.violated_name))
    pool.shutdown()

    ctx.cov["evaluations"] = total_scen
    ctx.cov["traces_validated_against_impl"] = total_acc
    ctx.cov["distinct_nontrivial"] = len(nontrivial)
    ctx.cov["rule"] = ("scenario = (runtime, pool, bind address, script) executed on the real App::run; TLC behaviours by -simulate "
                       "(seeded), scripted gated races, seeded random traffic-state matrices; non-trivial = distinct scenarios in "
                       "which at least one connection existed when the signal was sent")
    ctx.cov["exhaustive"] = False
    ctx.cov["max_wait_level_needed"] = max_wait
    ctx.cov["max_signal_to_return_ms"] = max_ms
    ctx.assumptions += [
        "the pool is modelled abstractly (FIFO of jobs, N workers, stop = one Shutdown message, drop = detach)",
        "the process stays alive after run returns (as in the harness), so detached workers / spawned tasks finish",
        "fairness only for the accept loop and the thread that called run; handlers may block for ever",
        "bounded time = escalating waits 1 s / 4 s / 15 s; only 'did not happen' is a failure",
        "a connection accepted after the signal may be dropped without a response (DESIGN 5a)",
        "the port to bind is non-zero and the wake-up address is the first resolved address (as in the examples)",
        "descriptor exhaustion (accept() and the wake-up connect fail with EMFILE), once begun, lasts until run has returned; "
        "a fault that ends between the loop's flag check and its next accept() after the wake-up connect failed is not explored",
    ]
    return ctx.finish()
