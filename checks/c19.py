"""C19 - a blacklisted address never receives content.

1. TLC checks spec/server/Blacklist.tla: the model of humphrey-server's decision points (connection condition,
   Address::from_headers, the per-handler blacklist check, the inline check of the proxy handler, the cached
   path, keep-alive, two concurrent connections sharing the cache) satisfies the property Decide and its
   clauses for every configuration / peer / X-Forwarded-For value / route type / cache state in the bound
   (Dev = {}); every named deviation and a handful of plausible regressions are refuted (sensitivity);
   "can happen" witnesses and liveness (every request read is answered) are checked too.
2. spec -> code (method A): TLC prints, per (configuration, peer), the allowed outcomes of every
   X-Forwarded-For value; harness/src/bin/blacklist.rs starts the REAL `humphrey` binary (built from the
   working tree, without the verif cfg) from generated configuration files - per configuration one instance on
   127.0.0.1, one on ::1 and one on the dual-stack address :: (reached by the IPv4 peers, which it sees in
   IPv4-mapped form), all four route types, a scripted upstream - and sends every row for every route type,
   cold and cached, from a client socket bound to the peer address; observation = bytes / EOF.
3. code -> spec (method C direction): random sessions (random lists, peers anywhere in 127/8 and ::1,
   kept-alive connections, X-Forwarded-For lists of up to 4 entries) are logged by the harness and validated
   by TLC with Trace_Blacklist.tla (Decide for the verdict; the model's cache evolution is compared with the
   observed cached-ness as a side result).
4. binding self-test: one flipped expectation in a vector and one flipped result in the log must be rejected.

Readings (DESIGN 5a): only routed targets are requested, only GET (OPTIONS is answered by the core, a WebSocket
upgrade is not a request to one of the four route types); when peer and origin are unlisted but an intermediate
X-Forwarded-For entry is listed the statement is silent and both 403 and content are accepted."""
import concurrent.futures
import fcntl
import json
import os
import random as pyrandom
import shutil
import subprocess

import vlib
from vlib import Ctx, run_tlc, build_harness, run_bin, parse_jsonl, SPEC

D = os.path.join(SPEC, "server")
HIST = ["ForbiddenTrustsXff", "XffUntrimmed", "MappedPeerUnmatched"]
MUTANTS = ["CacheBeforeBlacklist", "ProxyUnchecked", "RedirectUnchecked", "OnlyProxiesChecked", "NoConnCondition",
           "IgnoresXff", "BlockSkipsHandlerCheck", "MappedListEntryUnmatched", "XffNameCaseSensitive"]
WITNESSES = ["NoCachedAnswer", "NoDrop", "NoForwarded403", "NoLenientCase"]
ACTIONS = ["Cli_Connect", "Srv_VerifyConnection", "Cli_SeesDrop", "Cli_Request", "Srv_Parse", "Srv_Route",
           "Srv_File_Blacklist", "Srv_Dir_Blacklist", "Srv_Redirect_Blacklist", "Srv_Proxy_Blacklist",
           "Srv_File_CacheCheck", "Srv_Dir_CacheCheck", "Srv_InnerFile", "Srv_Redirect_Serve", "Srv_Proxy_Upstream",
           "Srv_Respond", "Cli_Close"]


_JTMP = [None]


def tlc(*a, **kw):
    """vlib.run_tlc with the JVM's temp dir inside /verif/.work (TLC unpacks its standard modules into
    java.io.tmpdir and leaves an empty directory per run behind; nothing may be left in /tmp)."""
    if _JTMP[0]:
        env = dict(kw.get("env") or {})
        env["JAVA_TOOL_OPTIONS"] = "-Djava.io.tmpdir=" + _JTMP[0]
        kw["env"] = env
    return run_tlc(*a, **kw)


def build_server():
    """The shipped `humphrey` binary from /repo's working tree (no verif cfg), in a target dir outside /repo."""
    # One target dir per checkout: with a shared one, cargo finds /repo's artefacts "fresh" after a build from
    # another checkout (a scratch worktree with a seeded change, VERIF_REPO) and leaves that other checkout's
    # binary in release/humphrey - a stale binary then raises false alarms on the unchanged tree (DESIGN 9).
    if os.path.abspath(vlib.REPO) == "/repo":
        tdir = os.path.join(vlib.HARNESS, "target", "server")
    else:
        tdir = os.path.join(vlib.WORK, "target-alt-server-" + vlib.alt_tag(vlib.REPO))
    os.makedirs(vlib.WORK, exist_ok=True)
    lockf = open(os.path.join(vlib.WORK, "build-server.lock"), "w")
    fcntl.flock(lockf, fcntl.LOCK_EX)
    try:
        cmd = ["cargo", "build", "--release", "--offline", "-q", "--manifest-path",
               os.path.join(vlib.REPO, "humphrey-server", "Cargo.toml"), "--target-dir", tdir]
        p = subprocess.run(cmd, cwd=vlib.REPO, env=vlib.cargo_env(), stdout=subprocess.PIPE, stderr=subprocess.STDOUT, text=True)
        if p.returncode != 0:
            raise vlib.ToolError("humphrey-server build failed:\n" + "\n".join(p.stdout.splitlines()[-60:]))
    finally:
        fcntl.flock(lockf, fcntl.LOCK_UN)
        lockf.close()
    path = os.path.join(tdir, "release", "humphrey")
    # make sure release/humphrey is the artefact of THIS build: drop it and let cargo uplift it again
    if os.path.exists(path):
        os.remove(path)
        p = subprocess.run(cmd, cwd=vlib.REPO, env=vlib.cargo_env(), stdout=subprocess.PIPE, stderr=subprocess.STDOUT, text=True)
    if not os.path.exists(path):
        raise vlib.ToolError("no humphrey binary at " + path)
    return path


def require_taken(name, r, actions):
    # vlib.require_cover looks at the count of *new* states; Cli_SeesDrop/Cli_Close lead back to known states,
    # so the guard here is on the number of times the action was taken
    missing = [a for a in actions if r.coverage.get(a, (0, 0))[0] == 0]
    if missing:
        raise vlib.ToolError("vacuity guard: TLC run %s never took action(s) %s" % (name, missing))


def xff_text(row):
    if not row.get("p"):
        return None
    return ",".join((" " if e.get("sp") and i else "") + e["a"] for i, e in enumerate(row["es"]))


def replay_vectors(ctx, blbin, server, lines, work, threads, label):
    data = "\n".join(json.dumps(x) for x in lines) + "\n"
    p = run_bin(blbin, ["replay", server, work, str(threads)], stdin_data=data, timeout=2400)
    out = parse_jsonl(p.stdout)
    res = [x for x in out if x.get("summary")]
    if p.returncode != 0 or not res:
        raise vlib.ToolError("blacklist replay (%s) failed rc=%s: %s" % (label, p.returncode, p.stderr[-2000:]))
    s = res[0]
    mism = [x["mismatch"] for x in out if "mismatch" in x]
    if s["errors"] and not mism:
        # (with mismatches in hand the run is reported as what it is - a violation - not as a tool error)
        raise vlib.ToolError("blacklist replay (%s): %s" % (label, s["errors"][:3]))
    if s["errors"]:
        ctx.assumptions.append("note: replay %s also had harness errors: %s" % (label, s["errors"][:2]))
    # Second judgement (see the harness): mismatches that disappear when the same request / configuration is written the
    # plain way are spec drift - tabs or blanks before a comma, no blank after the colon, CRLF / no final newline in the
    # list file, `mode` left to its default, no `file` directive are not things C19's statement speaks about.
    dr = [x["drift"] for x in out if "drift" in x]
    if dr:
        groups = {}
        for m in dr:
            groups.setdefault((m["got"], m["written_plainly_got"], m["exotic_configuration"]), []).append(m)
        for (got, pg, ec), ms in list(groups.items())[:10]:
            ctx.drift("way of writing", "%s: %d of %d case(s) differ only in how the %s is written (observed %s, written plainly %s), e.g. %s" % (
                label, len(ms), s["drifts"], "configuration" if ec else "request", got, pg, describe(ms[0])), vector_case(dict(ms[0], model="", dev={})))
    if s.get("configurations_rewritten_plainly"):
        ctx.drift("way of writing", "%s: %d server instance(s) did not start from a configuration with CRLF / no final newline in the list file, "
                  "`mode` left to its default or no `file` directive and were started from the plainly written one" % (label, s["configurations_rewritten_plainly"]), None)
    if s["lines"] != len(lines):
        raise vlib.ToolError("harness consumed %d of %d vector lines" % (s["lines"], len(lines)))
    return s, mism


def vector_case(m):
    """Replay file content: the single row as a vector line the harness can be fed again."""
    return {"kind": "c19-vector",
            "line": {"mode": m["mode"], "list": m["list"], "cache": m["cache"], "dual": bool(m.get("dual")), "lm": bool(m.get("lm")),
                     "peer": m["peer"],
                     "rows": [{"p": m["p"], "es": m["es"], "exp": m["exp"],
                               "m": {rt: m.get("model", "") for rt in ("file", "directory", "proxy", "redirect")},
                               "dev": {d: {rt: v for rt in ("file", "directory", "proxy", "redirect")} for d, v in m.get("dev", {}).items()}}]},
            "server_address": m.get("listen"), "route": m.get("rt"), "warm_target": m.get("warm"), "x_forwarded_for": m.get("xff_header"),
            "allowed_by_spec": m["exp"], "observed": m["got"], "model_of_repaired_code": m.get("model"),
            "single_deviation_predictions": m.get("dev"), "detail": m.get("detail")}


def describe(m):
    return ("listen=%s mode=%s list=%s%s cache=%s peer=%s X-Forwarded-For=%r route=%s%s: allowed %s, observed %s" % (
        m.get("listen", "?"), m["mode"], m["list"], " (IPv4 entries written ::ffff:a.b.c.d)" if m.get("lm") else "", m["cache"], m["peer"], m.get("xff_header"), m.get("rt"),
        " (cached target)" if m.get("warm") else "", m["exp"], m["got"]))


def attribute(ctx, mismatches, total, source):
    """Mismatches that are exactly what one historical deviation predicts go to that deviation; the rest are violations."""
    # candidates: every deviation whose single-deviation prediction TLC printed for the case; open known findings
    # first, then greedily the deviation that explains most of what is left (several may predict the same rows)
    by_dev = {}
    rest = list(mismatches)
    expl = lambda m: [d for d, v in m.get("dev", {}).items() if v == m["got"]]
    while True:
        count = {}
        for m in rest:
            for d in expl(m):
                count[d] = count.get(d, 0) + 1
        if not count:
            break
        d = min(count, key=lambda x: (not ctx.known.is_open(ctx.prop, x), -count[x], x))
        by_dev[d] = [m for m in rest if d in expl(m)]
        rest = [m for m in rest if d not in expl(m)]
    plain = rest
    for d, ms in sorted(by_dev.items()):
        what = "%s: %d case(s) are what Dev={%s} predicts, e.g. %s" % (source, len(ms), d, describe(ms[0]))
        if ctx.known.is_open(ctx.prop, d):
            for m in ms:
                ctx.violation(what, vector_case(m), dev=d)
        else:
            ctx.violation(what, dict(vector_case(ms[0]), deviation=d, cases=len(ms), more=[describe(x) for x in ms[1:6]]), dev=d)
    seen = {}
    for m in plain:
        key = (m["got"], tuple(m["exp"]), m.get("rt"), m["mode"], m["peer"] in m["list"])
        seen.setdefault(key, []).append(m)
    for key, ms in list(seen.items())[:20]:
        ctx.violation("%s: %d case(s) outside the property, e.g. %s" % (source, len(ms), describe(ms[0])),
                      dict(vector_case(ms[0]), cases=len(ms), more=[describe(x) for x in ms[1:6]]))
    if total > len(mismatches) and not plain and not by_dev:
        ctx.violation("%s: %d mismatches (details truncated)" % (source, total), {"kind": "c19-truncated"})
    return by_dev, plain


def trace_case(rec_entry):
    r = rec_entry["rec"]
    es = [{"a": e["a"], "sp": e["sp"]} for e in r["es"]]
    return {"listen": "::" if r.get("dual") else ("::1" if ":" in r["peer"] else "127.0.0.1"),
            "dual": bool(r.get("dual")), "lm": bool(r.get("lm")),
            "mode": r["mode"], "list": r["list"], "cache": r["cache"], "peer": r["peer"], "p": r["present"], "es": es,
            "exp": rec_entry.get("allowed", []), "got": r["res"], "rt": r["rt"], "warm": r.get("fromCache"),
            "xff_header": xff_text({"p": r["present"], "es": es}), "model": "", "dev": {d: r["res"] for d in (rec_entry.get("dev") or [])},
            "detail": "trace line %s, request %s on its connection, uri %s%s" % (
                rec_entry.get("line"), r["n"], r["uri"],
                ", second X-Forwarded-For line %r" % xff_text({"p": True, "es": r["es2"]}) if r.get("present2") else "")}


def validate_trace(ctx, path, label, timeout=1500):
    t = tlc("Trace_Blacklist.tla", "Trace_Blacklist.cfg", D, workers=1, env={"TRACE": path}, timeout=timeout,
                work_id="c19", deque=True, heap="6g")
    summ = [x for x in t.prints if isinstance(x, dict) and "records" in x]
    if not summ:
        raise vlib.ToolError("Trace_Blacklist (%s) printed no summary:\n%s" % (label, t.out[-1500:]))
    return t, summ[-1]


def run_replay_file(ctx, blbin, server, work, replay):
    obj = json.load(open(replay))
    case = obj.get("case", obj)
    if case.get("kind") != "c19-vector":
        vlib.log("replay file of kind %r cannot be replayed (TLC counterexamples are reproduced by re-running the tier)" % case.get("kind"))
        return 2
    s, mm = replay_vectors(ctx, blbin, server, [case["line"]], work, 1, "replay")
    ctx.cov["evaluations"] += s["requests"]
    ctx.cov["traces_validated_against_impl"] += s["requests"]
    for m in mm:
        vlib.log("  " + describe(m) + "  " + str(m.get("detail")))
    attribute(ctx, mm, s["mismatches"], "replay")
    return ctx.finish()


def run(tier, replay):
    ctx = Ctx("C19", tier, "model_checking")
    thorough = tier == "thorough"
    bindir = build_harness(["blacklist"])
    blbin = os.path.join(bindir, "blacklist")
    server = build_server()
    work = os.path.join(vlib.workdir("C19"), "run-%d" % os.getpid())
    _JTMP[0] = os.path.join(work, "jtmp")
    os.makedirs(_JTMP[0], exist_ok=True)
    try:
        if replay:
            return run_replay_file(ctx, blbin, server, work, replay)
        return check(ctx, thorough, blbin, server, work)
    finally:
        shutil.rmtree(work, ignore_errors=True)


def check(ctx, thorough, blbin, server, work):
    os.makedirs(work, exist_ok=True)
    # ---- environment ----------------------------------------------------------------------------
    pr = parse_jsonl(run_bin(blbin, ["probe"]).stdout)
    if not pr:
        raise vlib.ToolError("blacklist probe failed")
    probe = pr[0]
    bad_src = [x["addr"] for x in probe["v4_sources"] if not x["ok"]]
    if bad_src:
        raise vlib.ToolError("cannot use %s as source addresses on this host" % bad_src)
    ctx.add_part("environment", **probe)
    if not probe["ipv6_loopback"]:
        ctx.assumptions.append("environment gap: ::1 not available, the IPv6 rows were skipped")
    if not probe["dual_stack"]:
        ctx.assumptions.append("environment gap: no dual-stack listener (bindv6only?), the rows for `address \"::\"` were skipped")

    # ---- 1. model checking ----------------------------------------------------------------------
    main_cfg = "MC_Blacklist_thorough.cfg" if thorough else "MC_Blacklist_quick.cfg"
    # quick: the three historical deviations and four of the mutants; thorough: all of them
    devs = HIST + (MUTANTS if thorough else ["CacheBeforeBlacklist", "ProxyUnchecked", "NoConnCondition", "IgnoresXff",
                                               "MappedListEntryUnmatched", "XffNameCaseSensitive"])
    wits = WITNESSES if thorough else ["NoCachedAnswer", "NoForwarded403"]
    jobs = {}
    with concurrent.futures.ThreadPoolExecutor(max_workers=4) as ex:
        jobs["main"] = ex.submit(tlc, "MC_Blacklist.tla", main_cfg, D, workers=6 if thorough else 4, coverage=True,
                                 timeout=2400, work_id="c19", heap="8g" if thorough else "4g")
        for d in devs:
            jobs["dev_" + d] = ex.submit(tlc, "MC_Blacklist.tla", "MC_Blacklist_dev_%s.cfg" % d, D, workers=1, timeout=600,
                                         work_id="c19", heap="1g")
        for w in wits:
            jobs["wit_" + w] = ex.submit(tlc, "MC_Blacklist.tla", "MC_Blacklist_wit_%s.cfg" % w, D, workers=1, timeout=600,
                                         work_id="c19", heap="1g")
        jobs["conc"] = ex.submit(tlc, "MC_Blacklist.tla", "MC_Blacklist_conc.cfg" if thorough else "MC_Blacklist_conc_quick.cfg", D,
                                 workers=3, coverage=True, timeout=1800, work_id="c19", heap="4g")
        jobs["lines"] = ex.submit(tlc, "MC_Blacklist.tla", "MC_Blacklist_lines.cfg", D, workers=1, timeout=600, work_id="c19", heap="1g")
        if not thorough:
            jobs["forms"] = ex.submit(tlc, "MC_Blacklist.tla", "MC_Blacklist_forms.cfg", D, workers=2, coverage=True, timeout=900,
                                      work_id="c19", heap="2g")
        if thorough:
            jobs["conc_dev"] = ex.submit(tlc, "MC_Blacklist.tla", "MC_Blacklist_conc_dev.cfg", D, workers=1, timeout=900,
                                         work_id="c19", heap="2g")
            jobs["main3"] = ex.submit(tlc, "MC_Blacklist.tla", "MC_Blacklist_thorough3.cfg", D, workers=6, coverage=True,
                                      timeout=2400, work_id="c19", heap="8g")
        jobs["live"] = ex.submit(tlc, "MC_Blacklist.tla", "MC_Blacklist_live.cfg", D, workers=1, timeout=900, work_id="c19", heap="2g")
        res = {k: f.result() for k, f in jobs.items()}
    r = res["main"]
    ctx.add_tlc("decision-point model, Dev={}, one connection (%s)" % main_cfg, r)
    ctx.require_tlc_ok("MC_Blacklist", r)
    require_taken("MC_Blacklist", r, ACTIONS)
    r = res["lines"]
    ctx.add_tlc("several X-Forwarded-For lines: a listed peer has one allowed outcome under every reading; the code's reading is an accepted one", r)
    ctx.require_tlc_ok("MC_Blacklist_lines", r)
    if not thorough:
        r = res["forms"]
        ctx.add_tlc("decision-point model, Dev={}, single- and dual-stack listener x plain and IPv4-mapped list entries (MC_Blacklist_forms.cfg)", r)
        ctx.require_tlc_ok("MC_Blacklist_forms", r)
        require_taken("MC_Blacklist_forms", r, ACTIONS)
    if thorough:
        r = res["main3"]
        ctx.add_tlc("decision-point model, Dev={}, X-Forwarded-For lists of up to 3 entries (MC_Blacklist_thorough3.cfg)", r)
        ctx.require_tlc_ok("MC_Blacklist_thorough3", r)
        require_taken("MC_Blacklist_thorough3", r, ACTIONS)
    r = res["conc"]
    ctx.add_tlc("two concurrent connections sharing the cache, Dev={}", r)
    ctx.require_tlc_ok("MC_Blacklist_conc", r)
    require_taken("MC_Blacklist_conc", r, ACTIONS)
    r = res["live"]
    ctx.add_tlc("liveness: admission decided, every request read is answered (weak fairness on the server)", r)
    ctx.require_tlc_ok("MC_Blacklist_live", r)
    for d in devs:
        r = res["dev_" + d]
        ctx.add_tlc("sensitivity: Dev={%s} must violate Inv_Decide" % d, r)
        if r.violation != "invariant":
            raise vlib.ToolError("model lost sensitivity: Dev={%s} no longer violates an invariant" % d)
    if thorough:
        r = res["conc_dev"]
        ctx.add_tlc("sensitivity: Dev={CacheBeforeBlacklist} with two connections (one warms the cache, the listed one reads it)", r)
        if r.violation != "invariant":
            raise vlib.ToolError("model lost sensitivity: concurrent CacheBeforeBlacklist no longer violates Inv_Decide")
    for w in wits:
        r = res["wit_" + w]
        ctx.add_tlc("witness: Wit_%s must be violated (the situation can happen)" % w, r)
        if r.violation != "invariant":
            raise vlib.ToolError("vacuity: TLC found no behaviour violating Wit_%s" % w)

    # ---- 2. vectors from TLC replayed on the real server ----------------------------------------
    # quick: lists of up to 2 entries x {single, dual-stack listener} x {plain, IPv4-mapped list entries};
    # thorough: that, and lists of up to 3 entries x {single, dual-stack listener}
    lines = []
    for gcfg in (["Gen_Blacklist_quick.cfg", "Gen_Blacklist_thorough.cfg"] if thorough else ["Gen_Blacklist_quick.cfg"]):
        g = tlc("MC_Blacklist.tla", gcfg, D, workers=1, timeout=1800, work_id="c19", heap="8g")
        if g.violation:
            raise vlib.ToolError("generation failed (%s %s): %s" % (g.violation, g.violated_name, g.out[-1500:]))
        ctx.add_tlc("vector generation %s (GenSound: Model({}) within Decide for every row, route, cached-ness)" % gcfg, g)
        lines = [x for x in g.prints if isinstance(x, dict) and "rows" in x]
        if not lines:
            raise vlib.ToolError("TLC generated no vectors")
        s, mm = replay_vectors(ctx, blbin, server, lines, work, 8, gcfg)
        nrows = sum(len(x["rows"]) for x in lines)
        if not (s["instances_aborted_after_hangs"] or s["errors"]) and \
                s["rows"] + s["rows_dual_stack"] + s["skipped_rows_no_ipv6"] + s["skipped_rows_no_dual_stack"] != nrows:
            raise vlib.ToolError("harness evaluated %d of %d rows" % (s["rows"], nrows))
        if s["upstream_hits"] != s["upstream_expected"]:
            ctx.assumptions.append("note: the scripted upstream was contacted %d times for %d proxied answers" % (s["upstream_hits"], s["upstream_expected"]))
        ctx.cov["evaluations"] += s["requests"]
        ctx.cov["distinct_nontrivial"] += s["nontrivial"]
        ctx.cov["traces_validated_against_impl"] += s["requests"]
        for x in s["samples"][:6]:
            ctx.sample(x)
        ctx.add_part("vectors " + gcfg, **{k: v for k, v in s.items() if k not in ("samples", "summary", "errors")})
        if s["warm_requests"] and s["cache_hits_observed"] == 0:
            ctx.assumptions.append("environment gap: no answer was observed to come from the file cache; the cached path was not exercised")
        attribute(ctx, mm, s["mismatches"], "vectors")

    # ---- 3. random sessions validated by TLC -----------------------------------------------------
    sessions, conns = (120, 150) if thorough else (20, 80)
    p = run_bin(blbin, ["random", server, work, str(sessions), str(conns)], timeout=1800)
    if p.returncode != 0:
        raise vlib.ToolError("blacklist random failed: " + p.stderr[-1500:])
    tr = os.path.join(work, "random.ndjson")
    with open(tr, "w") as f:
        f.write(p.stdout)
    recs = parse_jsonl(p.stdout)
    t, summ = validate_trace(ctx, tr, "random")
    ctx.add_tlc("trace validation of %d logged events (%d requests) from random sessions" % (summ["records"], summ["requests"]), t)
    if summ["records"] != len(recs):
        raise vlib.ToolError("Trace_Blacklist read %d of %d records" % (summ["records"], len(recs)))
    ctx.cov["evaluations"] += summ["requests"]
    ctx.cov["traces_validated_against_impl"] += summ["requests"]
    ctx.add_part("random sessions", sessions=sessions, connections_per_session=conns, records=summ["records"], requests=summ["requests"],
                 allowed_but_not_model=summ["lenient"], cache_observation_differs_from_model=summ["cachediv"],
                 attributed_to_deviation=summ["nattributed"], rejected=len(summ["rejected"]),
                 results={k: sum(1 for x in recs if x["ev"] == "req" and x["res"] == k) for k in ("Served", "Forbidden403", "Dropped")})
    if summ["cachediv"]:
        ctx.assumptions.append("note: %d answers differed from the model's cache state (outside C19; cache behaviour is C16's)" % summ["cachediv"])
    tm = [trace_case(e) for e in summ["attributed"]] + [trace_case(e) for e in summ["rejected"]]
    attribute(ctx, tm, summ["nattributed"] + len(summ["rejected"]), "random sessions")

    # ---- 4. binding self-test: a corrupted vector and a corrupted log must be rejected -----------
    rnd = pyrandom.Random(ctx.seed)
    cand = [(i, j) for i, x in enumerate(lines[:40]) for j, row in enumerate(x["rows"][:40])
            if len(row["exp"]) == 1 and not any(e["sp"] for e in row["es"])]
    i, j = rnd.choice(cand)
    bad_line = json.loads(json.dumps({k: (v if k != "rows" else [lines[i]["rows"][j]]) for k, v in lines[i].items()}))
    orig = bad_line["rows"][0]["exp"][0]
    bad_line["rows"][0]["exp"] = ["Forbidden403" if orig == "Served" else "Served"]
    s2, mm2 = replay_vectors(ctx, blbin, server, [bad_line], work, 1, "self-test")
    if s2["mismatches"] == 0:
        raise vlib.ToolError("binding self-test: a vector with a flipped expectation was not rejected by the harness")
    reqs = [k for k, x in enumerate(recs) if x["ev"] == "req" and x["res"] in ("Served", "Forbidden403") and x["n"] == 0]
    k = rnd.choice(reqs)
    # keep only the server run this request belongs to
    start = max(q for q in range(k + 1) if recs[q]["ev"] == "cfg")
    end = next((q for q in range(k + 1, len(recs)) if recs[q]["ev"] == "cfg"), len(recs))
    sub = [dict(x) for x in recs[start:end]]
    sub[k - start]["res"] = "Dropped"     # an answered request can never have been a dropped connection
    tr2 = os.path.join(work, "corrupt.ndjson")
    vlib.write_lines(tr2, sub)
    t2, summ2 = validate_trace(ctx, tr2, "self-test")
    hit = [e["line"] for e in summ2["rejected"] + summ2["attributed"]]
    if (k - start + 1) not in hit:
        raise vlib.ToolError("binding self-test: a log with one flipped result (line %d) was not rejected by Trace_Blacklist" % (k - start + 1))
    ctx.add_part("binding self-test", flipped_vector_rejected=True, flipped_log_record_rejected=True,
                 vector={"peer": bad_line["peer"], "list": bad_line["list"], "mode": bad_line["mode"], "flipped_to": bad_line["rows"][0]["exp"]},
                 log_line=k - start + 1)

    ctx.cov["rule"] = ("every (configuration, peer, X-Forwarded-For value) row of the bound is sent for each of the 4 route types and, with the "
                       "cache on, against a cold and a cached target; non-trivial = requests whose allowed outcome is not plain 'Served' "
                       "(dropped, 403 for a listed peer, 403 for a forwarded listed address, or the lenient either-way rows)")
    ctx.cov["exhaustive"] = True
    ctx.assumptions += [
        "Decide(mode, list, peer, xff) in Blacklist.tla is the property's definition; origin = last X-Forwarded-For entry that is an IP address",
        "peer unlisted, origin unlisted, an intermediate X-Forwarded-For entry listed: the statement is silent, 403 and content both accepted",
        "only GET requests for routed targets; OPTIONS (answered by the core) and WebSocket upgrades are outside the four route types",
        "projection: result classes from status + content markers; IPv6 addresses are written in 5-7 spellings (expanded, upper/mixed case, leading zeros, "
        "`::` elsewhere, dotted tail) in the list file and header; the field name in 6 cases, 4 name/value separators, blanks and tabs around entries, "
        "0..90 other fields around it; list files padded / reordered / with duplicates / CRLF / without final newline; `mode` omitted for the default",
        "several X-Forwarded-For lines in one request (random sessions): each line alone and the joined list are accepted readings; a listed peer is strict",
        "a connection that stays silent and open for 5 s and again 25 s is the observation Other:hang (a mismatch); only a failed connect is a tool error",
    ]
    return ctx.finish()
