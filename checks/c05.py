"""C05 - `*` matches any character sequence, everything else matches only itself.

1. TLC proves on Glob.tla (Dev = {}) that the *algorithm model* (one action per loop iteration of
   wildcard_match) terminates with the denotational answer Match(p,t) for every pair in the bound, and
   that each named deviation of the pre-repair code is refuted (sensitivity of the model).
2. spec -> code (method A): TLC emits, per pattern, the set of matching texts; the harness runs every
   (pattern, text) pair of the bound through humphrey::krauss::wildcard_match and String::route_matches
   with a/b mapped to ASCII, a 2-byte char, a 4-byte char, and `?`/`.` (must not be special).
3. code -> spec (method C): random long self-overlapping pairs run on the real code, log validated by
   TLC (Trace_Glob: MatchDP, proved equal to Match on a bounded space by ASSUME LemmaDP)."""
import json
import os
import vlib
from vlib import Ctx, run_tlc, build_harness, run_bin, parse_jsonl, SPEC

D = os.path.join(SPEC, "glob")


def run(tier, replay):
    ctx = Ctx("C05", tier, "model_checking")
    bindir = build_harness(["glob"])
    glob = os.path.join(bindir, "glob")
    thorough = tier == "thorough"

    # 1. model checking of the algorithm model
    r = run_tlc("MC_Glob.tla", "MC_Glob_thorough.cfg" if thorough else "MC_Glob_quick.cfg", D,
                workers=8, coverage=True, timeout=1500, work_id="c05")
    ctx.add_tlc("algorithm model, Dev={} (a,b)", r)
    ctx.require_tlc_ok("MC_Glob", r)
    ctx.require_cover("MC_Glob", r, ["StepTextDone", "StepStar", "StepEqual", "StepBacktrack", "StepMismatch"])
    r = run_tlc("MC_Glob.tla", "MC_Glob_star.cfg", D, workers=4, timeout=600, work_id="c05")
    ctx.add_tlc("algorithm model, Dev={} (texts containing `*`)", r)
    ctx.require_tlc_ok("MC_Glob_star", r)
    for cfg, dev in (("MC_Glob_dev1.cfg", "NoSavedTextPos"), ("MC_Glob_dev2.cfg", "StarLiteralFirst")):
        r = run_tlc("MC_Glob.tla", cfg, D, workers=4, timeout=600, work_id="c05")
        ctx.add_tlc("sensitivity: Dev={%s} must violate AlgoCorrect" % dev, r)
        if r.violation != "invariant":
            raise vlib.ToolError("model lost sensitivity: Dev={%s} no longer violates AlgoCorrect" % dev)

    # 2. vectors from TLC replayed on the real matcher
    total_eval = 0
    last_vec = None
    for cfg, max_t, syms in (("Gen_Glob_thorough.cfg" if thorough else "Gen_Glob_quick.cfg", 8 if thorough else 7, "ab"),
                             ("Gen_Glob_star.cfg", 6, "a*")):
        g = run_tlc("MC_Glob.tla", cfg, D, workers=1, timeout=1500, work_id="c05", heap="6g")
        if g.violation:
            raise vlib.ToolError("generation failed: %s" % g.out[-2000:])
        ctx.add_tlc("vector generation %s" % cfg, g)
        data = "\n".join(json.dumps(x) for x in g.prints) + "\n"
        if replay:
            pass
        p = run_bin(glob, ["replay", str(max_t), syms], stdin_data=data)
        res = [x for x in parse_jsonl(p.stdout) if x.get("summary")]
        if p.returncode != 0 or not res:
            raise vlib.ToolError("glob replay failed rc=%s: %s" % (p.returncode, p.stderr[-2000:]))
        s = res[0]
        if s["patterns"] != len(g.prints):
            raise vlib.ToolError("harness consumed %d of %d patterns" % (s["patterns"], len(g.prints)))
        total_eval += s["evaluations"]
        if last_vec is None and not s["mismatches"]:
            last_vec = (cfg, max_t, syms, g.prints)
        ctx.cov["evaluations"] += s["evaluations"]
        ctx.cov["distinct_nontrivial"] += s["nontrivial"]
        ctx.cov["traces_validated_against_impl"] += s["patterns"] * s["texts"]
        for x in s["samples"]:
            ctx.sample(x)
        ctx.add_part("vectors " + cfg, patterns=s["patterns"], texts=s["texts"], evaluations=s["evaluations"],
                     mismatches=s["mismatches"])
        if s["mismatches"]:
            ctx.violation("%d (pattern,text) pairs disagree with Match; first: %s" % (s["mismatches"], json.dumps(s["first"][:3], ensure_ascii=False)),
                          {"kind": "glob-vectors", "cfg": cfg, "first": s["first"]})

    # 2b. self-overlapping literals beyond the exhaustive bound: texts made of prefixes of the literal
    kcfg = "Gen_Glob_kmp9.cfg" if thorough else "Gen_Glob_kmp7.cfg"
    g = run_tlc("MC_Glob.tla", kcfg, D, workers=4, timeout=1500, work_id="c05", heap="6g")
    if g.violation:
        raise vlib.ToolError("generation failed: %s" % g.out[-2000:])
    ctx.add_tlc("vector generation %s (literals with partial overlapping occurrences)" % kcfg, g)
    data = "\n".join(json.dumps(x) for x in g.prints) + "\n"
    p = run_bin(glob, ["cases"], stdin_data=data)
    res = [x for x in parse_jsonl(p.stdout) if x.get("summary")]
    if p.returncode != 0 or not res or res[0]["patterns"] != len(g.prints):
        raise vlib.ToolError("glob cases failed rc=%s: %s" % (p.returncode, p.stderr[-2000:]))
    s = res[0]
    ctx.cov["evaluations"] += s["evaluations"]
    ctx.cov["distinct_nontrivial"] += s["nontrivial"]
    ctx.cov["traces_validated_against_impl"] += s["evaluations"] // 4
    for x in s["samples"]:
        ctx.sample(x, limit=10)
    ctx.add_part("vectors " + kcfg, literals=s["patterns"], evaluations=s["evaluations"], mismatches=s["mismatches"])
    if s["mismatches"]:
        ctx.violation("%d self-overlapping (pattern,text) pairs disagree with Match; first: %s" % (s["mismatches"], json.dumps(s["first"][:3], ensure_ascii=False)),
                      {"kind": "glob-kmp", "cfg": kcfg, "first": s["first"]})

    # 3. random long pairs validated by TLC; 3b. long adversarial pairs (self-overlapping literal after a star against a
    #    run of 80..400 symbols: work = text length x literal length), added after a seeded linear "work budget" was missed
    n = 20000 if thorough else 3000
    nl = 1500 if thorough else 200
    tr = None
    for fam, args, cnt in (("random", ["random", str(n), "40"], n), ("long", ["long", str(nl)], nl)):
        p = run_bin(glob, args)
        if p.returncode != 0:
            raise vlib.ToolError("glob %s failed: %s" % (fam, p.stderr[-1000:]))
        trf = os.path.join(vlib.workdir("C05"), fam + ".ndjson")
        with open(trf, "w") as f:
            f.write(p.stdout)
        if fam == "random":
            tr = trf
        t = run_tlc("Trace_Glob.tla", "Trace_Glob.cfg", D, workers=1, env={"TRACE": trf}, timeout=900, work_id="c05", deque=True)
        ctx.add_tlc("trace validation of %d %s pairs" % (cnt, fam), t)
        ctx.cov["evaluations"] += cnt
        ctx.cov["traces_validated_against_impl"] += cnt
        if fam == "long":
            recs = parse_jsonl(p.stdout)
            ctx.add_part("long adversarial pairs", pairs=len(recs), matching=sum(1 for r in recs if r.get("got") is True),
                         longest_text=max((len(r["t"]) for r in recs), default=0), longest_pattern=max((len(r["p"]) for r in recs), default=0))
            ctx.cov["distinct_nontrivial"] += sum(1 for r in recs if r.get("got") is True)
            if recs and not any(r.get("got") is True for r in recs) and not t.violation:
                ctx.violation("none of the %d long adversarial pairs matched although two thirds are built to" % len(recs), {"kind": "glob-long-none"})
        if t.violation:
            rej = t.prints[-1]["rejected"] if t.prints else []
            ctx.violation("%s pairs rejected by Trace_Glob; first: %s" % (fam, json.dumps(rej[:2])[:1500]), {"kind": "glob-trace", "family": fam, "rejected": rej})
    # 4. binding self-test (only on cleanly validated material): a vector with one matching text withdrawn must be
    #    flagged by the harness, and a log record with the answer flipped must be rejected by Trace_Glob
    if not ctx.violations and last_vec is not None:
        cfg0, max_t0, syms0, prints0 = last_vec
        bad = [dict(x) for x in prints0]
        k = next((i for i, x in enumerate(bad) if "*" in x["p"] and len(x["m"]) > 1), None)
        if k is not None:
            bad[k] = {"p": bad[k]["p"], "m": bad[k]["m"][1:]}
            q = run_bin(glob, ["replay", str(max_t0), syms0], stdin_data="\n".join(json.dumps(x) for x in bad) + "\n")
            rs = [x for x in parse_jsonl(q.stdout) if x.get("summary")]
            flagged = bool(rs and rs[0]["mismatches"] >= 1)
            if not flagged:
                raise vlib.ToolError("binding self-test: a corrupted vector (matching text withdrawn) was not flagged by the harness")
        lines = [x for x in open(tr).read().split("\n") if x.strip()]
        j = next((i for i, x in enumerate(lines) if isinstance(json.loads(x)["got"], bool)), None)
        rejected = None
        if j is not None:
            r0 = json.loads(lines[j]); r0["got"] = not r0["got"]; lines[j] = json.dumps(r0)
            tr2 = os.path.join(vlib.workdir("C05"), "random_corrupt.ndjson")
            with open(tr2, "w") as f:
                f.write("\n".join(lines[: j + 50]) + "\n")
            t2 = run_tlc("Trace_Glob.tla", "Trace_Glob.cfg", D, workers=1, env={"TRACE": tr2}, timeout=900, work_id="c05", deque=True, allow_violation=True)
            rejected = bool(t2.violation)
            os.remove(tr2)
            if not rejected:
                raise vlib.ToolError("binding self-test: a log record with the answer flipped was accepted by Trace_Glob")
        ctx.add_part("binding self-test", corrupted_vector_flagged=(k is not None), corrupted_record_rejected=rejected)
    os.remove(tr)
    ctx.cov["rule"] = ("all (pattern,text) pairs within the bound, each under 6 symbol mappings x 2 entry points; "
                       "non-trivial = distinct pairs whose pattern has a `*` and which match a non-empty text")
    ctx.cov["exhaustive"] = True
    ctx.assumptions += ["Match(p,t) in Glob.tla is the property's definition", "symbol mappings a->{a,é,😀,?,NUL,U+0001}, b->{b,.,NUL} represent 'every other character'"]
    return ctx.finish()
