"""Growth item wired into C07 (drift only): the URL a humphrey::client request is built from (spec/http/Url.tla).

   1. TLC checks Url.tla with Dev = {} (RFC 3986): composing a URL from components and parsing it gives the components back
      on a bounded component space, what the grammar does not produce is refused, each named deviation matters somewhere;
      the four single-deviation configs must violate the compose/parse lemma (sensitivity).
   2. spec -> code: TLC enumerates every token string "localhost" ++ rest (rest up to 4 tokens, 5 in the thorough tier, over
      {127.0.0.1 : 80 8080 / ? # a @}), prints what RFC 3986 says and what the code model (Dev = AsFound) says; the harness
      builds the request through Client::{get, post, put, delete} and compares: a URL the code model does not predict is
      reported as drift "code model", URLs where code model and RFC differ are counted per deviation name.
   3. code -> spec: random longer token strings built by the real client, the log validated by Trace_Url.tla.
   Nothing here is among the twenty properties: every mismatch is a SPEC-DRIFT line (vlib.run_growth), never a violation."""
import json
import os
import vlib
from vlib import run_tlc, build_harness, run_bin, parse_jsonl, SPEC

D = os.path.join(SPEC, "http")
DEVS = ["SplitAtSlashOnly", "UserinfoInHost", "PortAppended", "FragmentKept"]   # PortAppended is repaired; it stays as a sensitivity config


def run_part(ctx, tier):
    thorough = tier == "thorough"
    bindir = build_harness(["url"])
    ub = os.path.join(bindir, "url")
    r = run_tlc("MC_Url.tla", "MC_Url_lemmas.cfg", D, workers=1, timeout=600, work_id="c07url")
    ctx.add_tlc("Url.tla Dev={}: compose/parse lemma, refusals, every deviation matters", r)
    ctx.require_tlc_ok("MC_Url_lemmas", r)
    for d in DEVS:
        r = run_tlc("MC_Url.tla", "MC_Url_dev_%s.cfg" % d, D, workers=1, timeout=600, work_id="c07url")
        ctx.add_tlc("Url.tla sensitivity: Dev={%s} must violate ComposeParse" % d, r)
        if r.violation != "invariant":
            raise vlib.ToolError("Url.tla lost sensitivity: Dev={%s} no longer violates ComposeParse" % d)
    total = 0
    devs = {}
    for cfg in (["Gen_Url_thorough.cfg"] if thorough else ["Gen_Url_quick.cfg"]) + ["Gen_Url_https.cfg"]:
        g = run_tlc("MC_Url.tla", cfg, D, workers=1, timeout=1500, work_id="c07url", heap="3g")
        if g.violation:
            raise vlib.ToolError("URL generation failed: %s" % g.out[-1500:])
        ctx.add_tlc("URL vectors %s" % cfg, g)
        if g.distinct != len(g.prints):
            raise vlib.ToolError("URL generation explored %d states and printed %d vectors" % (g.distinct, len(g.prints)))
        p = run_bin(ub, ["replay"], stdin_data="\n".join(json.dumps(x) for x in g.prints) + "\n", timeout=900)
        res = [x for x in parse_jsonl(p.stdout) if x.get("summary")]
        if p.returncode != 0 or not res or res[0]["urls"] != len(g.prints):
            raise vlib.ToolError("url replay failed rc=%s: %s" % (p.returncode, p.stderr[-1500:]))
        s = res[0]
        total += s["urls"]
        ctx.cov["evaluations"] += s["evaluations"]
        ctx.add_part("client URLs " + cfg, urls=s["urls"], builder_calls=s["evaluations"], accepted=s["accepted"], rfc_valid=s["rfc_valid"],
                     agree_with_rfc=s["agree_with_rfc"], not_predicted_by_code_model=s["mismatches"], builders_differ=s["builders_differ"],
                     request_line_wrong=s["line_wrong"], slow_lookups=s["slow_lookups"])
        lv = s.get("live", {})
        if lv.get("ran"):
            ctx.add_part("client round trip on an ephemeral port " + cfg, **{k: lv.get(k) for k in ("ok", "url", "returned", "request_line", "host_line")})
            if not lv.get("ok"):
                ctx.violation("client URL: a request to an explicit port did not arrive as written: %s" % json.dumps(lv)[:600], {"kind": "url-live", "live": lv})
        bad = s["mismatches"] + s["builders_differ"] + s["line_wrong"] + s["noted"]
        if bad:
            ctx.violation("client URL: %d URL(s) where the request built by Client::get/post/put/delete is not what Url.tla's code model says; first: %s"
                          % (bad, json.dumps(s["first"][:1])[:1200]), {"kind": "url-vectors", "cfg": cfg, "first": s["first"]})
        for d in s["devs"]:
            e = devs.setdefault(d["dev"], [0, d["example"]])
            e[0] += d["urls"]
    for d, (n, ex) in sorted(devs.items()):
        ctx.violation("client URL deviates from RFC 3986 as Dev={%s} of Url.tla says, %d of %d URLs; e.g. %s -> %s (RFC: %s)"
                      % (d, n, total, ex["url"], json.dumps({k: ex["got"][k] for k in ("ok", "host", "path", "query")}), json.dumps(ex["rfc"])),
                      {"kind": "url-deviation", "dev": d, "urls": n, "example": ex})
    # code -> spec
    n = 20000 if thorough else 3000
    p = run_bin(ub, ["random", str(n)], timeout=900)
    if p.returncode != 0:
        raise vlib.ToolError("url random failed: %s" % p.stderr[-1000:])
    tr = os.path.join(vlib.workdir("C07"), "url-%d.ndjson" % os.getpid())
    with open(tr, "w") as f:
        f.write(p.stdout)
    try:
        t = run_tlc("Trace_Url.tla", "Trace_Url.cfg", D, workers=1, env={"TRACE": tr}, timeout=900, work_id="c07url", deque=True, allow_violation=True)
        ctx.add_tlc("trace validation of %d random client URLs (Trace_Url)" % n, t)
        info = next((x for x in t.prints if isinstance(x, dict) and "records" in x), {})
        ctx.add_part("random client URLs validated by TLC", records=info.get("records"), agree_with_rfc=info.get("agree_with_rfc"))
        ctx.cov["evaluations"] += n
        if t.violation:
            rej = next((x["rejected"] for x in t.prints if isinstance(x, dict) and "rejected" in x), [])
            ctx.violation("client URL: recorded builds rejected by Trace_Url; first: %s" % json.dumps(rej[:1])[:1200],
                          {"kind": "url-trace", "seed": ctx.seed, "rejected": rej})
        elif info.get("records") != n:
            raise vlib.ToolError("Trace_Url consumed %s of %d records" % (info.get("records"), n))
        else:
            # binding self-test: a record with the answer changed must be rejected
            lines = [x for x in open(tr).read().split("\n") if x.strip()]
            j = next((i for i, x in enumerate(lines) if json.loads(x)["got"]["ok"]), None)
            if j is not None:
                r0 = json.loads(lines[j]); r0["got"]["path"] = r0["got"]["path"] + "x"; lines[j] = json.dumps(r0)
                with open(tr, "w") as f:
                    f.write("\n".join(lines[: j + 20]) + "\n")
                t2 = run_tlc("Trace_Url.tla", "Trace_Url.cfg", D, workers=1, env={"TRACE": tr}, timeout=600, work_id="c07url", deque=True, allow_violation=True)
                if not t2.violation:
                    raise vlib.ToolError("binding self-test: a URL record with the path changed was accepted by Trace_Url")
    finally:
        try:
            os.remove(tr)
        except OSError:
            pass
