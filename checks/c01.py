"""C01 - one well-framed response per request on every connection, in order.

spec/conn/HttpConn.tla models one connection: the client sends the script's byte stream in arbitrary
segments (TLC explores every split and coalescing), the server is the operational machine of
client_handler + Request::from_stream (first byte, BufReader fills with read-ahead, body, dispatch,
write, next-or-close) and the property is stated against the declarative Expected(script).

1. TLC (MC_HttpConn): Dev = {} satisfies Inv_OutPrefix / Inv_InSync / Inv_CloseWhenDue /
   Inv_OpenWhileKept and the liveness Live_AllAnswered for all scripts <= 2 (thorough 3) over the
   loop-relevant catalogue, with and without a connection timeout, and for the method x target x
   Connection x version x body product (scripts of length 1). Each named deviation must violate.
2. spec -> code: TLC emits every script with Expected(script) (Gen_*.cfg) and, by -simulate, send
   sequences (Sim_HttpConn); the harness plays them over loopback against a real App on the threaded
   and the tokio runtime (plus byte-exact extremes: bytewise, whole, every single split point).
3. code -> spec: the client-side log of every connection (Send/Recv/Eof/Quiet/Idle*/Shut) is validated
   by TLC against Trace_HttpConn (server steps silent). Dev = {} first; a connection rejected there is
   re-validated under the open known deviations only; unexplained => VIOLATION.
   A second, hook-free trace source rides along: Humphrey's own MonitorConfig events for the connection's
   peer address (ConnectionSuccess, ThreadPoolProcessStarted, RequestServed*, RequestTimeout,
   KeepAliveRespected, ConnectionClosed), drained after the client has seen the server's close, must equal
   MonExpected(model state) for the connection to count as accepted.
4. CORS (checks/c01_cors.py, spec/cors): TLC explores every order of App/SubApp/Cors builder calls, the
   generated (builder history, request, expected Access-Control-* headers) vectors are replayed on real Apps of
   both runtimes and random apps are validated by Trace_Cors."""
import json
import os
import random
import vlib
from vlib import Ctx, run_tlc, build_harness, run_bin, parse_jsonl, SPEC

D = os.path.join(SPEC, "conn")
OPEN_ORDER = ["CrlfAfterBody", "ReadAheadLost"]   # deviations that may be listed open in KNOWN_FINDINGS.txt
# Named leniencies of the statement (HttpConn.tla): outcomes the property's text leaves open. The code model (Dev = {}) has the
# tree's behaviour (400 for a head cut off by the client's half-close; 400 for bare-LF line endings); a connection that only
# these explain is SPEC-DRIFT, not a violation:
#   TruncSilentClose  no response at all, then close, for a head truncated by the client's half-close
#   LenientLF         the normal response to a complete head whose line endings are bare LF (RFC 7230 3.5)
LENIENCIES = ["LenientLF", "TruncSilentClose"]


def trace_cfg(path, dev, has_timeout):
    with open(path, "w") as f:
        f.write("CONSTANTS\n  Dev = {%s}\n  BufCap = 8192\n  HasTimeout = %s\nSPECIFICATION TraceSpec\n"
                "INVARIANTS Report Inv_Sane\nCHECK_DEADLOCK FALSE\n" % (", ".join('"%s"' % d for d in dev), "TRUE" if has_timeout else "FALSE"))


def validate(ctx, recs, dev, has_timeout, label):
    """Returns the set of accepted connection ids."""
    if not recs:
        return set()
    wd = vlib.workdir("C01")
    tr = os.path.join(wd, "trace-%s-%d.ndjson" % (label, os.getpid()))    # unique per run: two C01 runs may overlap
    vlib.write_lines(tr, recs)
    cfg = os.path.join(D, "_trace_%s_%d.cfg" % (label, os.getpid()))
    trace_cfg(cfg, dev, has_timeout)
    try:
        r = run_tlc("Trace_HttpConn.tla", os.path.basename(cfg), D, workers=4, env={"TRACE": tr}, timeout=1500,
                    work_id="c01t", heap="6g")
    finally:
        os.remove(cfg)
        os.remove(tr)
    if r.violation:
        raise vlib.ToolError("trace validation aborted (%s %s):\n%s" % (r.violation, r.violated_name, "\n".join(r.trace[:40])))
    ctx.add_tlc("trace validation %s Dev=%s (%d connections)" % (label, sorted(dev), len(recs)), r)
    acc = set()
    mon_ok = set()
    for line in r.raw_prints:
        if line.startswith('<<"ACC"'):
            f = line.split(",")
            acc.add(int(f[1].strip(" >")))
            if len(f) < 3 or f[2].strip(" >") == "1":
                mon_ok.add(int(f[1].strip(" >")))
    # the server's own monitor events (beyond what C01 states): explained by the client's log but not by the monitor list
    if not dev:
        bad = sorted(acc - mon_ok)
        if bad:
            by_id = {x["id"]: x for x in recs}
            ctx.drift("monitor-events", "%d connection(s) (%s) are explained by HttpConn but the server's monitor events differ from MonExpected; first: mon=%s"
                      % (len(bad), label, json.dumps(by_id[bad[0]].get("mon"))[:300]),
                      {"kind": "c01-monitor", "connections": [by_id[i] for i in bad[:3]]})
    return acc


def run(tier, replay):
    ctx = Ctx("C01", tier, "model_checking")
    thorough = tier == "thorough"
    rnd = random.Random(ctx.seed)
    bindir = build_harness(["conn"])
    tbindir = build_harness(["conn"], tokio=True)

    if replay:
        case = json.load(open(replay))["case"]
        recs = case.get("connections", [])
        for rec in recs:
            print(json.dumps(rec)[:2000])
        return 0

    # ---- 1. model checking ----
    mc = [("MC_HttpConn_quick.cfg", "loop<=2, timeout"), ("MC_HttpConn_quick_nt.cfg", "loop<=2, no timeout"),
          ("MC_HttpConn_fields.cfg", "field product, length 1"),
          ("MC_HttpConn_trunc.cfg", "head truncated by the client's half-close, <=2, timeout"),
          ("MC_HttpConn_trunc_nt.cfg", "head truncated by the client's half-close, <=2, no timeout")]
    if thorough:
        mc.append(("MC_HttpConn_thorough.cfg", "loop<=3, timeout"))
    for cfg, note in mc:
        r = run_tlc("MC_HttpConn.tla", cfg, D, workers=min(8, int(os.environ.get("VERIF_TLC_WORKERS", "8"))), coverage=(cfg in ("MC_HttpConn_quick.cfg", "MC_HttpConn_trunc_nt.cfg")), timeout=2400, work_id="c01", heap="8g")
        ctx.add_tlc("MC " + note, r)
        ctx.require_tlc_ok(cfg, r)
        if cfg == "MC_HttpConn_quick.cfg":
            ctx.require_cover(cfg, r, ["ClientStep", "ServerStep", "Cli_IdleBegin", "Cli_IdleEnd", "Cli_Shut", "Srv_ReadFirst", "Srv_Eof", "Srv_Timeout408",
                                       "Srv_HeadDone", "Srv_BodyDone", "Srv_Respond400", "Srv_Dispatch", "Srv_Write"])
        if cfg == "MC_HttpConn_trunc_nt.cfg":
            ctx.require_cover(cfg, r, ["Cli_Shut", "Srv_HeadEof", "Srv_Respond400", "Srv_Write"])
    for cfg, dev in (("MC_HttpConn_devEOF.cfg", "EofEndsHead"), ("MC_HttpConn_devRAL.cfg", "ReadAheadLost"), ("MC_HttpConn_devOVF.cfg", "OptionsVersionFixed"),
                     ("MC_HttpConn_devO404.cfg", "Options404Bare"), ("MC_HttpConn_devCRLF.cfg", "CrlfAfterBody")):
        r = run_tlc("MC_HttpConn.tla", cfg, D, workers=4, timeout=900, work_id="c01")
        ctx.add_tlc("sensitivity Dev={%s}" % dev, r)
        if r.violation != "invariant":
            raise vlib.ToolError("model lost sensitivity: Dev={%s} violates nothing" % dev)

    # ---- 2. generation ----
    def gen(cfg):
        g = run_tlc("MC_HttpConn.tla", cfg, D, workers=1, timeout=900, work_id="c01g")
        if g.violation:
            raise vlib.ToolError("generation failed " + cfg)
        ctx.add_tlc("script generation " + cfg, g)
        return g.prints

    def sim(cfg, num):
        s = run_tlc("Sim_HttpConn.tla", cfg, D, workers=1, simulate=num, depth=80, seed_val=ctx.seed, timeout=900, work_id="c01s")
        seen, out = set(), []
        for p in s.prints:
            k = json.dumps(p, sort_keys=True)
            if k not in seen:
                seen.add(k)
                out.append(p)
        return out

    n = 3 if thorough else 2
    jobs = {"threaded": [], "tokio": []}
    jid = [0]

    def add(rt, timeout, script, exp, plan, sends=None):
        jid[0] += 1
        jobs[rt].append({"id": jid[0], "timeout": timeout, "script": script, "plan": plan, "sends": sends or [],
                         "expected_n": len(exp["expected"]), "final_open": exp["final_open"]})

    def key(script):
        return json.dumps(script, sort_keys=True)

    for has_t in (True, False):
        tag = "t" if has_t else "nt"
        loop = gen("Gen_loop%d_%s.cfg" % (n, tag))
        fields = gen("Gen_fields1_%s.cfg" % tag)
        expmap = {key(x["script"]): x for x in loop + fields}
        sims = sim("Sim_%d_%s.cfg" % (n, tag), 800 if thorough else 200)
        rts = ["threaded"] if has_t else ["threaded", "tokio"]
        cap_loop = 900 if thorough else 110    # seeded sample of the script catalogue (the MC runs cover it exhaustively)
        loop_sel = loop if len(loop) <= cap_loop else rnd.sample(loop, cap_loop)
        for rt in rts:
            for x in loop_sel:
                has_idle = any(e["k"] == "idle" for e in x["script"])
                if has_t and not has_idle and rnd.random() < 0.8:
                    continue   # the timeout instance matters for idle scripts; sample the rest
                big = any(e["bl"] == 3 for e in x["script"])
                add(rt, has_t, x["script"], x, "whole")
                add(rt, has_t, x["script"], x, "random")
                if not big and rnd.random() < (0.5 if thorough else 0.12):
                    add(rt, has_t, x["script"], x, "bytewise")
                if not big and not has_idle and rnd.random() < (0.6 if thorough else 0.15):
                    for k in rnd.sample(range(1, 120), 6 if thorough else 3):
                        add(rt, has_t, x["script"], x, "split:%d" % k)
            for x in (fields if thorough else rnd.sample(fields, min(len(fields), 200))):
                if has_t:
                    continue
                add(rt, has_t, x["script"], x, rnd.choice(["whole", "random", "random"]))
            for s in sims:
                x = expmap.get(key(s["script"]))
                if x is None:
                    continue
                add(rt, has_t, s["script"], x, "tlc", s["sends"])

    # heads truncated by the client's half-close (script generation Gen_trunc2_*: the truncated head is the last element, the
    # client shuts down its sending side after it) and complete heads with bare-LF line endings (leniency LenientLF)
    def lf(cls, conn):
        return {"k": "lf", "hl": 3, "dl": cls, "bl": 0, "wf": False, "m": "GET", "tgt": rnd.choice(["plain", "empty"]), "conn": conn, "ver": "1.1"}
    n_trunc = 0
    for has_t in (True, False):
        tg = [x for x in gen("Gen_trunc2_%s.cfg" % ("t" if has_t else "nt")) if x["script"][-1]["k"] == "trunc"]
        single = [x for x in tg if len(x["script"]) == 1]
        pairs = [x for x in tg if len(x["script"]) == 2 and (thorough or x["script"][-1]["hl"] == 2)]
        for rt in (["threaded"] if has_t else ["threaded", "tokio"]):
            for x in single:
                add(rt, has_t, x["script"], x, "whole")
                for pl in (["bytewise", "random", "split:%d" % rnd.randint(1, 40)] if thorough else [rnd.choice(["bytewise", "random", "split:%d" % rnd.randint(1, 40)])]):
                    add(rt, has_t, x["script"], x, pl)
                n_trunc += 1
            for x in (pairs if thorough else rnd.sample(pairs, min(len(pairs), 6))):
                if has_t and any(e["k"] == "idle" for e in x["script"]):
                    continue     # the idle wait ends in a 408: the truncated head is never sent
                add(rt, has_t, x["script"], x, "reqs")
                n_trunc += 1
            for cls in (1, 2, 3, 4):
                add(rt, has_t, [lf(cls, rnd.choice(["close", "close", "ka"]))], {"expected": [0], "final_open": False}, rnd.choice(["whole", "whole", "random"]))
    ctx.cov["truncated_head_scripts"] = n_trunc

    # large bodies echoed to a client that is slow to start reading (the response exceeds the socket buffers):
    # "a body exactly as long as its Content-Length", whatever its size
    def rq(m, tgt, conn, ver, bl):
        return {"k": "req", "hl": 3, "dl": 3, "bl": bl, "wf": True, "m": m, "tgt": tgt, "conn": conn, "ver": ver}
    for rt in ("threaded", "tokio"):
        for conn, fo in (("close", False), ("ka", True)):
            for rep in range(3 if thorough else 1):
                jid[0] += 1
                jobs[rt].append({"id": jid[0], "timeout": False, "script": [rq("POST", "echo", conn, "1.1", 9)], "plan": "whole", "sends": [],
                                 "expected_n": 1, "final_open": fo, "slow_read_ms": 500})

    # ---- 3. run against the real servers, validate the logs with TLC ----
    total_conns = 0
    nontrivial = set()
    for rt in ("threaded", "tokio"):
        js = jobs[rt]
        if not js:
            continue
        exe = os.path.join(tbindir if rt == "tokio" else bindir, "conn")
        data = "\n".join(json.dumps(j) for j in js) + "\n"
        p = run_bin(exe, ["48"], stdin_data=data, timeout=3000)
        recs = parse_jsonl(p.stdout)
        errs = [r for r in recs if "error" in r]
        recs = [r for r in recs if "events" in r]
        if p.returncode != 0 or len(recs) + len(errs) != len(js) or len(errs) > len(js) // 50:
            raise vlib.ToolError("conn harness (%s) rc=%s produced %d/%d records, %d errors: %s" % (rt, p.returncode, len(recs), len(js), len(errs), p.stderr[-1500:]))
        total_conns += len(recs)
        for r in recs:
            kinds = tuple((e["m"], e["tgt"], e["conn"], e["ver"], e["wf"], e["k"]) for e in r["script"])
            if len(r["script"]) >= 2 or r["plan"] != "whole":
                nontrivial.add((rt, kinds, r["plan"], len([e for e in r["events"] if e["e"] == "Send"])))
        ctx.sample({"runtime": rt, "connection": recs[len(recs) // 2]}, limit=4)
        for has_t in (True, False):
            grp = [r for r in recs if r["timeout"] == has_t]
            if not grp:
                continue
            label = "%s-%s" % (rt, "t" if has_t else "nt")
            ids = {r["id"] for r in grp}
            acc = validate(ctx, grp, [], has_t, label + "-ideal")
            left = [r for r in grp if r["id"] not in acc]
            openk = [d for d in OPEN_ORDER if ctx.known.is_open("C01", d)]
            attributed = {}
            # single deviations first, then all open deviations together
            for devset in ([openk[:1]] if openk else []) + ([openk] if len(openk) > 1 else []):
                if not left:
                    break
                a = validate(ctx, left, devset, has_t, label + "-" + "+".join(devset))
                for r in left:
                    if r["id"] in a:
                        attributed[r["id"]] = devset
                left = [r for r in left if r["id"] not in a]
            for rid, devset in attributed.items():
                for d in devset:
                    what = {"CrlfAfterBody": "CRLF after a non-empty body, beyond Content-Length (pinned by test_response)",
                            "ReadAheadLost": "bytes read ahead beyond the current request are dropped with the per-request BufReader: coalesced requests are never answered"}[d]
                    ctx.violation(what, None, dev=d)
            # level 2 (what may gate): what neither the code model nor an open deviation explains is judged with the statement's
            # named leniencies switched on; explained there => the tree differs from the code model only where the statement leaves room
            lenient = set()
            if left:
                lenient = validate(ctx, left, LENIENCIES + openk, has_t, label + "-leniencies")
                ll = [r for r in left if r["id"] in lenient]
                if ll:
                    ex = ll[0]
                    ctx.drift("conn-leniency", "%d connection(s) on the %s runtime differ from the code model only within a named leniency (%s); first: script=%s events=%s"
                              % (len(ll), rt, ", ".join(LENIENCIES), json.dumps([(e["k"], e["hl"], e["dl"]) for e in ex["script"]]),
                                 json.dumps([(e["e"], e["n"], e["r"]["st"]) for e in ex["events"]])[:600]),
                              {"kind": "c01-leniency", "runtime": rt, "has_timeout": has_t, "connections": ll[:5]})
                left = [r for r in left if r["id"] not in lenient]
            ctx.add_part(label, connections=len(grp), accepted_ideal=len(acc), explained_by_open_deviation=len(attributed), within_leniency=len(lenient), unexplained=len(left))
            if left:
                ex = left[0]
                ctx.violation("%d connection(s) on the %s runtime are not a behaviour of HttpConn (Dev={} nor any open deviation); first: script=%s plan=%s events=%s"
                              % (len(left), rt, json.dumps([(e["k"], e["m"], e["tgt"], e["conn"], e["ver"], e["wf"], e["hl"], e["bl"]) if e["k"] != "idle" else "idle" for e in ex["script"]]),
                                 ex["plan"], json.dumps([(e["e"], e["n"]) if e["e"] == "Send" else ((e["e"], e["r"]) if e["e"] == "Recv" else e["e"]) for e in ex["events"]])[:1500]),
                              {"kind": "connections", "runtime": rt, "has_timeout": has_t, "connections": left[:20]})
    ctx.cov["evaluations"] = total_conns
    ctx.cov["traces_validated_against_impl"] = total_conns
    ctx.cov["distinct_nontrivial"] = len(nontrivial)

    # ---- 4. "the matched route's CORS headers": spec/cors (builder-call sequences x requests, both runtimes) ----
    import c01_cors
    # "the matched route's CORS headers" is part of what C01 states: a disagreement here gates C01
    c01_cors.run_part(ctx, tier)

    # ---- 5. the TLS side (spec/tls, harness-tls; feature `tls`, which neither the test-suite nor any other check compiles).
    # "On any client connection": the per-connection loop over a TLS stream is C01 itself, so connections to App::run_tls
    # that HttpConn cannot explain gate; handshake handling, the force-HTTPS listener and the https client go beyond
    # the statement and are reported as drift.
    import c01_tls
    vlib.run_growth(ctx, "tls", c01_tls.run_part, tier, gate_kinds=("tls-connections",))

    ctx.cov["rule"] = ("one evaluation = one real loopback connection (script x segmentation x runtime) whose client log was validated by TLC; "
                       "non-trivial = distinct (runtime, request kinds, plan, number of segments) with >= 2 script elements or a split delivery")
    ctx.assumptions += ["Expected(script) in HttpConn.tla is the reading of the property (DESIGN 5a: 400/408 checked for status and close only)",
                        "handler bodies used by the harness contain no line feed (desynchronised parsing can only yield 400/408/hang)",
                        "a silence of 4 s from a loopback server is a hang (Quiet); pacing uses the expected response count, the verdict is TLC's"]
    return ctx.finish()
