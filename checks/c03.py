"""C03 - no input can crash, wedge or exhaust a parser.

The spec side is deliberately thin (DESIGN 5 C03 and 8): a TLA+ model cannot argue about slicing at a
non-boundary or vec![0; n].  What TLC does here:

1. Mutants.tla (Dev = {}): enumerates the input families of the quantifier as states - all strings of <= MaxShort
   symbols over a per-parser protocol alphabet, every prefix of every seed, single-site mutants (length fields
   <- boundary / huge values, CR/LF/colon/space removed or doubled, 2-/3-/4-byte and invalid UTF-8 at every
   position, one multi-byte representative of every Unicode class Rust's char predicates / case mappings distinguish
   (Nd of 2, 3, 4 bytes, No, Nl, non-ASCII White_Space, length-changing case mappings, Mn, Co) inserted at and
   replacing every position, WebSocket length codes), nesting 1..400 (+ deeper) - takes the Parse action on each and checks the
   property ParseTotal (ParseGuard: outcome in {ok, err}, peak <= K*(len+C)).  For every named deviation (the
   defects of the code as it stood + plausible bugs) a sensitivity config must be VIOLATED inside the families;
   the witness TLC prints is replayed on the real code.
2. ParseSup.tla: the supervisor / worker observation protocol of the harness (pipelined window, death
   attribution, restart) explored exhaustively: exact attribution, completeness, termination; four plausible
   supervisor mistakes must each be caught.
3. spec -> code: the families TLC prints (bytes) are fed by `parsefuzz run` to isolated worker processes
   (RLIMIT_AS, counting allocator, catch_unwind, watchdog, 2 MiB parser stack), all-at-once and byte-by-byte,
   plus a seeded Rust-side generator (random bytes, token soup over TLC's alphabets, multi-site mutations of
   TLC's seeds, nesting to 200 000, 64 KiB inputs).
4. code -> spec: the outcome log (one record per parser call) is validated by TLC with Trace_Mutants.tla: every
   record must satisfy ParseGuard and the log must have the shape ParseSup allows.  Rejected records are
   attributed by the spec's Explains(d, r) to a named deviation or reported as violations.
5. self-test of the binding: a log with one flipped outcome, one inflated peak and one dropped record must be
   rejected by TLC.
Python only orchestrates."""
import concurrent.futures as cf
import json
import os
import shutil

import vlib
from vlib import Ctx, run_tlc, build_harness, run_bin, parse_jsonl, SPEC

D = os.path.join(SPEC, "mutants")

# sensitivity configs MC_Mutants_dev_<name>.cfg (ClaimedLengthAlloc: one per site family - request, response, frame)
DEVS = ["SlicePanicReq", "NoColonPanicResp", "ClaimedLengthAlloc_req", "ClaimedLengthAlloc_resp", "ClaimedLengthAlloc_ws",
        "ParseSizePanic", "HostQuotePanic", "ConfRecursionUnbounded", "JsonDepthUnchecked", "Utf8Unwrap", "EmptyInputIndex",
        "UnicodeNumericSlice", "UnicodeNumericSlice_short", "FrameLenOverflow", "LoneQuoteSlice", "KindDepthUnchecked_conf",
        "KindDepthUnchecked_json"]
SUP_BUGS = [("MC_ParseSup_bug1.cfg", "BlameLastSent"), ("MC_ParseSup_bug2.cfg", "NoSkipAfterDeath"),
            ("MC_ParseSup_bug3.cfg", "ReapBeforeDrain"), ("MC_ParseSup_bug4.cfg", "BlameAfterSelfExit")]
MUT_ACTIONS = ["EnumShort", "EnumMut", "Parse"]
SUP_ACTIONS = ["Sup_Spawn", "Sup_Send", "Sup_CloseStdin", "Wrk_Begin", "Wrk_Finish", "Wrk_SelfExit", "Wrk_Die",
               "Wrk_Eof", "Sup_Read", "Sup_Reap"]


def _canon(x):
    return json.dumps(x, separators=(",", ":"), sort_keys=True)


def _validate_log(path, tag):
    """TLC judges one log file. Returns (TLCResult, verdict dict or None)."""
    r = run_tlc("Trace_Mutants.tla", "Trace_Mutants.cfg", D, workers=1, env={"TRACE": path}, timeout=2400,
                work_id="c03-tr-" + tag, deque=True, heap="3g")
    verdict = None
    if r.violation:
        if r.violated_name != "AllAgree" or not r.prints:
            raise vlib.ToolError("trace validation of %s failed unexpectedly: %s" % (path, r.out[-1500:]))
        verdict = r.prints[-1]
    return r, verdict


def _count_lines(path):
    n = 0
    with open(path, "rb") as f:
        for _ in f:
            n += 1
    return n


def _run_harness(pf, cases_path, prefix, shards, extra):
    p = run_bin(pf, ["run", "--cases", cases_path, "--log-prefix", prefix, "--shards", str(shards)] + extra,
                timeout=3000)
    res = [x for x in parse_jsonl(p.stdout) if x.get("summary")]
    if p.returncode != 0 or not res:
        raise vlib.ToolError("parsefuzz run failed rc=%s: %s" % (p.returncode, p.stderr[-2000:]))
    return res[0]


def _route_rejected(ctx, verdict, logname, hexes):
    """Rejected records, each with the deviations the spec says explain it: route to known finding / violation."""
    if verdict["shape"]:
        # The shape of the log (sequence numbers, worker generations, who wrote a record) is produced by the harness's own
        # supervisor, not by the code under test: a break is a defect of the tooling and says nothing about the property.
        SHAPE_PROBLEMS.append("outcome log %s does not have the shape ParseSup allows; first: %s" % (logname, json.dumps(verdict["shape"][:2])))
    groups = {}
    for x in verdict["rejected"]:
        rec = x["rec"]
        expl = sorted(x["expl"])
        key = (expl[0] if len(expl) == 1 else None, rec["p"], rec["o"], rec["cls"], rec["file"])
        groups.setdefault(key, []).append(rec)
    for (dev, p, o, cls, f), recs in sorted(groups.items(), key=lambda kv: str(kv[0])):
        first = recs[0]
        what = ("parser %s: outcome %s%s on %d recorded call(s) (ParseGuard rejects); first: input id %s, %d bytes, delivery %s, "
                "peak %s KiB, family %s" % (p, o, (" [%s at %s:%s]" % (cls, f, first["line"])) if cls else "", len(recs), first["id"],
                                            first["len"], first["d"], first["kib"], first["fam"]))
        cases = [dict(r, hex=hexes.get((r["id"], r["d"]))) for r in recs[:10]]
        ctx.violation(what, {"kind": "c03-records", "dev_explaining": dev, "records": cases}, dev=dev)
    more = verdict["nrejected"] - len(verdict["rejected"])
    if more > 0:
        ctx.violation("%d further rejected records in %s were not listed" % (more, logname), {"kind": "c03-overflow", "log": logname})


SHAPE_PROBLEMS = []


def _finish(ctx):
    """Tooling problems (log shape) are exit 2 - unless a violation of the property is established, which is reported."""
    if SHAPE_PROBLEMS:
        _selftest_failed(ctx, "; ".join(SHAPE_PROBLEMS[:3]))
    return ctx.finish()


def _selftest_failed(ctx, msg):
    """A self-test of the check's own machinery failed: a tool error (exit 2) - unless the run has already established a
    violation on the tree, which must still be reported (exit 1)."""
    if ctx.violations:
        vlib.log("[C03] " + msg + " (reported after the violations below)")
    else:
        raise vlib.ToolError(msg)


def run(tier, replay):
    ctx = Ctx("C03", tier, "exploration")
    thorough = tier == "thorough"
    bindir = build_harness(["parsefuzz"])
    pf = os.path.join(bindir, "parsefuzz")
    wd = vlib.workdir("C03")
    for f in os.listdir(wd):
        if f.startswith("log.") or f.startswith("selftest") or f.startswith("cases") or f.startswith("replay"):
            p = os.path.join(wd, f)
            shutil.rmtree(p, ignore_errors=True) if os.path.isdir(p) else os.remove(p)

    if replay:
        return _replay(ctx, pf, wd, replay)

    pool = cf.ThreadPoolExecutor(max_workers=10)

    # ---- 1./2. TLC on the models, generation: all started now, consumed as the pipeline needs them -----------------
    f_mc = pool.submit(run_tlc, "MC_Mutants.tla", "MC_Mutants_thorough.cfg" if thorough else "MC_Mutants_quick.cfg", D,
                       workers=6, coverage=True, timeout=3000, work_id="c03-mc", heap="4g")
    gens = ["Gen_Mutants_thoroughA.cfg", "Gen_Mutants_thoroughB.cfg"] if thorough else ["Gen_Mutants_quickA.cfg", "Gen_Mutants_quickB.cfg"]
    f_gen = [pool.submit(run_tlc, "MC_Mutants.tla", g, D, workers=4, timeout=3000, work_id="c03-gen%d" % i, heap="4g")
             for i, g in enumerate(gens)]

    def sup_runs():
        out = []
        out.append(("sup", run_tlc("ParseSup.tla", "MC_ParseSup_thorough.cfg" if thorough else "MC_ParseSup_quick.cfg", D, workers=4,
                                   coverage=True, timeout=3000, work_id="c03-sup", heap="3g")))
        out.append(("sup-ideal", run_tlc("ParseSup.tla", "MC_ParseSup_ideal.cfg", D, workers=2, timeout=900, work_id="c03-sup", heap="2g")))
        for cfg in ("MC_ParseSup_sens_die.cfg", "MC_ParseSup_sens_hang.cfg"):
            out.append(("sup-sens:" + cfg, run_tlc("ParseSup.tla", cfg, D, workers=1, timeout=900, work_id="c03-sup", heap="2g")))
        for cfg, bug in SUP_BUGS:
            out.append(("sup-bug:" + bug, run_tlc("ParseSup.tla", cfg, D, workers=1, timeout=900, work_id="c03-sup", heap="2g")))
        return out

    def dev_runs(devs, tag):
        return [("dev:" + d, run_tlc("MC_Mutants.tla", "MC_Mutants_dev_%s.cfg" % d, D, workers=1, timeout=1800,
                                     work_id="c03-dev" + tag, heap="3g")) for d in devs]
    f_small = [pool.submit(sup_runs), pool.submit(dev_runs, DEVS[0::2], "a"), pool.submit(dev_runs, DEVS[1::2], "b")]

    # ---- generation results -> cases file ----------------------------------------------------------------------
    lines = []
    tlc_inputs = 0
    for g, f in zip(gens, f_gen):
        r = f.result()
        if r.violation:
            if r.violated_name == "GenGuard":
                ctx.require_tlc_ok("generation %s: the ideal model (Dev={}) breaks ParseGuard" % g, r)
            else:
                raise vlib.ToolError("generation %s failed: %s" % (g, r.out[-2000:]))
        ctx.add_tlc("enumeration of the input families as states + GenGuard (%s)" % g, r,
                    note="every state is one input (or one inapplicable site); lines printed: %d" % len(r.prints))
        lines += [_canon(x) for x in r.prints]
        tlc_inputs += r.distinct
    lines.sort()                      # TLC ran with several workers: fix the order so that input ids are reproducible
    cases_path = os.path.join(wd, "cases.ndjson")
    with open(cases_path, "w") as f:
        f.write("\n".join(lines))
        f.write("\n")
    del lines

    # ---- 3. the real parsers, in isolated workers (threaded build and, for the request parser, the tokio build) -----
    shards = 16 if thorough else 8
    extra = ["--random", "300000" if thorough else "30000", "--random-maxlen", "4096" if thorough else "512",
             "--deep", "1000,3000,20000,200000", "--big", "--rlimit-mb", "1024", "--stack-kib", "2048", "--watchdog-ms", "5000"]
    prefix = os.path.join(wd, "log")
    tk_bindir = build_harness(["parsefuzz"], tokio=True)
    tk_prefix = os.path.join(wd, "log.tokio")
    tk_shards = 4
    f_main = pool.submit(_run_harness, pf, cases_path, prefix, shards, extra)
    f_tk = pool.submit(_run_harness, pf, cases_path, tk_prefix, tk_shards,
                       extra + ["--worker-exe", os.path.join(tk_bindir, "parsefuzz"), "--only-parser", "req", "--as-parser", "reqtk"])

    # 5b (started early, it only needs the binary): the observation mechanism observes every kind of misbehaviour
    def mechanism_selftest():
        seq = "opoaesomoMohoe"     # ok panic ok abort err stack ok oom ok over-bound ok hang ok err
        st_cases = os.path.join(wd, "selftest-cases.ndjson")
        vlib.write_lines(st_cases, [{"k": "in", "p": "selftest", "fam": "selftest", "b": [ord(c), 1, 2]} for c in seq])
        st = _run_harness(pf, st_cases, os.path.join(wd, "selftest-log"), 1, ["--watchdog-ms", "300"])
        stl = os.path.join(wd, "selftest-log.0.ndjson")
        r, verdict = _validate_log(stl, "st2")
        os.remove(stl)
        os.remove(st_cases)
        return st, r, verdict
    f_mech = pool.submit(mechanism_selftest)

    s = f_main.result()
    # fail-fast: after 5 confirmed hangs (50 deaths) of a (parser, delivery) the supervisor stops feeding it; the records
    # logged so far carry the violation, the rest is declared as skipped.  On a healthy tree nothing is skipped.
    if s["records"] + s["skipped_total"] != s["items"]:
        raise vlib.ToolError("harness logged %d records (+%d skipped) for %d (input, delivery) items" % (s["records"], s["skipped_total"], s["items"]))
    hexes = {(r["id"], r["d"]): r.get("hex") for r in s["not_total"]}
    ctx.cov["evaluations"] = s["records"]
    ctx.cov["distinct_nontrivial"] = s["distinct_nontrivial"]
    ctx.add_part("harness", inputs=s["inputs"], distinct_inputs=s["distinct_inputs"], calls=s["records"], by_outcome=s["by_outcome"],
                 worker_restarts=s["worker_restarts"], worst_peak=s["worst_kib"], max_call_us=s["max_call_us"],
                 max_input_len=s["max_input_len"], shards=shards, rlimit_mb=s["rlimit_mb"], stack_kib=s["stack_kib"],
                 watchdog_ms=s["watchdog_ms"], wall_s=round(s["wall_s"], 1), tlc_states_enumerated=tlc_inputs,
                 skipped_after_confirmed_hangs_or_deaths=s["skipped"])
    if s["skipped_total"]:
        vlib.log("[C03] fail-fast: %d calls not run after repeated hangs/deaths: %s" % (s["skipped_total"], s["skipped"]))
    ctx.add_part("families", **{k.replace("/", ":"): v for k, v in s["by_family"].items()})
    for x in s["samples"]:
        ctx.sample(x)

    # ---- 4. TLC judges the outcome logs ---------------------------------------------------------------------------
    logs = [("%s.%d.ndjson" % (prefix, i)) for i in range(shards)]
    futs = [pool.submit(_validate_log, lp, str(i)) for i, lp in enumerate(logs)]

    # 5a. self-test of the binding: corrupted logs must be rejected (base: clean records of the first log, renumbered)
    recs = []
    with open(logs[0]) as f:
        for x in f:
            r0 = json.loads(x)
            if r0["o"] in ("ok", "err") and r0["kib"] <= r0["len"] + 65536:
                r0.update(n=len(recs), g=0, rt=0)
                recs.append(r0)
                if len(recs) == 400:
                    break
    if len(recs) < 400:
        raise vlib.ToolError("not enough records for the binding self-test")
    tests = []
    a = [dict(x) for x in recs]
    a[37]["o"] = "panic"; a[37]["cls"] = "index_oob"; a[37]["file"] = "humphrey/src/http/request.rs"
    tests.append(("flipped-outcome", a, lambda v: v["nrejected"] == 1 and v["rejected"][0]["idx"] == 38 and not v["rejected"][0]["expl"]))
    b = [dict(x) for x in recs]
    b[120]["kib"] = b[120]["len"] + 65536 + 1
    tests.append(("inflated-peak", b, lambda v: v["nrejected"] == 1 and v["rejected"][0]["idx"] == 121))
    c = [dict(x) for x in recs]
    del c[200]
    tests.append(("dropped-record", c, lambda v: v["nrejected"] == 0 and len(v["shape"]) >= 1 and v["shape"][0]["idx"] == 201))
    d = [dict(x) for x in recs]
    d[10]["o"] = "abort"; d[10]["src"] = "sup"       # a death without a restart after it
    tests.append(("death-without-restart", d, lambda v: v["nrejected"] == 1 and len(v["shape"]) >= 1))
    st_futs = []
    for name, rr, ok in tests:
        pth = os.path.join(wd, "selftest-%s.ndjson" % name)
        vlib.write_lines(pth, rr)
        st_futs.append((name, pth, ok, pool.submit(_validate_log, pth, "st-" + name)))

    validated = 0
    for lp, f in zip(logs, futs):
        r, verdict = f.result()
        n = _count_lines(lp)
        if r.distinct != n + 1:
            raise vlib.ToolError("TLC consumed %d of %d records of %s" % (r.distinct - 1, n, lp))
        validated += n
        ctx.add_tlc("trace validation of %s (%d records)" % (os.path.basename(lp), n), r)
        if verdict is not None:
            _route_rejected(ctx, verdict, os.path.basename(lp), hexes)
    if validated != s["records"]:
        raise vlib.ToolError("validated %d records, harness wrote %d" % (validated, s["records"]))

    # ---- 4b. the tokio copy of the request parser: same inputs, served by the harness-tokio worker ----------------------
    tk = f_tk.result()
    if tk["records"] + tk["skipped_total"] != tk["items"] or tk["records"] == 0:
        raise vlib.ToolError("tokio twin logged %d records for %d items" % (tk["records"], tk["items"]))
    tk_logs = ["%s.%d.ndjson" % (tk_prefix, i) for i in range(tk_shards)]
    hexes.update({(r["id"], r["d"]): r.get("hex") for r in tk["not_total"]})
    for lp, f in zip(tk_logs, [pool.submit(_validate_log, lp, "tk%d" % i) for i, lp in enumerate(tk_logs)]):
        r, verdict = f.result()
        n = _count_lines(lp)
        if r.distinct != n + 1:
            raise vlib.ToolError("TLC consumed %d of %d records of %s" % (r.distinct - 1, n, lp))
        validated += n
        ctx.add_tlc("trace validation of %s (tokio request parser, %d records)" % (os.path.basename(lp), n), r)
        if verdict is not None:
            _route_rejected(ctx, verdict, os.path.basename(lp), hexes)
        os.remove(lp)
    ctx.cov["evaluations"] += tk["records"]
    ctx.add_part("harness_tokio_request_parser", inputs=tk["inputs"], calls=tk["records"], by_outcome=tk["by_outcome"],
                 worker_restarts=tk["worker_restarts"], worst_peak=tk["worst_kib"], wall_s=round(tk["wall_s"], 1),
                 skipped_after_confirmed_hangs_or_deaths=tk["skipped"])

    # ---- the model runs ---------------------------------------------------------------------------------------------
    witnesses = {}
    for fs in f_small:
        for name, r in fs.result():
            if name == "sup":
                ctx.add_tlc("ParseSup: supervisor/worker protocol, all behaviours, Bug={}", r)
                ctx.require_tlc_ok("MC_ParseSup", r)
                ctx.require_cover("MC_ParseSup", r, SUP_ACTIONS)
            elif name == "sup-ideal":
                ctx.add_tlc("ParseSup: ideal parsers (ok/err only) => log is total", r)
                ctx.require_tlc_ok("MC_ParseSup_ideal", r)
            elif name.startswith("sup-sens:"):
                ctx.add_tlc("sensitivity: %s must violate AllTotal" % name[9:], r)
                if r.violation != "invariant" or r.violated_name != "AllTotal":
                    raise vlib.ToolError("model lost sensitivity: %s no longer violates AllTotal" % name)
            elif name.startswith("sup-bug:"):
                ctx.add_tlc("sensitivity: supervisor bug %s must be caught" % name[8:], r)
                if r.violation is None:
                    raise vlib.ToolError("model lost sensitivity: supervisor bug %s is no longer caught" % name[8:])
            elif name.startswith("dev:"):
                d = name[4:]
                ctx.add_tlc("sensitivity: Dev={%s} must violate ParseTotal inside the families" % d, r)
                w = [x for x in r.prints if isinstance(x, dict) and x.get("fam") == "witness"]
                if r.violation != "invariant" or r.violated_name != "ParseTotalW" or not w:
                    raise vlib.ToolError("model lost sensitivity: Dev={%s} no longer violates ParseTotal (families vacuous for it)" % d)
                witnesses[d] = w[0]
    r = f_mc.result()
    ctx.add_tlc("Mutants: families + Parse action, Dev={} (ParseTotal)", r)
    ctx.require_tlc_ok("MC_Mutants", r)
    ctx.require_cover("MC_Mutants", r, MUT_ACTIONS)

    # the witnesses TLC found for the deviations, replayed on the real code and judged like every other call
    w_cases = os.path.join(wd, "cases-witness.ndjson")
    vlib.write_lines(w_cases, [{"k": "in", "p": w["p"], "fam": "witness-" + d, "len": w["len"], "b": w["b"]} for d, w in sorted(witnesses.items())])
    ws = _run_harness(pf, w_cases, os.path.join(wd, "log.witness"), 1, ["--rlimit-mb", "1024", "--stack-kib", "2048", "--watchdog-ms", "5000"])
    wl = os.path.join(wd, "log.witness.0.ndjson")
    r, verdict = _validate_log(wl, "wit")
    ctx.add_tlc("trace validation of the deviation witnesses replayed on the real code (%d records)" % ws["records"], r)
    hexes.update({(x["id"], x["d"]): x.get("hex") for x in ws["not_total"]})
    if verdict is not None:
        _route_rejected(ctx, verdict, os.path.basename(wl), hexes)
    wit = {}
    with open(wl) as f:
        for line in f:
            rec = json.loads(line)
            wit.setdefault(rec["fam"][8:], []).append("%s/%s:%s" % (rec["p"], rec["d"], rec["o"]))
    ctx.add_part("deviation_witnesses_on_real_code", **{d: sorted(v) for d, v in wit.items()})
    validated += ws["records"]
    ctx.cov["evaluations"] += ws["records"]
    ctx.cov["traces_validated_against_impl"] = validated
    os.remove(wl)
    os.remove(w_cases)

    # ---- 5. self-tests ---------------------------------------------------------------------------------------------------
    for name, pth, ok, f in st_futs:
        r, verdict = f.result()
        ctx.add_tlc("self-test: corrupted log (%s) must be rejected" % name, r)
        if verdict is None or not ok(verdict):
            _selftest_failed(ctx, "binding self-test failed: corrupted log %s was not rejected as expected: %s" % (name, json.dumps(verdict)[:600]))
        os.remove(pth)
    ctx.add_part("self_test", corrupted_logs_rejected=[t[0] for t in tests])
    st, r, verdict = f_mech.result()
    want = {"ok": 7, "err": 2, "panic": 1, "abort": 1, "stack": 1, "oom": 1, "timeout": 1}
    if st["by_outcome"] != want:
        _selftest_failed(ctx, "mechanism self-test: observed %s, expected %s" % (st["by_outcome"], want))
    ctx.add_tlc("self-test: stand-in parser that panics/aborts/overflows/exhausts/hangs: log shape must hold, 6 records rejected", r)
    got_ids = sorted(x["rec"]["id"] for x in verdict["rejected"]) if verdict else []
    if verdict is None or verdict["shape"] or got_ids != [1, 3, 5, 7, 9, 11] or any(x["expl"] for x in verdict["rejected"]):
        _selftest_failed(ctx, "mechanism self-test: TLC verdict unexpected: %s" % json.dumps(verdict)[:800])
    ctx.add_part("mechanism_self_test", outcomes=st["by_outcome"], rejected_ids=got_ids, worker_restarts=st["worker_restarts"])

    for lp in logs:
        os.remove(lp)
    os.remove(cases_path)
    pool.shutdown()

    ctx.cov["rule"] = ("inputs = families enumerated by TLC from Mutants.tla (all strings of <=%d alphabet symbols per parser, every prefix of every "
                       "seed, every truncation followed by a lone delimiter / unterminated token, single-site mutants incl. 59 length values and 19 Unicode-class characters at every position (quick: every 2nd position + all number-like sites), WebSocket length codes, nesting per container kind, documents of 2..400 small items; the second generation config uses one symbol less) + seeded random bytes / "
                       "token soup / multi-site mutants / deep / big; "
                       "each run as one parser call per delivery (evaluations = calls, every one judged by TLC). distinct_nontrivial = distinct "
                       "(parser, bytes) inputs that are derived from a seed message (prefix, mutant, nest, wslen, rand-mut, deep, big, witness) or were "
                       "accepted (outcome ok) by the parser, i.e. that get past the first token; rejected short strings and random bytes are not counted"
                       % (5 if thorough else 4))
    ctx.cov["exhaustive"] = False
    ctx.cov["explanation"] = ("exploration: TLA+ defines and TLC enumerates the bounded input families and evaluates the Parse guard on the model and on "
                              "every recorded call of the real parsers; no model of the parsers' memory behaviour exists (thin by design)")
    ctx.assumptions += [
        "ParseGuard in ParseProp.tla (outcome in {ok, err}; peak allocation <= 1024*(len + 64 KiB)) is the reading of the property (DESIGN 5a C03)",
        "the worker observes the process faithfully: counting global allocator (peak/largest request during the call), catch_unwind, RLIMIT_AS 1 GiB, "
        "watchdog 5 s (a first hang is confirmed with 15 s and 30 s before it counts; after 5 logged hangs of a parser/delivery its remaining inputs are skipped), parser thread stack 2 MiB (Rust's default for spawned threads, which is where handlers run)",
        "json / conf take a complete &str: no byte-by-byte delivery exists for them; invalid UTF-8 reaches them only as the lossy conversion",
        "wsmsg runs over a socketpair wrapped as TcpStream; its byte-by-byte delivery is best effort (exact one-byte reads are exercised on the frame decoder)",
        "the tokio copy of the request parser is run by the harness-tokio worker on a current-thread runtime over an always-ready scripted AsyncRead",
        "include directives in configuration inputs name files that do not exist (worker cwd is an empty directory)",
    ]
    return _finish(ctx)


def _replay(ctx, pf, wd, replay):
    """Re-run the records of a replay file: same parser, bytes and deliveries, judged by TLC again."""
    obj = json.load(open(replay))
    case = obj.get("case", {})
    recs = [r for r in case.get("records", []) if r.get("hex") is not None]
    if not recs:
        raise vlib.ToolError("replay file %s has no records with input bytes" % replay)
    cases_path = os.path.join(wd, "replay-cases.ndjson")
    seen = set()
    lines = []
    for r in recs:
        key = (r["p"], r["hex"])
        if key in seen:
            continue
        seen.add(key)
        lines.append(_canon({"k": "in", "p": r["p"], "fam": "replay", "b": list(bytes.fromhex(r["hex"]))}))
    with open(cases_path, "w") as f:
        f.write("\n".join(lines) + "\n")
    prefix = os.path.join(wd, "replay-log")
    s = _run_harness(pf, cases_path, prefix, 1, ["--rlimit-mb", "1024", "--stack-kib", "2048", "--watchdog-ms", "5000"])
    lp = prefix + ".0.ndjson"
    r, verdict = _validate_log(lp, "rp")
    ctx.add_tlc("trace validation of the replayed records", r)
    ctx.cov["evaluations"] = s["records"]
    ctx.cov["distinct_nontrivial"] = max(2, s["distinct_nontrivial"])
    ctx.cov["traces_validated_against_impl"] = s["records"]
    ctx.cov["rule"] = "replay of %d input(s) from %s" % (len(lines), replay)
    ctx.sample({"replayed": [x for x in s["not_total"][:3]]} if s["not_total"] else {"replayed_outcomes": s["by_outcome"]})
    if verdict is not None:
        hexes = {(x["id"], x["d"]): x.get("hex") for x in s["not_total"]}
        _route_rejected(ctx, verdict, os.path.basename(lp), hexes)
    os.remove(lp)
    os.remove(cases_path)
    return _finish(ctx)
