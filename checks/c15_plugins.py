"""C15, spec growth "plugins" - humphrey-server built with the `plugins` feature: the plugin manager and the PHP
plugin's FastCGI client.  (Nothing else compiles that feature: no test, no other check.)

spec/plugins/Plugins.tla  the manager as a state machine: Load(i) in configuration order with the three on_load results
  (Ok = kept, NonFatal = skipped, Fatal = the server refuses to start), Request_Offer(p) down the kept list until the
  first Some(response), Request_Route when nobody answered, Response_Apply(p) by every kept plugin, Unload(p).
spec/plugins/Fcgi.tla     FastCGI 1.0: record layout, name-value pairs, the request stream grammar
  Begin Params* EmptyParams Stdin* EmptyStdin, Decode(Encode(r)) = r, the CGI variables of an HTTP request, the response
  reader as a machine and the CGI response (Status / headers / blank line / body) as the HTTP response.

run_part(ctx, tier):
1. TLC, exhaustive: MC_Plugins (every configuration of <= 3 plugins x every request path), MC_Fcgi (round trips over the
   length boundaries 0,1,127,128 / 65535, the reader machine), with vacuity guards (-coverage).
2. Sensitivity: every named deviation (plausible bugs of the manager; the genuine defects of the FastCGI client) must
   be refuted by TLC.
3. Binding, hook-free, end to end: the REAL `humphrey` binary built with `--features plugins` loads
   (a) several instances of the logging test plugin harness-plugin/ (libhvplug.so) - the manager trace - and
   (b) the real PHP plugin (plugins/php as a cdylib) talking to a scripted FastCGI responder on a loopback port, which
       plays TLC-generated record scripts byte-exactly under seeded TCP segmentations and records every byte it gets.
   The observations (plugin call log, FastCGI bytes per request, HTTP responses, process deaths) are written as ndjson and
   validated by TLC: Trace_Plugins / Trace_Fcgi compute for every record the set of named deviations needed to explain it
   (or UNEXPLAINED) and fail an invariant listing the records that Dev = {} cannot explain.
4. Binding self-test: one corrupted byte / one corrupted log line must be rejected as UNEXPLAINED.

Everything here is beyond the 20 listed properties: run through vlib.run_growth (mismatch = SPEC-DRIFT).
`python3 checks/c15_plugins.py quick|thorough` runs it alone (evidence to .work/C15plug)."""
import copy
import fcntl
import json
import os
import random
import re
import shutil
import socket
import subprocess
import sys
import threading
import time
from concurrent.futures import ThreadPoolExecutor

sys.path.insert(0, os.path.join(os.path.dirname(os.path.dirname(os.path.abspath(__file__))), "lib"))
sys.path.insert(0, os.path.dirname(os.path.abspath(__file__)))
import vlib
from vlib import run_tlc, SPEC

D = os.path.join(SPEC, "plugins")
PLUGIN_CRATE = os.path.join(vlib.ROOT, "harness-plugin")
MGR_BUGS = ["LaterPluginWins", "SkippedPluginStillAsked", "ResponseHookSkippedOnPluginResponse", "NonFatalKept",
            "FatalStillServes", "LoadOrderReversed", "DoubleUnload"]
FCGI_GENUINE = ["RequestIdZero", "RequestUriDoubleSlash", "UnknownStatusBecomes200", "ContentLengthTruncatedU16", "StderrInResponse", "UnknownTypePanics", "NonUtf8Panics",
                "BadStatusPanics", "ConnErrorExitsServer"]
FCGI_BUGS = ["PadCountedAsContent", "ShortLenFormAt128"]
MGR_ACTIONS = ["Load", "StartServing", "NewRequest", "Request_Offer", "Request_Route", "Response_Apply", "Finish", "Shutdown", "Unload"]
RD_ACTIONS = ["R_Stdout", "R_Stderr", "R_End", "R_Unknown", "R_Eof"]
TO = 600


# ------------------------------------------------------------------------------------------------------------------
# builds (never into /repo; one target directory per checkout)
# ------------------------------------------------------------------------------------------------------------------

def _tdir(name):
    if os.path.abspath(vlib.REPO) == "/repo":
        return os.path.join(vlib.HARNESS, "target", name)
    return os.path.join(vlib.WORK, "target-alt-%s-%s" % (name, vlib.alt_tag(vlib.REPO)))


def _cargo(cmd, cwd):
    return subprocess.run(cmd, cwd=cwd, env=vlib.cargo_env(), stdout=subprocess.PIPE, stderr=subprocess.STDOUT, text=True)


def _paths_override():
    if os.path.abspath(vlib.REPO) == "/repo":
        return []
    crates = ["humphrey", "humphrey-ws", "humphrey-json", "humphrey-json-derive", "humphrey-auth", "humphrey-server"]
    return ["--config", "paths=[%s]" % ",".join('"%s"' % os.path.join(os.path.abspath(vlib.REPO), c) for c in crates)]


def build_all():
    """-> (server, libhvplug.so, libphp.so); raises vlib.ToolError with the compiler's words when one does not build."""
    os.makedirs(vlib.WORK, exist_ok=True)
    lockf = open(os.path.join(vlib.WORK, "build-plugins.lock"), "w")
    fcntl.flock(lockf, fcntl.LOCK_EX)
    try:
        repo = os.path.abspath(vlib.REPO)
        # 1. the server with the feature
        tdir = _tdir("server-plugins")
        cmd = ["cargo", "build", "--release", "--offline", "-q", "--features", "plugins", "--manifest-path",
               os.path.join(repo, "humphrey-server", "Cargo.toml"), "--target-dir", tdir]
        p = _cargo(cmd, repo)
        server = os.path.join(tdir, "release", "humphrey")
        if p.returncode != 0 or not os.path.exists(server):
            raise vlib.ToolError("humphrey-server --features plugins does not build:\n" + "\n".join(p.stdout.splitlines()[-40:]))
        # 2. the logging test plugin (path dependencies on /repo, replaced by name for another checkout)
        if not os.path.exists(os.path.join(PLUGIN_CRATE, "Cargo.lock")):
            shutil.copy(os.path.join(repo, "Cargo.lock"), os.path.join(PLUGIN_CRATE, "Cargo.lock"))
        tdir2 = _tdir("hvplug")
        p = _cargo(["cargo", "build", "--release", "--offline", "-q", "--target-dir", tdir2] + _paths_override(), PLUGIN_CRATE)
        hv = os.path.join(tdir2, "release", "libhvplug.so")
        if p.returncode != 0 or not os.path.exists(hv):
            raise vlib.ToolError("the logging test plugin does not build against this tree:\n" + "\n".join(p.stdout.splitlines()[-40:]))
        # 3. the PHP plugin from a scratch copy (plugins/php is its own workspace: building in place would write
        #    Cargo.lock and target/ into the repository)
        src = os.path.join(vlib.WORK, "php-src-" + vlib.alt_tag(repo))
        shutil.rmtree(src, ignore_errors=True)
        os.makedirs(src)
        shutil.copytree(os.path.join(repo, "plugins", "php", "src"), os.path.join(src, "src"))
        toml = open(os.path.join(repo, "plugins", "php", "Cargo.toml")).read()
        toml = toml.replace('"../../humphrey-server"', '"%s"' % os.path.join(repo, "humphrey-server"))
        toml = toml.replace('"../../humphrey"', '"%s"' % os.path.join(repo, "humphrey"))
        open(os.path.join(src, "Cargo.toml"), "w").write(toml)
        shutil.copy(os.path.join(repo, "Cargo.lock"), os.path.join(src, "Cargo.lock"))
        tdir3 = _tdir("php-plugin")
        p = _cargo(["cargo", "build", "--release", "--offline", "-q", "--target-dir", tdir3], src)
        php = os.path.join(tdir3, "release", "libphp.so")
        if p.returncode != 0 or not os.path.exists(php):
            raise vlib.ToolError("plugins/php does not build:\n" + "\n".join(p.stdout.splitlines()[-40:]))
        return server, hv, php
    finally:
        fcntl.flock(lockf, fcntl.LOCK_UN)
        lockf.close()


# ------------------------------------------------------------------------------------------------------------------
# the scripted FastCGI responder
# ------------------------------------------------------------------------------------------------------------------

def enc_record(r):
    c = bytes(r["content"])
    n = r.get("clen", len(c))          # a script may lie about nothing: clen defaults to the real length
    return bytes([r.get("ver", 1), r["type"], r["id"] >> 8, r["id"] & 255, n >> 8, n & 255, r["pad"], 0]) + c + bytes(r["pad"])


def walk_request(buf):
    """Lenient walk over the bytes received so far, by the declared lengths: True when the stream has reached an
    empty STDIN record (the point at which a responder answers).  This is NOT the judge - Trace_Fcgi is."""
    i = 0
    while i + 8 <= len(buf):
        t, n, pad = buf[i + 1], (buf[i + 4] << 8) | buf[i + 5], buf[i + 6]
        if i + 8 + n + pad > len(buf):
            return False
        if t == 5 and n == 0:
            return True
        i += 8 + n + pad
    return False


class Responder(threading.Thread):
    """Accepts the plugin's connections; for every request (bytes up to an empty STDIN record, or whatever has arrived
    when the sender has been silent for `idle` seconds) records the bytes and plays the script set by the driver."""

    def __init__(self, rng):
        super().__init__(daemon=True)
        self.sock = socket.socket()
        self.sock.setsockopt(socket.SOL_SOCKET, socket.SO_REUSEADDR, 1)
        self.sock.bind(("127.0.0.1", 0))
        self.sock.listen(16)
        self.port = self.sock.getsockname()[1]
        self.rng = rng
        self.script = None          # {"records": [...], "cuts": "random"|"whole"|"bytes", "then": "keep"|"close"}
        self.rx = []                # list of (bytes, complete?)
        self.lock = threading.Lock()
        self.stop = False
        self.conns = []

    def run(self):
        self.sock.settimeout(0.2)
        while not self.stop:
            try:
                c, _ = self.sock.accept()
            except socket.timeout:
                continue
            except OSError:
                return
            c.setsockopt(socket.IPPROTO_TCP, socket.TCP_NODELAY, 1)
            self.conns.append(c)
            threading.Thread(target=self.serve, args=(c,), daemon=True).start()

    def serve(self, c):
        buf = b""
        last = time.time()
        c.settimeout(0.05)
        while not self.stop:
            try:
                d = c.recv(1 << 20)
                if not d:
                    return
                buf += d
                last = time.time()
            except socket.timeout:
                pass
            except OSError:
                return
            done = walk_request(buf)
            if buf and (done or time.time() - last > 0.6):
                with self.lock:
                    self.rx.append((buf, done))
                    sc = self.script
                buf = b""
                if sc is None:
                    continue
                try:
                    self.play(c, sc)
                except OSError:
                    return
                if sc.get("then") == "close":
                    try:
                        c.shutdown(socket.SHUT_RDWR)
                    except OSError:
                        pass
                    c.close()
                    return

    def play(self, c, sc):
        data = b"".join(enc_record(r) for r in sc["records"])
        mode = sc.get("cuts", "whole")
        if mode == "whole" or len(data) < 2:
            c.sendall(data)
            return
        if mode == "bytes":
            cuts = list(range(1, len(data)))
        else:
            k = min(len(data) - 1, self.rng.randint(1, 6))
            cuts = sorted(self.rng.sample(range(1, len(data)), k))
        prev = 0
        for q in cuts + [len(data)]:
            c.sendall(data[prev:q])
            prev = q
            time.sleep(0.0015)

    def take(self):
        with self.lock:
            r, self.rx = self.rx, []
        return r

    def close(self):
        self.stop = True
        try:
            self.sock.close()
        except OSError:
            pass
        for c in self.conns:
            try:
                c.close()
            except OSError:
                pass


# ------------------------------------------------------------------------------------------------------------------
# the real server
# ------------------------------------------------------------------------------------------------------------------

def free_port():
    s = socket.socket()
    s.bind(("127.0.0.1", 0))
    p = s.getsockname()[1]
    s.close()
    return p


class Server:
    def __init__(self, binary, work, plugins_conf, www, threads=2):
        self.port = free_port()
        self.conf = os.path.join(work, "srv-%d.conf" % self.port)
        self.out = os.path.join(work, "srv-%d.out" % self.port)
        with open(self.conf, "w") as f:
            f.write('server {\n  address "127.0.0.1"\n  port %d\n  threads %d\n\n  plugins {\n%s  }\n\n  route /* {\n    directory "%s"\n  }\n}\n'
                    % (self.port, threads, plugins_conf, www))
        self.fo = open(self.out, "w")
        self.p = subprocess.Popen([binary, self.conf], stdout=self.fo, stderr=subprocess.STDOUT, cwd=work)

    def wait_up(self, timeout=4.0):
        """-> "up" | "exit:<code>" | "silent" (still running, not accepting)"""
        t0 = time.time()
        while time.time() - t0 < timeout:
            rc = self.p.poll()
            if rc is not None:
                return "exit:%d" % rc
            try:
                s = socket.create_connection(("127.0.0.1", self.port), timeout=0.2)
                s.close()
                return "up"
            except OSError:
                time.sleep(0.02)
        return "silent"

    def alive(self):
        return self.p.poll() is None

    def exit_code(self, wait=1.0):
        try:
            return self.p.wait(timeout=wait)
        except subprocess.TimeoutExpired:
            return None

    def stop(self):
        if self.p.poll() is None:
            self.p.terminate()
            try:
                self.p.wait(timeout=2)
            except subprocess.TimeoutExpired:
                self.p.kill()
                self.p.wait()
        self.fo.close()

    def log_text(self):
        try:
            return open(self.out, errors="replace").read()
        except OSError:
            return ""


def http(port, method, target, headers, body, timeout=4.0):
    """One request on its own connection -> {"got": "response"|"closed"|"timeout"|"refused", status, headers, body}."""
    none = {"status": 0, "headers": [], "body": []}
    try:
        s = socket.create_connection(("127.0.0.1", port), timeout=timeout)
    except OSError:
        return dict(none, got="refused")
    try:
        req = "%s %s HTTP/1.1\r\n" % (method, target)
        hs = list(headers)
        if body is not None:
            hs.append(("Content-Length", str(len(body))))
        hs.append(("Connection", "close"))
        req += "".join("%s: %s\r\n" % h for h in hs) + "\r\n"
        s.sendall(req.encode("latin-1") + (body or b""))
        s.settimeout(timeout)
        data = b""
        try:
            while True:
                d = s.recv(1 << 16)
                if not d:
                    break
                data += d
                head, sep, rest = data.partition(b"\r\n\r\n")
                if sep:
                    m = re.search(rb"(?i)\r\ncontent-length:\s*(\d+)", head)
                    if m and len(rest) >= int(m.group(1)):
                        break
        except socket.timeout:
            if not data:
                return dict(none, got="timeout")
        except OSError:
            pass
        if not data:
            return dict(none, got="closed")
        head, _, rest = data.partition(b"\r\n\r\n")
        lines = head.split(b"\r\n")
        m = re.match(rb"HTTP/1\.[01] (\d{3})", lines[0])
        hl = []
        for l in lines[1:]:
            k, _, v = l.partition(b":")
            hl.append([k.decode("latin-1").strip().lower(), v.decode("latin-1").strip()])
        cl = [v for k, v in hl if k == "content-length" and v.isdigit()]
        if cl:
            rest = rest[:int(cl[0])]
        return {"got": "response", "status": int(m.group(1)) if m else 0, "headers": hl, "body": list(rest)}
    finally:
        s.close()


# ------------------------------------------------------------------------------------------------------------------
# manager sessions (logging test plugin)
# ------------------------------------------------------------------------------------------------------------------

PATHS = ["pa/x", "pb/x", "a.txt", "none"]       # two plugin-answerable prefixes, a file of the route, a 404 of the route
PREFIXES = ["", "pa", "pb", "p"]


def make_www(work):
    www = os.path.join(work, "www")
    os.makedirs(os.path.join(www, "sub"), exist_ok=True)
    open(os.path.join(www, "a.txt"), "w").write("file-a")
    open(os.path.join(www, "index.html"), "w").write("index")
    open(os.path.join(www, "s.php"), "w").write("<?php echo 1; ?>")
    open(os.path.join(www, "sub", "index.php"), "w").write("<?php echo 2; ?>")
    open(os.path.join(www, "sub", "t.php"), "w").write("<?php echo 3; ?>")
    return www


def read_calls(path):
    try:
        return [json.loads(l) for l in open(path) if l.strip()]
    except (OSError, ValueError):
        return []


def manager_session(binary, hv, work, www, cfg, n):
    """cfg = [{"load": ok|nonfatal|fatal, "prefix": str}] (ids are "1".."n", names in the file p1..pn)."""
    log = os.path.join(work, "calls-%d.log" % n)
    if os.path.exists(log):
        os.remove(log)
    sect = "".join('    p%d {\n      library "%s"\n      id "%d"\n      load "%s"\n      prefix "%s"\n      log "%s"\n    }\n'
                   % (i + 1, hv, i + 1, c["load"], c["prefix"], log) for i, c in enumerate(cfg))
    srv = Server(binary, work, sect, www)
    rec = {"kind": "mgr", "n": n, "cfg": [{"load": c["load"], "prefix": c["prefix"]} for c in cfg], "reqs": []}
    try:
        st = srv.wait_up(2.0 if any(c["load"] == "fatal" for c in cfg) else 5.0)
        rec["startup"] = "up" if st == "up" else ("refused" if st.startswith("exit:") and st != "exit:0" else st)
        rec["loads"] = [{"id": int(x["id"]), "res": x["res"]} for x in read_calls(log) if x["ev"] == "load"]
        seen = len(read_calls(log))
        if st == "up":
            for path in PATHS:
                r = http(srv.port, "GET", "/" + path, [("Host", "localhost")], None)
                calls = read_calls(log)
                new, seen = calls[seen:], len(calls)
                hd = dict((k, v) for k, v in r["headers"])
                rec["reqs"].append({
                    "path": path, "got": r["got"], "status": r["status"],
                    "by": int(hd["x-by"]) if hd.get("x-by", "").isdigit() else 0,
                    "body": bytes(r["body"]).decode("latin-1")[:40],
                    "seen": [int(k[7:]) for k, v in sorted(((k, v) for k, v in r["headers"] if k.startswith("x-seen-")), key=lambda kv: int(kv[1]) if kv[1].isdigit() else 99) if k[7:].isdigit()],
                    "offers": [{"id": int(x["id"]), "ans": bool(x["ans"])} for x in new if x["ev"] == "request"],
                    "applies": [int(x["id"]) for x in new if x["ev"] == "response"],
                    "order_ok": [x["ev"] for x in new] == ["request"] * sum(1 for x in new if x["ev"] == "request") + ["response"] * sum(1 for x in new if x["ev"] == "response"),
                    "other": sum(1 for x in new if x["ev"] not in ("request", "response"))})
            rec["alive"] = srv.alive()
        else:
            rec["alive"] = srv.alive()
        srv.stop()
        rec["unloads"] = [int(x["id"]) for x in read_calls(log) if x["ev"] == "unload"]
    finally:
        srv.stop()
    return rec


# ------------------------------------------------------------------------------------------------------------------
# FastCGI sessions (the real PHP plugin)
# ------------------------------------------------------------------------------------------------------------------

def ok_script(body=b"ok", status=None, headers=(("Content-type", "text/html"),), rid=0):
    out = b"".join(("%s: %s\r\n" % h).encode() for h in headers)
    if status:
        out = ("Status: %s\r\n" % status).encode() + out
    out += b"\r\n" + body
    return [{"type": 6, "id": rid, "content": list(out), "pad": 0},
            {"type": 6, "id": rid, "content": [], "pad": 0},
            {"type": 3, "id": rid, "content": [0, 0, 0, 0, 0, 0, 0, 0], "pad": 0}]


SYMS = ["REQUEST_METHOD", "REQUEST_URI", "QUERY_STRING", "CONTENT_LENGTH", "SCRIPT_FILENAME", "DOCUMENT_ROOT", "HTTP_HOST",
        "HTTP_COOKIE", "CONTENT_TYPE", "HTTP_USER_AGENT"]


class PhpSession:
    """One server process with the PHP plugin (one FastCGI connection) and one responder."""

    def __init__(self, binary, php, work, www, rng):
        self.rsp = Responder(rng)
        self.rsp.start()
        sect = '    php {\n      library "%s"\n      address "127.0.0.1"\n      port %d\n      threads 1\n    }\n' % (php, self.rsp.port)
        self.srv = Server(binary, work, sect, www)
        self.www = www
        self.up = self.srv.wait_up(5.0)

    def case(self, n, method, target, headers, body, script, cuts="random", then="keep", script_file=None, note=""):
        self.rsp.take()
        self.rsp.script = {"records": script, "cuts": cuts, "then": then}
        r = http(self.srv.port, method, target, [("Host", "localhost")] + list(headers), body, timeout=5.0)
        time.sleep(0.02)
        rx = self.rsp.take()
        path, _, query = target.partition("?")
        died = None
        if r["got"] != "response":
            time.sleep(0.15)
        if not self.srv.alive():
            died = self.srv.exit_code()
        hd = [[k, v] for k, v in r["headers"]]
        hmap = dict((k.lower(), v) for k, v in headers)
        B = lambda t: list(t.encode("latin-1"))
        return {"kind": "fcgi", "n": n, "note": note, "method": method, "uri": path, "query": query,
                "req": {"method": B(method), "uri": B(path), "query": B(query), "body": list(body or b""), "host": B("localhost"),
                        "cookie": B(hmap.get("cookie", "")), "ctype": B(hmap.get("content-type", "")), "ua": B(hmap.get("user-agent", "")),
                        "script_file": B(script_file or ""), "docroot": B(self.www)},
                "sym": {k: B(k) for k in SYMS},
                "rxall": [x for b, done in rx for x in b], "rx_chunks": [len(b) for b, done in rx],
                "rheaders": [[B(k), B(v)] for k, v in r["headers"]],
                "script": [{"type": x["type"], "id": x["id"], "content": list(x["content"]), "pad": x["pad"]} for x in script],
                "cuts": cuts, "then": then,
                "got": r["got"], "status": r["status"], "headers": hd, "rbody": r["body"],
                "died": died is not None, "exit_code": -1 if died is None else died}

    def probe(self):
        """After a case: does the server still serve (a) a plain file and (b) PHP?  -> (file_ok, php_ok)"""
        if not self.srv.alive():
            return False, False
        f = http(self.srv.port, "GET", "/a.txt", [("Host", "localhost")], None, timeout=3.0)
        self.rsp.take()
        self.rsp.script = {"records": ok_script(b"probe"), "cuts": "whole", "then": "keep"}
        p = http(self.srv.port, "GET", "/s.php", [("Host", "localhost")], None, timeout=3.0)
        self.rsp.take()
        return (f["got"] == "response" and f["status"] == 200), (p["got"] == "response" and p["status"] == 200 and bytes(p["body"]) == b"probe")

    def close(self):
        self.srv.stop()
        self.rsp.close()


def rec(t, content, pad=0, rid=0):
    return {"type": t, "id": rid, "content": list(content), "pad": pad}


def split_script(rng, out, err_chunks=(), pads=(0,), end=True, rid=0):
    """STDOUT bytes `out` cut into 1..4 records at seeded places (also inside the blank line), STDERR records in between."""
    k = rng.randint(0, min(3, max(0, len(out) - 1)))
    cuts = sorted(rng.sample(range(1, len(out)), k)) if k else []
    parts = [out[a:b] for a, b in zip([0] + cuts, cuts + [len(out)])]
    recs = []
    errs = list(err_chunks)
    for q in parts:
        if errs and rng.random() < 0.7:
            recs.append(rec(7, errs.pop(0), rng.choice(pads), rid))
        recs.append(rec(6, q, rng.choice(pads), rid))
    for e in errs:
        recs.append(rec(7, e, 0, rid))
    if end:
        recs += [rec(6, b"", 0, rid), rec(3, [0] * 8, 0, rid)]
    return recs


def cgi(status, headers, body):
    out = b"".join(("%s: %s\r\n" % h).encode() for h in headers)
    if status is not None:
        out = ("Status: %s\r\n" % status).encode() + out
    return out + b"\r\n" + body


def fcgi_cases(rng, thorough):
    """(note, method, target, headers, body, script, cuts, then, script_file relative to www, lethal?)"""
    H = (("Content-type", "text/html; charset=UTF-8"),)
    cs = []
    add = lambda *a: cs.append(a)
    # benign: sizes, queries, cookies, segmentations
    add("get-query-cookie", "GET", "/s.php?x=1&y=%20z", [("Cookie", "sid=abc; t=1"), ("User-Agent", "verif/1")], None,
        split_script(rng, cgi("404 Not Found", H + (("X-Powered-By", "PHP/8"),), b"nope"), pads=(0, 3)), "bytes", "keep", "s.php", False)
    add("post-small", "POST", "/sub/t.php", [("Content-Type", "application/x-www-form-urlencoded")], b"a=1&b=2",
        split_script(rng, cgi(None, H, b"posted")), "random", "keep", "sub/t.php", False)
    add("index-php-of-directory", "GET", "/sub/", [], None, split_script(rng, cgi("201 Created", H, b"made"), pads=(0, 7, 255)), "random", "keep", "sub/index.php", False)
    for n in ([127, 128] if not thorough else [1, 126, 127, 128, 129, 255, 256, 1000]):
        add("param-length-%d" % n, "GET", "/s.php?" + "q" * n, [("Cookie", "c" * (n + 1))], None, split_script(rng, cgi(None, H, b"len")), "random", "keep", "s.php", False)
    add("body-65535", "POST", "/s.php", [], bytes((i * 7) % 251 for i in range(65535)), split_script(rng, cgi(None, H, b"big")), "whole", "keep", "s.php", False)
    add("stdout-2-records-70000", "GET", "/s.php", [], None,
        [rec(6, cgi(None, H, b"")), rec(6, b"A" * 40000, 1), rec(6, b"B" * 30000, 0), rec(6, b""), rec(3, [0] * 8)], "random", "keep", "s.php", False)
    for i in range(40 if thorough else 3):
        body = bytes(rng.choice(b"abc<>\n ") for _ in range(rng.randint(0, 60)))
        st = rng.choice([None, None, "200 OK", "302 Found", "500 Internal Server Error", "418"])
        hs = H + tuple(rng.sample([("X-A", "1"), ("Set-Cookie", "k=v; Path=/"), ("Location", "/else"), ("Cache-Control", "no-store")], rng.randint(0, 2)))
        add("random-%d" % i, rng.choice(["GET", "POST"]), "/s.php" + rng.choice(["", "?a=b", "?k=%2F&l="]), [], None if i % 2 else bytes(rng.randint(0, 255) for _ in range(rng.randint(1, 300))),
            split_script(rng, cgi(st, hs, body), pads=(0, 1, 8)), rng.choice(["random", "bytes", "whole"]), "keep", "s.php", False)
    # the expected deviations of the code as found (one server process each where the server may die)
    add("stderr-interleaved", "GET", "/s.php", [], None, split_script(rng, cgi(None, H, b"ABCD"), err_chunks=[b"PHP Warning: w"], pads=(0, 5)), "random", "keep", "s.php", False)
    add("body-65536", "POST", "/s.php", [], b"Z" * 65536, split_script(rng, cgi(None, H, b"big")), "whole", "keep", "s.php", False)
    add("non-utf8-output", "GET", "/s.php", [], None, split_script(rng, cgi(None, (("Content-type", "image/png"),), b"\x89PNG\xff\xfe\x80")), "random", "keep", "s.php", True)
    add("status-not-a-number", "GET", "/s.php", [], None, split_script(rng, cgi("abc def", H, b"x")), "random", "keep", "s.php", True)
    add("unknown-record-type", "GET", "/s.php", [], None, [rec(6, cgi(None, H, b"x")), rec(12, [1, 2])] + [rec(6, b""), rec(3, [0] * 8)], "random", "keep", "s.php", True)
    add("responder-closes", "GET", "/s.php", [], None, [rec(6, cgi(None, H, b"partial"))], "whole", "close", "s.php", True)
    return cs


def run_fcgi_cases(server, php, work, www, cases, rng):
    recs, probes = [], {}
    sess = None
    n = 0
    try:
        for (note, method, target, headers, body, script, cuts, then, sf, lethal) in cases:
            n += 1
            if sess is None or lethal or not sess.srv.alive():
                if sess:
                    sess.close()
                sess = PhpSession(server, php, work, www, rng)
                if sess.up != "up":
                    raise vlib.ToolError("the server with the PHP plugin did not come up (%s):\n%s" % (sess.up, sess.srv.log_text()[-800:]))
            c = sess.case(n, method, target, headers, body, script, cuts=cuts, then=then, script_file=os.path.join(www, sf), note=note)
            recs.append(c)
            if lethal or c["got"] != "response":
                probes[n] = sess.probe()
    finally:
        if sess:
            sess.close()
    return recs, probes


def tlc(cfg, module, **kw):
    kw.setdefault("timeout", TO)
    kw.setdefault("workers", 1)
    kw.setdefault("heap", "2g")
    kw.setdefault("work_id", "c15plug" + re.sub(r"\W", "", cfg)[:24])
    return run_tlc(module, cfg, D, **kw)


def validate(module, cfg, recs, path, label):
    vlib.write_lines(path, recs)
    t = tlc(cfg, module, env={"TRACE": path}, heap="3g")
    summ = [x for x in t.prints if isinstance(x, dict) and "records" in x]
    if not summ or summ[-1]["records"] != len(recs):
        raise vlib.ToolError("%s (%s) did not read the %d records:\n%s" % (module, label, len(recs), t.out[-1500:]))
    return t, summ[-1]


def mgr_configs(rng, thorough):
    L, P = ["ok", "nonfatal", "fatal"], PREFIXES
    fixed = [[{"load": "ok", "prefix": "pa"}, {"load": "nonfatal", "prefix": "p"}, {"load": "ok", "prefix": "p"}],
             [{"load": "ok", "prefix": "p"}, {"load": "ok", "prefix": "pa"}, {"load": "ok", "prefix": "pb"}],
             [{"load": "ok", "prefix": ""}, {"load": "fatal", "prefix": "p"}, {"load": "ok", "prefix": "p"}],
             [{"load": "nonfatal", "prefix": "p"}, {"load": "ok", "prefix": "pb"}],
             []]
    out = list(fixed)
    if thorough:
        out += [[{"load": a, "prefix": p}, {"load": b, "prefix": q}] for a in L for b in L for p in P[1:] for q in P[1:]]
    for _ in range(60 if thorough else 4):
        out.append([{"load": rng.choice(L + ["ok", "ok"]), "prefix": rng.choice(P)} for _ in range(rng.randint(1, 3))])
    return out


def with_ans(r):
    r = copy.deepcopy(r)
    for c in r["cfg"]:
        c["ans"] = [p for p in PATHS if c["prefix"] and p.startswith(c["prefix"])]
    return r


def run_part(ctx, tier):
    thorough = tier == "thorough"
    t0 = time.time()
    try:
        server, hv, php = build_all()
    except vlib.ToolError as e:
        ctx.add_part("plugins", built=False, note="reduced coverage: the model was not bound to the code")
        ctx.violation("plugins: the feature does not build on this tree, nothing was bound: %s" % str(e)[-700:], {"kind": "c15plug-build", "error": str(e)[-3000:]})
        return
    t_build = time.time() - t0
    work = os.path.join(vlib.workdir("C15plug"), "run-%d" % os.getpid())
    os.makedirs(work, exist_ok=True)
    try:
        return _run(ctx, thorough, server, hv, php, work, t_build)
    finally:
        shutil.rmtree(work, ignore_errors=True)


def _run(ctx, thorough, server, hv, php, work, t_build):
    rng = random.Random(ctx.seed * 7919 + 15)
    www = make_www(work)
    ex = ThreadPoolExecutor(max_workers=4)        # <= 4 TLC processes of 1 worker each at a time
    jobs = {}
    jobs["mc_plugins"] = ex.submit(tlc, "MC_Plugins_%s.cfg" % ("thorough" if thorough else "quick"), "MC_Plugins.tla", coverage=True)
    jobs["mc_fcgi"] = ex.submit(tlc, "MC_Fcgi.cfg", "MC_Fcgi.tla", coverage=True)
    mgr_bugs = MGR_BUGS if thorough else MGR_BUGS[:3]
    f_devs = [d for d in FCGI_GENUINE if d not in ("NonUtf8Panics", "BadStatusPanics", "RequestUriDoubleSlash", "UnknownStatusBecomes200")]     # those two are judged on traces only
    f_devs = f_devs if thorough else f_devs[:3]
    for b in mgr_bugs:
        jobs["bug:" + b] = ex.submit(tlc, "MC_Plugins_bug_%s.cfg" % b, "MC_Plugins.tla")
    for d in f_devs:
        jobs["dev:" + d] = ex.submit(tlc, "MC_Fcgi_dev_%s.cfg" % d, "MC_Fcgi.tla")
    for b in (FCGI_BUGS if thorough else FCGI_BUGS[:1]):
        jobs["fbug:" + b] = ex.submit(tlc, "MC_Fcgi_bug_%s.cfg" % b, "MC_Fcgi.tla")

    # ---- the real server: manager sessions (4 at a time) and FastCGI cases, while TLC explores -------------------
    cfgs = mgr_configs(rng, thorough)
    ex2 = ThreadPoolExecutor(max_workers=4)
    futs = [ex2.submit(manager_session, server, hv, work, www, c, i + 1) for i, c in enumerate(cfgs)]
    cases = fcgi_cases(rng, thorough)
    frecs, probes = run_fcgi_cases(server, php, work, www, cases, rng)
    mrecs = [with_ans(f.result()) for f in futs]
    ex2.shutdown()

    ft1 = ex.submit(validate, "Trace_Plugins.tla", "Trace_Plugins.cfg", mrecs, os.path.join(work, "mgr.ndjson"), "manager sessions")
    ft2 = ex.submit(validate, "Trace_Fcgi.tla", "Trace_Fcgi.cfg", frecs, os.path.join(work, "fcgi.ndjson"), "FastCGI exchanges")

    # ---- 1./2. model checking and sensitivity ------------------------------------------------------------------------
    r = jobs["mc_plugins"].result()
    ctx.add_tlc("plugins: MC_Plugins (every configuration of <= %d plugins x every request path; order, first-Some-wins, response hooks, fatal refuses, unload once)" % (3 if thorough else 2), r)
    ctx.require_tlc_ok("MC_Plugins", r)
    ctx.require_cover("MC_Plugins", r, MGR_ACTIONS)
    r = jobs["mc_fcgi"].result()
    ctx.add_tlc("plugins: MC_Fcgi (Decode(Encode(r)) = r over lengths 0,1,127,128,129,255,256,300 and pads 0,1,7,255; name-value pairs over 127/128; request streams incl. 65535/65536 split; reader machine)", r)
    ctx.require_tlc_ok("MC_Fcgi", r)
    ctx.require_cover("MC_Fcgi", r, ["C_Stdout", "C_Stderr", "C_End", "C_Unknown", "C_Eof"])
    for k, j in jobs.items():
        if ":" in k:
            r = j.result()
            ctx.add_tlc("plugins sensitivity %s" % k, r, note="must be violated")
            if r.violation is None:
                raise vlib.ToolError("sensitivity: deviation %s is not refuted by TLC" % k)

    # ---- 3. traces -----------------------------------------------------------------------------------------------------
    t1, s1 = ft1.result()
    ctx.add_tlc("plugins: Trace_Plugins over %d server runs with the logging test plugin (%d requests)" % (s1["records"], s1["requests"]), t1)
    for rj in s1["rejected"][:6]:
        m = mrecs[rj["index"] - 1]
        ctx.violation("plugin manager: server run %d is not a behaviour of Plugins.tla: %s; configuration (file order) %s" % (
            rj["index"], ", ".join(rj["problems"]), json.dumps(m["cfg"])), {"kind": "c15plug-mgr", "problems": rj["problems"], "record": m})
    t2, s2 = ft2.result()
    ctx.add_tlc("plugins: Trace_Fcgi over %d exchanges of the real PHP plugin with the scripted responder" % s2["records"], t2)
    by_dev = {}
    for nd in s2["needs"]:
        for d in nd["needs"]:
            by_dev.setdefault(d, []).append(nd["index"])
    for d, idx in sorted(by_dev.items()):
        c = frecs[idx[0] - 1]
        small = {k: (v if not isinstance(v, list) or len(v) < 600 else v[:300] + ["... %d more" % (len(v) - 300)]) for k, v in c.items()}
        small["req"] = {k: (v if len(v) < 600 else v[:100] + ["... %d more" % (len(v) - 100)]) for k, v in c["req"].items()}
        what = ("FastCGI client: %d of %d exchanges need the deviation %s (first: case '%s' %s %s%s, body %d bytes: HTTP %s %s%s%s)" % (
            len(idx), len(frecs), d, c["note"], c["method"], c["uri"], ("?" + c["query"]) if c["query"] else "", len(c["req"]["body"]),
            c["got"], c["status"], ", server process died with exit code %s" % c["exit_code"] if c["died"] else "",
            (", afterwards file/php served: %s" % (probes.get(c["n"]),)) if c["n"] in probes else ""))
        ctx.violation(what, {"kind": "c15plug-fcgi", "deviation": d, "cases": len(idx), "record": small}, dev=None if d.startswith("UNEXPLAINED") else d)
    ctx.cov["evaluations"] += s1["requests"] + len(frecs)
    ctx.cov["distinct_nontrivial"] += sum(1 for m in mrecs for q in m["reqs"] if q["by"]) + sum(1 for c in frecs if c["rxall"])
    ctx.cov["traces_validated_against_impl"] += s1["records"] + s2["records"]
    ctx.add_part("plugins", built=True, build_s=round(t_build, 1), manager_runs=len(mrecs), manager_requests=s1["requests"],
                 refused_starts=sum(1 for m in mrecs if m["startup"] == "refused"), fcgi_exchanges=len(frecs),
                 fcgi_bytes_received=sum(len(c["rxall"]) for c in frecs), server_deaths=sum(1 for c in frecs if c["died"]),
                 deviations_needed={d: len(i) for d, i in by_dev.items()},
                 rule="nontrivial = a request answered by a plugin, or one that reached the FastCGI responder")
    ctx.sample("plugins [ok pa][nonfatal p][ok p]: GET /pb/x -> offers 1,3; by 3; on_response 1,3")

    # ---- 4. binding self-test (on material whose only needs are named deviations) ----------------------------------------
    clean = [c for c, nd in zip(frecs, s2["needs"]) if not any(x.startswith("UNEXPLAINED") for x in nd["needs"]) and len(c["rxall"]) < 4000 and c["got"] == "response"]
    mclean = [m for i, m in enumerate(mrecs) if (i + 1) not in [rj["index"] for rj in s1["rejected"]] and any(q["offers"] for q in m["reqs"])]
    if clean and mclean:
        c = copy.deepcopy(clean[0])
        k = bytes(c["rxall"]).find(b"REQUEST_METHOD") + len("REQUEST_METHOD")
        c["rxall"][k] ^= 1                                    # one byte of the method the responder was told
        c2 = copy.deepcopy(clean[0])
        c2["rbody"] = c2["rbody"] + [33]                      # one byte more in the HTTP body than STDOUT carried
        _, s3 = validate("Trace_Fcgi.tla", "Trace_Fcgi_asfound.cfg", [c, c2], os.path.join(work, "self.ndjson"), "self-test")
        if s3["rejected"] != [1, 2]:
            raise vlib.ToolError("binding self-test: Trace_Fcgi accepted a corrupted exchange: %s" % s3)
        m = copy.deepcopy(mclean[0])
        q = [q for q in m["reqs"] if q["offers"]][0]
        q["offers"] = q["offers"][1:] if len(q["offers"]) > 1 else q["offers"] + [{"id": 9, "ans": False}]     # one log line lost / invented
        m2 = copy.deepcopy(mclean[0])
        m2["loads"] = m2["loads"][::-1] if len(m2["loads"]) > 1 else []
        _, s4 = validate("Trace_Plugins.tla", "Trace_Plugins.cfg", [m, m2], os.path.join(work, "self2.ndjson"), "self-test")
        if [x["index"] for x in s4["rejected"]] != [1, 2]:
            raise vlib.ToolError("binding self-test: Trace_Plugins accepted a corrupted call log: %s" % s4)
        ctx.add_part("plugins self-test", corrupted_rejected=4)
    else:
        ctx.add_part("plugins self-test", skipped="no exchange validated cleanly on this tree")


if __name__ == "__main__":
    tier = sys.argv[1] if len(sys.argv) > 1 else "quick"
    vlib.EVIDENCE = os.path.join(vlib.WORK, "C15plug")
    vlib.REPLAYS = os.path.join(vlib.WORK, "C15plug")
    ctx = vlib.Ctx("C15", tier, "growth:plugins")
    vlib.run_growth(ctx, "plugins", run_part, tier)
    sys.exit(ctx.finish())
