"""C01, TLS part (growth item g-tls) - the feature "tls" side of Humphrey, which neither the repository's tests nor
any other check compiles: App::run_tls / with_cert / with_forced_https and the redirect listener, Stream::Tls on both
runtimes, the https client.

`run_part(ctx, tier)` is called by checks/c01.py; it adds its numbers to the C01 context and reports mismatches with
ctx.violation(...). It neither writes evidence nor calls ctx.finish().  Stand-alone (development):
`python3 checks/c01_tls.py quick|thorough` writes to .work/C01tls/, never to evidence/C01.json.

spec/tls/TlsApp.tla EXTENDS HttpConn: the TLS accept path (TCP accept -> dispatch -> handshake inside the handler, which
may complete, be rejected, meet EOF, stall or time out -> the per-connection loop of HttpConn over the decrypted stream ->
close), the pool's workers, the force-HTTPS listener on port 80 as the single sequential loop it is, the life cycle
(shutdown, restart).  spec/tls/TlsClient.tla EXTENDS Client: the redirect machine crossing http <-> https with
certificate verification.

1. TLC: Dev = {} satisfies Inv_NoPlaintext / Inv_AcceptorAlive / Inv_PoolBound / Inv_WorkersReturn, every HttpConn
   invariant on the established connection's plaintext, Inv_RedirectExact / Inv_NoAppPlain / Inv_RedirectAlive and the
   liveness Live_GoodServed (within the pool's limits) / Live_RedirectAll / Live_AllAnswered, on both runtimes, with and
   without a connection timeout, with -coverage on the action set; 16 named deviations and 5 can-happen negations must
   each be violated ("no violation" = ToolError).
2. spec -> code: (i) the C01 job families (TLC-generated scripts and send sequences, extreme segmentations, bodies
   around the 8 KiB read-ahead and the 16 KiB record boundary, several MiB echoed to a late reader, malformed requests,
   idle/timeouts, half-close by close_notify or bare FIN) played through a rustls client - TLS 1.2 and 1.3, ciphertext
   optionally cut at random TCP offsets - against App::run_tls on both runtimes; (ii) every combination of client kinds
   TLC enumerates (plain HTTP / garbage / early close / stall / good on the TLS port; Host x target x well-formedness x
   behaviour on port 80) and -simulate orders of client actions (connect, give up, shutdown, restart) as scenarios
   against real Apps built with with_cert + with_forced_https + with_connection_timeout together; (iii) every redirect
   chain of TlsClient replayed on the real humphrey::Client against scripted plain / TLS / untrusted-TLS servers.
3. code -> spec: every connection log is validated by Trace_HttpConn (through spec/tls/Trace_TlsConn.tla; Dev = {} first,
   then the open deviations of KNOWN_FINDINGS.txt for C01 exactly as checks/c01.py does), every scenario log by
   Trace_TlsApp (the Location of a redirect is compared by TLC, character for character, with "https://" + Host + target).
4. self-test, after a clean run only: a flipped expected status in a client vector must be reported by the harness; a
   flipped response field in a connection record, a Location with the query removed, a plaintext answer on the TLS port and a
   dropped response in scenario logs must each be rejected by TLC.

Ports: the force-HTTPS listener's address 0.0.0.0:80 is fixed in the code and Client only addresses 80 / 443; the
harness therefore enters a private network namespace (unshare(CLONE_NEWNET)) where nothing can collide.  Where the
kernel refuses, it falls back to the shared namespace under a file lock and with bind retries, and a port that stays
taken is recorded as reduced coverage, never as a violation."""
import copy
import fcntl
import json
import os
import random
import subprocess
import sys
import time
from concurrent.futures import ThreadPoolExecutor

sys.path.insert(0, os.path.join(os.path.dirname(os.path.dirname(os.path.abspath(__file__))), "lib"))
import vlib
from vlib import run_tlc, run_bin, parse_jsonl, SPEC

D = os.path.join(SPEC, "tls")
D_CONN = os.path.join(SPEC, "conn")
HARNESS_TLS = os.path.join(vlib.ROOT, "harness-tls")
LIBENV = {"JAVA_TOOL_OPTIONS": "-DTLA-Library=%s:%s" % (D_CONN, os.path.join(SPEC, "http"))}
OPEN_ORDER = ["CrlfAfterBody", "ReadAheadLost"]          # as in checks/c01.py
ACTIONS = ["T_Connect", "Acc_Accept", "Wrk_Start", "Hs_Complete", "Hs_Reject", "Hs_PeerClosed", "Hs_Timeout", "T_GiveUp",
           "Probe_Serve", "FocusClient", "FocusServer"]
RED_ACTIONS = ["P_Connect", "Red_AcceptOf", "Red_Respond", "Red_Bad", "Red_Gone", "Red_ReadTimeout", "P_GiveUp"]
LIFE_ACTIONS = ["App_Stop", "App_Start", "T_Refused"]
DEVS = [("HsFailKillsAcceptor", "invariant"), ("HsInAcceptor", "temporal"), ("PlainAnsweredOnTls", "invariant"),
        ("Timeout408Plain", "invariant"), ("HsFailLeaksWorker", "invariant"), ("TlsNoFlush", "invariant"), ("NagleHoldsResponse", "invariant"), ("ReadAheadLost", "invariant"),
        ("CrlfAfterBody", "invariant"), ("RedirectDropsQuery", "invariant"), ("RedirectExitsOnError", "invariant"),
        ("RedirectSilentWedge", "temporal"), ("RedirectOnlyFirst", "invariant"), ("PlainServesApp", "invariant")]
REACH = [("PoolLimit", "temporal"), ("AllWorkersBusy", "invariant"), ("AlertSeen", "invariant")]
CLIENT_DEVS = ["KeepsScheme", "SkipVerify", "Follow303", "AbsKeepsHost", "RelToFirstHost"]
CLIENT_REACH = ["Upgrade", "Downgrade"]
IP_A, IP_B = "127.0.7.3", "127.0.7.4"
HARNESS_TIMEOUT = 1200     # a harness process that does not end is tool trouble; every wait inside it is bounded


def _tlc(module, cfg, cwd=D, **kw):
    kw.setdefault("work_id", "c01tls")
    kw.setdefault("timeout", 2400)
    env = dict(LIBENV)
    env.update(kw.pop("env", {}) or {})
    return run_tlc(module, cfg, cwd, env=env, **kw)


# ------------------------------------------------------------------------------------------------------------------
# building the harness (own crate, own target directory per checkout)
# ------------------------------------------------------------------------------------------------------------------
def build_tls(tokio=False):
    """Build harness-tls from /repo's working tree, or from $VERIF_REPO into .work/target-alt-<tag>-tls (cargo's artefact
    names are workspace-relative: a target directory is never shared between checkouts)."""
    os.makedirs(vlib.WORK, exist_ok=True)
    lockf = open(os.path.join(vlib.WORK, "build-tls.lock"), "w")
    fcntl.flock(lockf, fcntl.LOCK_EX)
    try:
        cmd = ["cargo", "build", "--release", "--offline", "-q"]
        alt = os.environ.get("VERIF_REPO")
        target = os.path.join(HARNESS_TLS, "target")
        if alt and os.path.abspath(alt) != "/repo":
            target = os.path.join(vlib.WORK, "target-alt-" + vlib.alt_tag(alt) + "-tls")
            cmd += ["--config", 'paths=["%s"]' % os.path.join(os.path.abspath(alt), "humphrey"), "--target-dir", target]
        cmd += (["--features", "tokio", "--bin", "tlsapp_tokio"] if tokio else ["--bin", "tlsapp"])
        p = subprocess.run(cmd, cwd=HARNESS_TLS, env=vlib.cargo_env(), stdout=subprocess.PIPE, stderr=subprocess.STDOUT, text=True)
        if p.returncode != 0:
            raise vlib.ToolError("harness-tls build failed:\n" + "\n".join(p.stdout.splitlines()[-60:]))
    finally:
        fcntl.flock(lockf, fcntl.LOCK_UN)
        lockf.close()
    return os.path.join(target, "release", "tlsapp_tokio" if tokio else "tlsapp")


def harness(exe, args, data, timeout=1500, env=None):
    env = dict(env or {}, VERIF_TLS_CERTS=os.path.join(HARNESS_TLS, "certs"), VERIF_PORT80_LOCK=os.path.join(vlib.WORK, "port80.lock"))
    p = run_bin(exe, args, stdin_data=data, timeout=timeout, env=env)
    recs = parse_jsonl(p.stdout)
    head = next((r for r in recs if r.get("harness") == "tls"), {})
    return p, [r for r in recs if r.get("harness") != "tls"], head


# ------------------------------------------------------------------------------------------------------------------
# 2(i) / 3: the C01 job families over TLS
# ------------------------------------------------------------------------------------------------------------------
def conn_jobs(ctx, tier, rnd, tlc_results):
    thorough = tier == "thorough"
    n = 3 if thorough else 2
    jobs = {"threaded": [], "tokio": []}
    jid = [0]

    def add(rt, timeout, script, exp, plan, sends=None, **kw):
        jid[0] += 1
        j = {"id": jid[0], "timeout": timeout, "script": script, "plan": plan, "sends": sends or [],
             "expected_n": len(exp["expected"]), "final_open": exp["final_open"]}
        j.update(kw)
        jobs[rt].append(j)

    def key(script):
        return json.dumps(script, sort_keys=True)

    for has_t in (True, False):
        tag = "t" if has_t else "nt"
        loop = tlc_results["gen:loop:" + tag].prints
        fields = tlc_results["gen:fields:" + tag].prints
        seen, sims = set(), []
        for p in tlc_results["sim:" + tag].prints:
            k = json.dumps(p, sort_keys=True)
            if k not in seen:
                seen.add(k)
                sims.append(p)
        expmap = {key(x["script"]): x for x in loop + fields}
        rts = ["threaded"] if has_t else ["threaded", "tokio"]
        cap_loop = 400 if thorough else 36
        for rt in rts:
            loop_sel = loop if len(loop) <= cap_loop else rnd.sample(loop, cap_loop)
            for x in loop_sel:
                has_idle = any(e["k"] == "idle" for e in x["script"])
                if has_t and not has_idle and rnd.random() < 0.8:
                    continue
                big = any(e["bl"] == 3 for e in x["script"])
                add(rt, has_t, x["script"], x, "whole")
                add(rt, has_t, x["script"], x, "random")
                if not big and rnd.random() < (0.4 if thorough else 0.12):
                    add(rt, has_t, x["script"], x, "bytewise")
                if not big and not has_idle and rnd.random() < (0.5 if thorough else 0.15):
                    for k in rnd.sample(range(1, 120), 4 if thorough else 2):
                        add(rt, has_t, x["script"], x, "split:%d" % k)
            if not has_t:
                for x in (rnd.sample(fields, min(len(fields), 240)) if thorough else rnd.sample(fields, min(len(fields), 40))):
                    add(rt, has_t, x["script"], x, rnd.choice(["whole", "random", "random"]))
            for s in (sims if thorough else sims[:50]):
                x = expmap.get(key(s["script"]))
                if x is not None:
                    add(rt, has_t, s["script"], x, "tlc", s["sends"])

    def rq(m, tgt, conn, ver, bl):
        return {"k": "req", "hl": 3, "dl": 3, "bl": bl, "wf": True, "m": m, "tgt": tgt, "conn": conn, "ver": ver}
    for rt in ("threaded", "tokio"):
        for conn, fo in (("close", False), ("ka", True)):
            # several MiB echoed to a client that starts reading late: the response exceeds every buffer on the way
            for rep in range(2 if thorough else 1):
                add(rt, False, [rq("POST", "echo", conn, "1.1", 9)], {"expected": [0], "final_open": fo}, "whole", slow_read_ms=500)
            # head + body ending at / one byte around a multiple of the 16 KiB record limit, in one send, split, and followed by a second request
            for rep in range(6 if thorough else 2):
                add(rt, False, [rq("POST", "echo", conn, "1.1", 4)], {"expected": [0], "final_open": fo}, rnd.choice(["whole", "random", "split:16384", "split:16385"]))
        add(rt, False, [rq("POST", "echo", "ka", "1.1", 4), rq("GET", "plain", "close", "1.0", 0)], {"expected": [0, 0], "final_open": False}, "random")
        # a response that ends the connection while request bytes are still unread (a malformed request, or Connection: close,
        # with 8-20 KiB of further requests in the same send): the close resets the connection, the response must have left before
        for rep in range(24 if thorough else 8):
            first = rnd.choice([{"k": "req", "hl": 3, "dl": 2, "bl": 0, "wf": False, "m": "GET", "tgt": "plain", "conn": "ka", "ver": "1.1"},
                                rq("GET", "empty", "close", "1.1", 0), rq("GET", "empty", "none", "1.0", 0)])
            add(rt, False, [first, rq("POST", "echo", "ka", "1.1", 3), rq("POST", "echo", "ka", "1.1", 3)], {"expected": [0], "final_open": False}, "whole")
        # the same large bodies through SMALL socket send buffers (what a slow link looks like to the sender: the server's
        # writes block up to the last bytes of the response). Played by a second harness process whose private network
        # namespace has net.ipv4.tcp_wmem = 4096 8192 8192; skipped (reduced coverage) where there is no private namespace.
        for rep in range(16 if thorough else 7):
            for conn, fo in (("close", False), ("ka", True)):
                add(rt, False, [rq("POST", "echo", conn, "1.1", 8 if rep else 9)], {"expected": [0], "final_open": fo}, "whole", slow_read_ms=100 * (rep % 3), smallbuf=True)
    return jobs


def conn_cfg(path, dev, has_timeout):
    with open(path, "w") as f:
        f.write("CONSTANTS\n  Dev = {%s}\n  BufCap = 8192\n  HasTimeout = %s\nSPECIFICATION TlsTraceSpec\nINVARIANTS Report Inv_Sane\nCHECK_DEADLOCK FALSE\n"
                % (", ".join('"%s"' % d for d in dev), "TRUE" if has_timeout else "FALSE"))


def conn_validate(ctx, recs, dev, has_timeout, label, record=True):
    """Accepted connection ids under Dev = dev (Trace_HttpConn via Trace_TlsConn)."""
    if not recs:
        return set()
    wd = vlib.workdir("C01tls")
    tag = "%s-%d" % (label, os.getpid())
    tr = os.path.join(wd, "conn-%s.ndjson" % tag)
    vlib.write_lines(tr, recs)
    cfg = os.path.join(D, "_trace_conn_%s.cfg" % tag)
    conn_cfg(cfg, dev, has_timeout)
    try:
        r = _tlc("Trace_TlsConn.tla", os.path.basename(cfg), workers=4, env={"TRACE": tr}, timeout=1500, work_id="c01tlst", heap="6g")
    finally:
        os.remove(cfg)
        os.remove(tr)
    if r.violation:
        raise vlib.ToolError("TLS connection trace validation aborted (%s %s):\n%s" % (r.violation, r.violated_name, "\n".join(r.trace[:40])))
    if record:
        ctx.add_tlc("TLS trace validation %s Dev=%s (%d connections)" % (label, sorted(dev), len(recs)), r)
    acc, mon_ok = set(), set()
    for line in r.raw_prints:
        if line.startswith('<<"ACC"'):
            f = line.split(",")
            acc.add(int(f[1].strip(" >")))
            if len(f) < 3 or f[2].strip(" >") == "1":
                mon_ok.add(int(f[1].strip(" >")))
    # as in checks/c01.py: the monitor-event protocol goes beyond what C01 states - a disagreement is drift, not a violation
    bad = sorted(acc - mon_ok)
    if record and not dev and bad and hasattr(ctx, "drift"):
        by_id = {x["id"]: x for x in recs}
        ctx.drift("monitor-events", "TLS: %d connection(s) (%s) are explained by HttpConn but the server's monitor events differ from MonExpected; first: mon=%s"
                  % (len(bad), label, json.dumps(by_id[bad[0]].get("mon"))[:300]), {"kind": "c01-monitor", "connections": [by_id[i] for i in bad[:3]]})
    return acc


def conn_part(ctx, rt, exe, js, clean):
    """Run the jobs against the real server of runtime rt over TLS and have TLC validate every connection log."""
    small = [j for j in js if j.get("smallbuf")]
    js = [j for j in js if not j.get("smallbuf")]
    with ThreadPoolExecutor(max_workers=2) as ex:
        f1 = ex.submit(harness, exe, ["conn", "48"], "\n".join(json.dumps(j) for j in js) + "\n", HARNESS_TIMEOUT)
        f2 = ex.submit(harness, exe, ["conn", "12"], "\n".join(json.dumps(j) for j in small) + "\n", HARNESS_TIMEOUT, {"VERIF_TLS_WMEM": "4096 8192 8192"})
        p, recs, head = f1.result()
        p2, recs2, head2 = f2.result()
    if head2.get("tcp_wmem") == "4096 8192 8192":
        if p2.returncode != 0:
            raise vlib.ToolError("tls conn harness (%s, small buffers) rc=%s: %s" % (rt, p2.returncode, p2.stderr[-1500:]))
        recs += recs2
        js = js + small
    else:
        ctx.assumptions.append("REDUCED COVERAGE (TLS part, %s): large responses through small socket buffers not run - no private network namespace (%s)" % (rt, head2.get("netns_note") or head2.get("tcp_wmem")))
    errs = [r for r in recs if "error" in r]
    hsf = [r for r in recs if "hs_failed" in r]
    recs = [r for r in recs if "events" in r]
    if p.returncode != 0 or len(recs) + len(errs) + len(hsf) != len(js) or len(errs) > len(js) // 50:
        raise vlib.ToolError("tls conn harness (%s) rc=%s produced %d/%d records, %d errors: %s" % (rt, p.returncode, len(recs), len(js), len(errs), p.stderr[-1500:]))
    if hsf:
        clean[0] = False
        ctx.violation("TLS %s: %d well-behaved client(s) could not complete the handshake with App::run_tls (first: %s)" % (rt, len(hsf), hsf[0]["hs_failed"]),
                      {"kind": "tls-handshake", "runtime": rt, "jobs": [j for j in js if j["id"] in {h["id"] for h in hsf}][:10], "failures": hsf[:10]})
    nontrivial = set()
    for r in recs:
        kinds = tuple((e["m"], e["tgt"], e["conn"], e["ver"], e["wf"], e["k"]) for e in r["script"])
        if len(r["script"]) >= 2 or r["plan"] != "whole":
            nontrivial.add((rt, kinds, r["plan"], len([e for e in r["events"] if e["e"] == "Send"]), r["tls"]["version"], r["tls"]["chop"]))
    ctx.sample({"tls_runtime": rt, "connection": {k: v for k, v in recs[len(recs) // 2].items() if k != "mon"}}, limit=10)
    stats = {"tls13": sum(1 for r in recs if r["tls"]["version"] == "1.3"), "tls12": sum(1 for r in recs if r["tls"]["version"] == "1.2"),
             "ciphertext_chopped": sum(1 for r in recs if r["tls"]["chop"]), "eof_by_close_notify": sum(1 for r in recs if r["tls"]["eof"] == "close_notify"),
             "eof_by_fin_or_reset": sum(1 for r in recs if r["tls"]["eof"] in ("fin", "reset")), "records_out": sum(r["tls"]["records_out"] for r in recs)}
    for has_t in (True, False):
        grp = [r for r in recs if r["timeout"] == has_t]
        if not grp:
            continue
        label = "tls-%s-%s" % (rt, "t" if has_t else "nt")
        acc = conn_validate(ctx, grp, [], has_t, label + "-ideal")
        left = [r for r in grp if r["id"] not in acc]
        openk = [d for d in OPEN_ORDER if ctx.known.is_open("C01", d)]
        attributed = {}
        for devset in ([openk[:1]] if openk else []) + ([openk] if len(openk) > 1 else []):
            if not left:
                break
            a = conn_validate(ctx, left, devset, has_t, label + "-" + "+".join(devset))
            for r in left:
                if r["id"] in a:
                    attributed[r["id"]] = devset
            left = [r for r in left if r["id"] not in a]
        for rid, devset in attributed.items():
            for d in devset:
                what = {"CrlfAfterBody": "CRLF after a non-empty body, beyond Content-Length (pinned by test_response)",
                        "ReadAheadLost": "bytes read ahead beyond the current request are dropped with the per-request BufReader: coalesced requests are never answered"}[d]
                # counted as a hit of the open finding (what Ctx.violation(..., dev=d) does; written out because a growth
                # proxy turns every violation() call into a drift line)
                w0, c0 = ctx.known_hits.get(d, (what, 0))
                ctx.known_hits[d] = (w0, c0 + 1)
        ctx.add_part(label, connections=len(grp), accepted_ideal=len(acc), explained_by_open_deviation=len(attributed), unexplained=len(left), **(stats if not has_t else {}))
        if left:
            clean[0] = False
            ex = left[0]
            ctx.violation("TLS: %d connection(s) to App::run_tls on the %s runtime are not a behaviour of HttpConn (Dev={} nor any open deviation); first: script=%s plan=%s tls=%s events=%s"
                          % (len(left), rt, json.dumps([(e["m"], e["tgt"], e["conn"], e["ver"], e["wf"], e["hl"], e["bl"]) if e["k"] == "req" else "idle" for e in ex["script"]]),
                             ex["plan"], json.dumps(ex["tls"]), json.dumps([(e["e"], e["n"]) if e["e"] == "Send" else ((e["e"], e["r"]) if e["e"] == "Recv" else e["e"]) for e in ex["events"]])[:1500]),
                          {"kind": "tls-connections", "runtime": rt, "has_timeout": has_t, "connections": left[:20]})
    return recs, nontrivial


# ------------------------------------------------------------------------------------------------------------------
# 2(ii) / 3: scenarios for TlsApp
# ------------------------------------------------------------------------------------------------------------------
HOSTS = {"name": ["example.com", "EXAMPLE.com", "a.b-c.example", "localhost", "xn--bcher-kva.example"], "port": ["localhost:8080", "127.0.0.1:80", "example.com:443", "[::1]:8443"],
         "empty": [""], "none": [""]}
TARGETS = {"origin": ["/", "/a/b", "/index.html", "/%20x", "/plain", "/" + "x" * 1500, "/caf%C3%A9", "/caf\u00e9/\u4e2d\u6587"],
           "query": ["/p?x=1", "/a?b=c&d=%26", "/p?x=1?y=2", "/s?q=https://e.com/a%20b", "/plain?" + "k=v&" * 100 + "z", "/?a", "/s?q=\u00e9&r=\U0001F600"],
           "star": ["*"], "abs": ["http://example.com/abs", "http://example.com/abs?x=1"]}


def concretise(pk, rnd):
    out = []
    for k in pk:
        k = dict(k)
        k["hs"] = rnd.choice(HOSTS[k["host"]])
        k["tgs"] = rnd.choice(TARGETS[k["tform"]])
        k["m"] = "OPTIONS" if k["tform"] == "star" else rnd.choice(["GET", "GET", "POST", "HEAD" if False else "GET"])
        out.append(k)
    return out


def mk_scenarios(tier, rnd, res):
    """Scenario lists per (runtime, force_https) from TLC's generation and simulation output."""
    thorough = tier == "thorough"
    sid = [0]
    out = {"threaded": {"free": [], "forced": []}, "tokio": {"free": [], "forced": []}}

    def scen(rt, label, workers, timeout, force, tk, pk, steps, restarts=0):
        sid[0] += 1
        s = {"id": sid[0], "label": label, "workers": workers, "timeout": bool(timeout and rt == "threaded"), "force_https": force, "restarts": restarts,
             "tk": tk, "pk": pk, "steps": steps}
        out[rt]["forced" if force else "free"].append(s)

    def v():
        return rnd.randrange(1 << 20)

    def dedup(prints):
        seen, r = set(), []
        for p in prints:
            k = json.dumps(p, sort_keys=True)
            if k not in seen:
                seen.add(k)
                r.append(p)
        return r

    acc = [p for p in res["gen:accept"].prints if "tk" in p]
    red = [p for p in res["gen:redirect"].prints if "pk" in p]
    fields = [p for p in res["gen:redfields"].prints if "pk" in p]
    sim_acc = dedup([p for p in res["sim:accept"].prints if "acts" in p])
    sim_life = dedup([p for p in res["sim:life"].prints if "acts" in p])
    sim_both = dedup([p for p in res["sim:both"].prints if "acts" in p])

    def steps_of(acts, tk, pk):
        st = []
        for a in acts:
            if a["a"] == "t":
                st.append({"op": "t", "c": a["id"], "v": v()})
            elif a["a"] == "giveup":
                st.append({"op": "giveup", "c": a["id"]})
            elif a["a"] == "p":
                st.append({"op": "p", "p": a["id"], "v": v()})
            elif a["a"] == "pgiveup":
                st.append({"op": "pgiveup", "p": a["id"]})
            else:
                st.append({"op": a["a"]})
        return st

    for rt in ("threaded", "tokio"):
        # --- every combination of three TLS-port client kinds, then a good client ("later good connections are still served") ---
        sel = acc if thorough else rnd.sample(acc, min(len(acc), 24))
        exhaust = 0
        for p in sel:
            tk = list(p["tk"]) + ["probe"]
            nst = sum(1 for k in p["tk"] if k == "stall")
            for timeout in ((False, True) if rt == "threaded" and rnd.random() < (1.0 if thorough else 0.4) else (False,)):
                # workers = number of stallers: the pool is exhausted for good and the last probe must wait (explained by the
                # model only then); such scenarios cost the full escalated patience, so quick keeps two of them
                last_stall = max([i for i, k in enumerate(p["tk"]) if k == "stall"] + [-1])
                no_probe_after = last_stall == len(p["tk"]) - 1      # nobody else has to wait behind the stalled handshakes
                if rt == "threaded" and timeout and nst >= 1 and rnd.random() < 0.6:
                    w = nst                      # the stalled handshakes run into the connection timeout and free their workers
                elif rt == "threaded" and not timeout and nst >= 1 and no_probe_after and exhaust < (8 if thorough else 2) and rnd.random() < 0.6:
                    w = nst
                    exhaust += 1
                else:
                    w = nst + 1 + rnd.randrange(2)
                steps = [{"op": "t", "c": i + 1, "v": v()} for i in range(3)] + [{"op": "t", "c": 4, "v": v()}]
                steps += [{"op": "giveup", "c": i + 1} for i, k in enumerate(p["tk"]) if k == "stall"]
                if w == nst and nst >= 1 and not timeout:
                    tk2 = tk + ["probe"]
                    steps += [{"op": "t", "c": 5, "v": v()}]       # once the stallers are gone a good client is served again
                    scen(rt, "kinds+probe (pool exhausted)", w, timeout, False, tk2, [], steps)
                else:
                    scen(rt, "kinds+probe", w, timeout, False, tk, [], steps)
        # --- orders of client actions from TLC -simulate ---
        for p in (sim_acc if thorough else sim_acc[:16]):
            nst = sum(1 for k in p["tk"] if k == "stall")
            timeout = rnd.random() < 0.5
            # without a timeout every stalled handshake keeps its worker: a pool of nst + 1 always has room for the good clients;
            # thorough also plays orders in which they have to wait (the full escalated patience each time)
            w = nst + 1 if (not thorough or rnd.random() < 0.7) and not (timeout and rt == "threaded") else max(1, min(2, nst + 1))
            scen(rt, "sim accept", w, timeout, False, p["tk"], [], steps_of(p["acts"], p["tk"], []))
        for p in (sim_life if thorough else sim_life[:8]):
            # the model has ONE pool across restarts (the real restarted App has a fresh one): never exhaust it here
            nst = sum(1 for k in p["tk"] if k == "stall")
            scen(rt, "sim life cycle", nst + 1, False, False, p["tk"], [], steps_of(p["acts"], p["tk"], []), restarts=2)
        # --- scale: many failed handshakes of every kind, concurrently, then many good ones ---
        nbad = 240 if thorough else 90
        kinds = [rnd.choice(["plain", "garbage", "closemid"]) for _ in range(nbad)] + ["probe"] * (40 if thorough else 16)
        steps = []
        for i in range(0, nbad, 12):
            steps.append({"op": "par", "steps": [{"op": "t", "c": j + 1, "v": v()} for j in range(i, min(i + 12, nbad))]})
        steps.append({"op": "par", "steps": [{"op": "t", "c": j + 1, "v": v()} for j in range(nbad, len(kinds))]})
        scen(rt, "scale", 4, False, False, kinds, [], steps)
        # --- the force-HTTPS listener (one App per harness process: with_cert + with_forced_https + with_connection_timeout) ---
        W = 3
        nsil = 0
        for p in (red if thorough else rnd.sample(red, min(len(red), 40))):
            pk = concretise(p["pk"], rnd)
            sil = [i + 1 for i, k in enumerate(pk) if k["beh"] == "silent"]
            if sil:
                nsil += 1
                if nsil > (12 if thorough else 2):
                    continue
            steps = [{"op": "p", "p": i + 1, "v": v()} for i in range(len(pk))]
            # a silent client that is still connected sees the listener's read timeout close it
            steps += [{"op": "pcheck" if rnd.random() < 0.5 else "pgiveup", "p": i} for i in sil]
            scen(rt, "redirect kinds", W, True, True, [], pk, steps)
        for i in range(0, len(fields), 16):
            pk = concretise([p["pk"][0] for p in fields[i:i + 16]], rnd)
            scen(rt, "redirect fields", W, True, True, [], pk, [{"op": "p", "p": j + 1, "v": v()} for j in range(len(pk))])
        nsil = 0
        for p in (sim_both if thorough else sim_both[:14]):
            pk = concretise(p["pk"], rnd)
            if any(k["beh"] == "silent" for k in pk):
                nsil += 1
                if nsil > (10 if thorough else 2):
                    continue
            scen(rt, "sim both", W, True, True, p["tk"], pk, steps_of(p["acts"], p["tk"], pk))
        # many plaintext clients at once, every one with its own target
        n = 120 if thorough else 48
        pk = [{"host": "name", "tform": "query", "wf": True, "beh": "send", "nreq": 1, "hs": "example.com", "tgs": "/many/%d?i=%d" % (i, i), "m": "GET"} for i in range(n)]
        scen(rt, "redirect scale", W, True, True, [], pk, [{"op": "par", "steps": [{"op": "p", "p": j + 1, "v": v()} for j in range(i, min(i + 16, n))]} for i in range(0, n, 16)])
    return out


def scen_cfg(path, rt, workers, timeout, force, nt, np_):
    with open(path, "w") as f:
        f.write("CONSTANTS\n  Dev = {}\n  BufCap = 8192\n  HasTimeout = %s\n  Runtime = \"%s\"\n  Workers = %d\n  ForceHttps = %s\n  TIds = {%s}\n  PIds = {%s}\n"
                "  StallsGiveUp = TRUE\n  Restarts = 4\nSPECIFICATION TraceSpec\n"
                "INVARIANTS Report Inv_NoPlaintext Inv_AcceptorAlive Inv_PoolBound Inv_WorkersReturn Inv_RedirectExact Inv_NoAppPlain Inv_RedirectAlive Inv_BadGetsNoRedirect\n"
                "CHECK_DEADLOCK FALSE\n" % ("TRUE" if timeout else "FALSE", rt, workers, "TRUE" if force else "FALSE",
                                          ", ".join(str(i) for i in range(1, nt + 1)), ", ".join(str(i) for i in range(1, np_ + 1))))


def scen_validate(ctx, rt, recs, label, record=True):
    """Accepted scenario ids (Trace_TlsApp), grouped by the constants of the model."""
    acc = set()
    groups = {}
    for r in recs:
        groups.setdefault((r["workers"], bool(r["timeout"]), bool(r["force_https"])), []).append(r)
    wd = vlib.workdir("C01tls")

    def one(item):
        (w, t, f), grp = item
        tag = "%s-%s-%d-%d%d-%d" % (label, rt, w, t, f, os.getpid())
        tr = os.path.join(wd, "scen-%s.ndjson" % tag)
        vlib.write_lines(tr, grp)
        cfg = os.path.join(D, "_trace_scen_%s.cfg" % tag)
        scen_cfg(cfg, rt, w, t, f, max([len(r["tk"]) for r in grp] + [1]), max([len(r["pk"]) for r in grp] + [1]))
        try:
            r = _tlc("Trace_TlsApp.tla", os.path.basename(cfg), workers=2, env={"TRACE": tr}, timeout=1500, work_id="c01tlss", heap="4g")
        finally:
            os.remove(cfg)
            os.remove(tr)
        return (w, t, f), grp, r

    with ThreadPoolExecutor(max_workers=4) as ex:
        for (w, t, f), grp, r in ex.map(one, list(groups.items())):
            if r.violation:
                # an invariant of TlsApp failed inside an explanation: the trace spec itself is wrong (tool trouble, never data)
                raise vlib.ToolError("TLS scenario trace validation aborted (%s %s):\n%s" % (r.violation, r.violated_name, "\n".join(r.trace[:40])))
            if record:
                ctx.add_tlc("TLS scenario validation %s %s workers=%d timeout=%s force_https=%s (%d scenarios)" % (label, rt, w, t, f, len(grp)), r)
            acc |= {int(line.split(",")[1].strip(" >")) for line in r.raw_prints if line.startswith('<<"ACC"')}
    return acc


def furthest(rt, rec):
    """Diagnosis of one rejected scenario: the index of the first event no behaviour explains."""
    wd = vlib.workdir("C01tls")
    tag = "diag-%s-%d-%s" % (rt, os.getpid(), rec["id"])
    tr = os.path.join(wd, "scen-%s.ndjson" % tag)
    vlib.write_lines(tr, [rec])
    cfg = os.path.join(D, "_trace_scen_%s.cfg" % tag)
    scen_cfg(cfg, rt, rec["workers"], rec["timeout"], rec["force_https"], max(len(rec["tk"]), 1), max(len(rec["pk"]), 1))
    with open(cfg) as f:
        s = f.read().replace("INVARIANTS Report", "POSTCONDITION Post\nINVARIANTS Furthest Report")
    with open(cfg, "w") as f:
        f.write(s)
    try:
        r = _tlc("Trace_TlsApp.tla", os.path.basename(cfg), workers=1, env={"TRACE": tr}, timeout=600, work_id="c01tlsd")
    except vlib.ToolError:
        return None
    finally:
        os.remove(cfg)
        os.remove(tr)
    for line in r.raw_prints:
        if line.startswith('<<"FURTHEST"'):
            return int(line.split(",")[1].strip(" >"))
    return None


def ev_brief(e):
    if e["side"] == "p":
        return [e["e"], e["c"], e["x"], e["n"], e["st"], e["loc"][:120]]
    if e["e"] == "TServed":
        return [e["e"], e["c"], e["r"]]
    return [e["e"], e["c"], e["x"], e["xs"]]


def scen_part(ctx, rt, exe, scens, clean):
    recs_all, skipped = [], []
    for kind in ("free", "forced"):
        js = scens[kind]
        if not js:
            continue
        p, recs, head = harness(exe, ["scen"], "\n".join(json.dumps(j) for j in js) + "\n", timeout=HARNESS_TIMEOUT)
        errs = [r for r in recs if "error" in r]
        skipped += [r for r in recs if "skipped" in r]
        recs = [r for r in recs if "events" in r]
        if p.returncode != 0 or len(recs) + len(errs) + len([r for r in skipped if r["id"] in {j["id"] for j in js}]) != len(js) or len(errs) > max(2, len(js) // 20):
            raise vlib.ToolError("tls scen harness (%s, %s) rc=%s produced %d/%d records, %d errors: %s %s" % (rt, kind, p.returncode, len(recs), len(js), len(errs), errs[:2], p.stderr[-1500:]))
        recs_all += recs
        ctx.cov.setdefault("parts", {}).setdefault("tls netns", {})[rt + "-" + kind] = head.get("private_netns")
    if skipped:
        ctx.assumptions.append("REDUCED COVERAGE (TLS part, %s): %d force-HTTPS scenario(s) not run - %s" % (rt, len(skipped), skipped[0]["skipped"]))
    acc = scen_validate(ctx, rt, recs_all, "scen")
    left = [r for r in recs_all if r["id"] not in acc]
    byl = {}
    for r in recs_all:
        b = byl.setdefault(r["label"], [0, 0])
        b[0] += 1
        b[1] += r["id"] not in acc
    ctx.add_part("tls scenarios " + rt, scenarios=len(recs_all), accepted=len(acc), rejected=len(left),
                 tls_port_connections=sum(len(r["tk"]) for r in recs_all), port80_connections=sum(len(r["pk"]) for r in recs_all),
                 by_family={k: {"scenarios": v[0], "rejected": v[1]} for k, v in byl.items()})
    if recs_all:
        ex = next((r for r in recs_all if r["pk"] and r["tk"]), recs_all[0])
        ctx.sample({"tls_scenario": rt, "label": ex["label"], "tk": ex["tk"][:6], "pk": [{k: (v[:60] if isinstance(v, str) else v) for k, v in x.items()} for x in ex["pk"][:4]],
                    "events": [ev_brief(e) for e in ex["events"][:14]]}, limit=14)
    if left:
        clean[0] = False
        for r in left[:3]:
            pos = furthest(rt, r)
            evs = r["events"]
            at = evs[pos - 1] if pos and pos <= len(evs) else None
            ctx.violation("TLS %s: scenario '%s' (workers=%s timeout=%s force_https=%s; TLS-port clients %s; port-80 clients %s) is not a behaviour of TlsApp; first event no behaviour explains: #%s %s; events: %s"
                          % (rt, r["label"], r["workers"], r["timeout"], r["force_https"], json.dumps(r["tk"][:12]),
                             json.dumps([[k["host"], k["tform"], k["wf"], k["beh"], k["nreq"], k["hs"], k["tgs"][:60]] for k in r["pk"][:8]]),
                             pos, json.dumps(ev_brief(at)) if at else "?", json.dumps([ev_brief(e) for e in evs[:40]])[:1800]),
                          {"kind": "tls-scenario", "runtime": rt, "scenario": r, "first_unexplained_event": pos, "rejected_in_this_run": len(left)})
    return recs_all, acc


# ------------------------------------------------------------------------------------------------------------------
# 2(iii): the https client
# ------------------------------------------------------------------------------------------------------------------
def client_part(ctx, exe, gen, clean):
    beh = [x for x in gen.prints if x.get("k") == "tlsclient"]
    if len(beh) < 50:
        raise vlib.ToolError("Gen_TlsClient produced %d behaviours" % len(beh))
    names = {"http://A": "http://" + IP_A, "https://A": "https://" + IP_A, "https://B": "https://" + IP_B}

    def conc(i, b):
        pre = "/b%d" % i

        def loc(s):
            if not s:
                return s
            for k, vv in names.items():
                if s.startswith(k + "/"):
                    return vv + pre + s[len(k):]
            return pre + s
        script = [{"at": names.get(r["at"], r["at"]), "path": pre + r["path"], "code": r["code"], "location": loc(r["location"]), "framing": r["framing"], "id": r["id"]} for r in b["script"]]
        reqs = [{"at": names[r["at"]], "path": pre + r["path"], "wire": r["wire"]} for r in b["reqs"]]
        exp = dict(b["exp"])
        exp["location"] = loc(exp["location"])
        return {"id": i, "follow": b["follow"], "start": names[b["start"]] + pre + "/h0", "script": script, "reqs": reqs, "outcome": b["outcome"], "exp": exp}
    jobs = [conc(i + 1, b) for i, b in enumerate(beh)]
    p, recs, head = harness(exe, ["client"], "\n".join(json.dumps(j) for j in jobs) + "\n", timeout=1500)
    summ = next((r for r in recs if r.get("summary")), None)
    if p.returncode != 0 or summ is None:
        raise vlib.ToolError("tls client harness rc=%s: %s" % (p.returncode, p.stderr[-1500:]))
    if not summ.get("available"):
        ctx.assumptions.append("REDUCED COVERAGE (TLS part): https client not run - " + str(summ.get("reason")))
        ctx.add_part("tls client", available=False, reason=summ.get("reason"))
        return None, jobs
    if summ["behaviours"] != len(jobs):
        raise vlib.ToolError("tls client harness consumed %d of %d behaviours" % (summ["behaviours"], len(jobs)))
    crossing = sum(1 for b in jobs if len({r["wire"] for r in b["reqs"]}) > 1)
    ctx.cov["evaluations"] += summ["behaviours"]
    ctx.cov["distinct_nontrivial"] += crossing
    ctx.add_part("tls client", behaviours=len(jobs), crossing_http_https=crossing, ending_in_certificate_error=sum(1 for b in jobs if b["outcome"] == "error"),
                 mismatches=summ["mismatches"], private_netns=head.get("private_netns"))
    if summ["mismatches"]:
        clean[0] = False
        f0 = summ["first"][0]
        ctx.violation("https client: %d redirect chain(s) crossing http/https did not run as TlsClient predicts; first: %s; chain=%s got=%s seen=%s"
                      % (summ["mismatches"], json.dumps(f0["why"]), json.dumps(f0["behaviour"]["script"]), json.dumps(f0["got"]), json.dumps(f0["seen"])),
                      {"kind": "tls-client", "first": summ["first"]})
    return summ, jobs


# ------------------------------------------------------------------------------------------------------------------
def run_part(ctx, tier):
    thorough = tier == "thorough"
    T = "thorough" if thorough else "quick"
    rnd = random.Random(ctx.seed * 7919 + 13)
    clean = [True]
    t_start = time.time()

    # ---- build both harness binaries while the first TLC runs are under way ----
    pool = ThreadPoolExecutor(max_workers=7)
    f_build = {"threaded": pool.submit(build_tls, False)}
    f_build["tokio"] = pool.submit(lambda: (f_build["threaded"].result(), build_tls(True))[1])

    # ---- 1. model checking, sensitivity, generation: independent TLC runs ----
    jobs = []

    def job(key, note, module, cfg, cwd=D, **kw):
        jobs.append((key, note, lambda: _tlc(module, cfg, cwd=cwd, **kw)))

    mcs = [("accept", "TLS port (quick: 3 clients x 5 kinds; thorough: 2 clients + HttpConn loop catalogue on the established connection), threaded, no timeout"),
           ("accept_t", "TLS port, threaded, connection timeout"),
           ("accept_tokio", "TLS port, tokio"), ("redirect", "force-HTTPS listener: %d clients x 6 kinds" % (4 if thorough else 3)),
           ("redirect_fields", "force-HTTPS listener: Host x target x well-formedness x requests"), ("both", "TLS port + port 80 sharing the pool"),
           ("life", "shutdown / restart")]
    if thorough:
        mcs += [("accept4", "TLS port: 4 clients"), ("focus2", "TLS port + HttpConn scripts <= 2 on the established connection")]
    else:
        mcs += [("focus", "TLS port + HttpConn script on the established connection")]
    mcs += [("focus_tokio", "TLS port + HttpConn script on the established connection, tokio")]
    for name, note in mcs:
        cfgname = "MC_TlsApp_%s%s.cfg" % (name, "" if name == "redirect_fields" else ("_quick" if name == "focus_tokio" else "_" + T))
        job("mc:" + name, "MC TlsApp " + note, "MC_TlsApp.tla", cfgname, workers=4 if thorough else 2, heap="8g" if thorough else "3g",
            coverage=(not thorough and name in ("accept_t", "redirect", "life", "focus")))
    if thorough:   # action coverage is measured on the quick configurations (cheap), the thorough ones run without
        for name in ("accept_t", "redirect", "life", "focus"):
            job("cov:" + name, "MC TlsApp %s (action coverage)" % name, "MC_TlsApp.tla", "MC_TlsApp_%s_quick.cfg" % name, workers=2, coverage=True)
    for d, kind in DEVS:
        job("dev:" + d, "sensitivity Dev={%s}" % d, "MC_TlsApp.tla", "MC_TlsApp_dev_%s.cfg" % d, workers=1, heap="1g", timeout=900)
    for d, kind in REACH:
        job("reach:" + d, "can-happen %s (negation must be violated)" % d, "MC_TlsApp.tla", "MC_TlsApp_reach_%s.cfg" % d, workers=1, heap="1g", timeout=900)
    job("mc:client", "MC TlsClient: every chain <= %d hops over http / https / untrusted https" % (5 if thorough else 3), "MC_TlsClient.tla", "MC_TlsClient_%s.cfg" % T, workers=2, coverage=True)
    for d in CLIENT_DEVS:
        job("cdev:" + d, "sensitivity TlsClient Dev={%s}" % d, "MC_TlsClient.tla", "MC_TlsClient_dev_%s.cfg" % d, workers=1, heap="1g", timeout=600)
    for d in CLIENT_REACH:
        job("creach:" + d, "can-happen TlsClient %s" % d, "MC_TlsClient.tla", "MC_TlsClient_reach_%s.cfg" % d, workers=1, heap="1g", timeout=600)
    # generation
    n = 3 if thorough else 2
    for tag in ("t", "nt"):
        job("gen:loop:" + tag, "C01 script generation Gen_loop%d_%s (for the TLS transport)" % (n, tag), "MC_HttpConn.tla", "Gen_loop%d_%s.cfg" % (n, tag), cwd=D_CONN, workers=1)
        job("gen:fields:" + tag, "C01 script generation Gen_fields1_%s (for the TLS transport)" % tag, "MC_HttpConn.tla", "Gen_fields1_%s.cfg" % tag, cwd=D_CONN, workers=1)
        job("sim:" + tag, "C01 send sequences Sim_%d_%s (for the TLS transport)" % (n, tag), "Sim_HttpConn.tla", "Sim_%d_%s.cfg" % (n, tag), cwd=D_CONN, workers=1,
            simulate=400 if thorough else 120, depth=80, seed_val=ctx.seed)
    job("gen:accept", "TlsApp client-kind combinations (TLS port)", "MC_TlsApp.tla", "Gen_TlsApp_accept.cfg", workers=1)
    job("gen:redirect", "TlsApp client-kind combinations (port 80)", "MC_TlsApp.tla", "Gen_TlsApp_redirect.cfg", workers=1)
    job("gen:redfields", "TlsApp port-80 request fields", "MC_TlsApp.tla", "Gen_TlsApp_redirect_fields.cfg", workers=1)
    for name, num in (("accept", 300 if thorough else 60), ("life", 150 if thorough else 40), ("both", 300 if thorough else 60)):
        job("sim:" + name, "TlsApp orders of client actions (-simulate, %s)" % name, "Sim_TlsApp.tla", "Sim_TlsApp_%s.cfg" % name, workers=1, simulate=num, depth=70, seed_val=ctx.seed)
    job("gen:client", "TlsClient behaviour generation", "MC_TlsClient.tla", "Gen_TlsClient_%s.cfg" % T, workers=1)

    # generation first (the harness runs wait for it), the exhaustive runs fill the remaining slots
    jobs.sort(key=lambda j: 0 if j[0].startswith(("gen:", "sim:")) else 1)
    futs = {key: (note, pool.submit(fn)) for key, note, fn in jobs}

    def res_of(keys):
        return {k: futs[k][1].result() for k in keys}

    gen_keys = [k for k in futs if k.startswith(("gen:", "sim:"))]
    res = res_of(gen_keys)
    for k in gen_keys:
        if res[k].violation:
            raise vlib.ToolError("TLS part: generation %s failed: %s %s" % (k, res[k].violation, res[k].violated_name))
        ctx.add_tlc(futs[k][0], res[k])

    # ---- 2./3. the real code: five harness processes side by side, TLC validating their logs ----
    exes = {rt: f.result() for rt, f in f_build.items()}
    cj = conn_jobs(ctx, tier, rnd, res)
    scens = mk_scenarios(tier, rnd, res)
    hp = ThreadPoolExecutor(max_workers=5)
    f_conn = {rt: hp.submit(conn_part, ctx, rt, exes[rt], cj[rt], clean) for rt in ("threaded", "tokio")}
    f_scen = {rt: hp.submit(scen_part, ctx, rt, exes[rt], scens[rt], clean) for rt in ("threaded", "tokio")}
    f_cli = hp.submit(client_part, ctx, exes["threaded"], res["gen:client"], clean)
    conn_recs, scen_recs = {}, {}
    total_conns, nontrivial = 0, set()
    for rt in ("threaded", "tokio"):
        recs, nt = f_conn[rt].result()
        conn_recs[rt] = recs
        total_conns += len(recs)
        nontrivial |= nt
    for rt in ("threaded", "tokio"):
        scen_recs[rt] = f_scen[rt].result()
    cli_summ, cli_jobs = f_cli.result()
    hp.shutdown()
    nscen = sum(len(v[0]) for v in scen_recs.values())
    ctx.cov["evaluations"] += total_conns + sum(len(r["tk"]) + len(r["pk"]) for v in scen_recs.values() for r in v[0])
    ctx.cov["traces_validated_against_impl"] += total_conns + nscen
    ctx.cov["distinct_nontrivial"] += len(nontrivial) + len({(rt, r["label"], tuple(r["tk"][:6]), tuple((k["host"], k["tform"], k["wf"], k["beh"], k["nreq"]) for k in r["pk"][:6]))
                                                            for rt, v in scen_recs.items() for r in v[0]})

    # ---- 1. (continued) verdicts of the exhaustive runs ----
    rest = res_of([k for k in futs if k not in res])
    pool.shutdown()
    model_ok = True
    for k, r in rest.items():
        ctx.add_tlc(futs[k][0], r)
        if k.startswith(("mc:", "cov:")):
            ctx.require_tlc_ok(k, r)
            model_ok = model_ok and r.violation is None
    covsrc = "cov:" if thorough else "mc:"
    ctx.require_cover("MC_TlsApp_accept_t", rest[covsrc + "accept_t"], [a for a in ACTIONS if not a.startswith("Focus") and a != "T_GiveUp"])
    ctx.require_cover("MC_TlsApp_focus", rest[covsrc + "focus"], ["FocusClient", "FocusServer", "Hs_Complete"])
    ctx.require_cover("MC_TlsApp_redirect", rest[covsrc + "redirect"], [a for a in RED_ACTIONS if a != "P_GiveUp"])
    ctx.require_cover("MC_TlsApp_life", rest[covsrc + "life"], LIFE_ACTIONS + ["T_GiveUp"])
    ctx.require_cover("MC_TlsClient", rest["mc:client"], ["T_Send", "T_ConnFail", "T_Respond", "Srv_ToUntrusted", "T_Read", "T_Redirect", "T_Return"])
    for d, kind in DEVS:
        if rest["dev:" + d].violation != kind:
            raise vlib.ToolError("TlsApp lost sensitivity: Dev={%s} gives %s, expected a violated %s" % (d, rest["dev:" + d].violation, kind))
    for d, kind in REACH:
        if rest["reach:" + d].violation != kind:
            raise vlib.ToolError("TlsApp can-happen check %s: the negation is not violated (%s)" % (d, rest["reach:" + d].violation))
    for d in CLIENT_DEVS:
        if rest["cdev:" + d].violation != "invariant":
            raise vlib.ToolError("TlsClient lost sensitivity: Dev={%s} violates nothing" % d)
    for d in CLIENT_REACH:
        if rest["creach:" + d].violation != "invariant":
            raise vlib.ToolError("TlsClient can-happen check %s: the negation is not violated" % d)

    # ---- 4. self-tests of every comparison path (only meaningful after a clean run) ----
    if clean[0] and model_ok:
        st = {}
        # (a) a connection record with one response field flipped must be rejected by Trace_HttpConn
        cand = [r for r in conn_recs["tokio"] if not r["timeout"] and any(e["e"] == "Recv" and e["r"]["st"] == 200 for e in r["events"])]
        good = conn_validate(ctx, cand[:40], [d for d in OPEN_ORDER if ctx.known.is_open("C01", d)], False, "selftest-pre", record=False)
        base = next((r for r in cand[:40] if r["id"] in good), None)
        if base is None:
            raise vlib.ToolError("TLS self-test: no accepted connection to corrupt")
        bad = copy.deepcopy(base)
        e = next(e for e in bad["events"] if e["e"] == "Recv" and e["r"]["st"] == 200)
        e["r"]["st"] = 404
        bad2 = copy.deepcopy(base)
        e2 = next(e for e in bad2["events"] if e["e"] == "Recv" and e["r"]["st"] == 200)
        e2["r"]["date"] = False
        bad2["id"] = bad["id"] + 1000000
        a = conn_validate(ctx, [bad, bad2], [d for d in OPEN_ORDER if ctx.known.is_open("C01", d)], False, "selftest", record=False)
        if a:
            raise vlib.ToolError("TLS self-test: a connection record with a flipped status / a missing Date header was accepted by Trace_HttpConn")
        st["corrupted_connection_record_rejected"] = True
        # (b) scenario logs: query removed from a Location; a plaintext answer on the TLS port; a response dropped
        for rt in ("threaded", "tokio"):
            recs, acc = scen_recs[rt]
            okrecs = [r for r in recs if r["id"] in acc]
            muts = []
            c1 = next((r for r in okrecs if any(e["e"] == "PResp" and "?" in e["loc"] for e in r["events"])), None)
            if c1:
                m = copy.deepcopy(c1)
                e = next(e for e in m["events"] if e["e"] == "PResp" and "?" in e["loc"])
                e["loc"] = e["loc"].split("?")[0]
                m["id"] = 9000001
                muts.append(("location_without_query", m))
            c2 = next((r for r in okrecs if len(r["tk"]) <= 8 and any(e["e"] == "TEof" and e["xs"] == ["alert"] for e in r["events"])), None)
            if c2:
                m = copy.deepcopy(c2)
                e = next(e for e in m["events"] if e["e"] == "TEof" and e["xs"] == ["alert"])
                e["xs"] = ["plain"]
                m["id"] = 9000002
                muts.append(("plaintext_on_tls_port", m))
            c3 = next((r for r in okrecs if len(r["pk"]) <= 8 and any(e["e"] == "PResp" for e in r["events"])), None)
            if c3:
                m = copy.deepcopy(c3)
                i = next(i for i, e in enumerate(m["events"]) if e["e"] == "PResp")
                pid = m["events"][i]["c"]
                del m["events"][i]
                for e in m["events"]:
                    if e["e"] == "PEof" and e["c"] == pid:
                        e["n"] = 0
                m["id"] = 9000003
                muts.append(("redirect_not_sent", m))
            c4 = next((r for r in okrecs if len(r["tk"]) <= 8 and any(e["e"] == "TServed" for e in r["events"])), None)
            if c4:
                m = copy.deepcopy(c4)
                i = next(i for i, e in enumerate(m["events"]) if e["e"] == "TServed")
                cid = m["events"][i]["c"]
                m["events"] = m["events"][:i] + [dict(m["events"][i], e="TQuiet")] + [e for e in m["events"][i + 1:] if e["c"] != cid]
                m["events"] = [e for e in m["events"] if not (e["e"] == "TEst" and e["c"] == cid)]
                m["id"] = 9000004
                muts.append(("good_client_not_served", m))
            if len(muts) < 3:
                raise vlib.ToolError("TLS self-test (%s): only %d of 4 corruptions could be built" % (rt, len(muts)))
            a = scen_validate(ctx, rt, [m for _, m in muts], "selftest", record=False)
            if a:
                raise vlib.ToolError("TLS self-test (%s): corrupted scenario log(s) accepted by Trace_TlsApp: %s" % (rt, [n for n, m in muts if m["id"] in a]))
            st["corrupted_scenarios_rejected_" + rt] = [n for n, _ in muts]
        # (c) a client vector with a flipped expected status must be reported by the harness
        if cli_summ is not None:
            cand = [b for b in cli_jobs if b["outcome"] == "done" and b["exp"]["code"] == 200 and len(b["reqs"]) >= 2]
            bad = copy.deepcopy(rnd.choice(cand))
            bad["exp"]["code"] = 404
            bad2 = copy.deepcopy(rnd.choice(cand))
            bad2["reqs"][-1]["wire"] = "plain" if bad2["reqs"][-1]["wire"] == "tls" else "tls"
            p, recs, _ = harness(exes["threaded"], ["client"], json.dumps(bad) + "\n" + json.dumps(bad2) + "\n", timeout=300)
            s = next((r for r in recs if r.get("summary")), {})
            if s.get("available") and s.get("mismatches") != 2:
                raise vlib.ToolError("TLS self-test: a flipped expected status / transport in a client vector was not reported by the harness (%s)" % s)
            st["corrupted_client_vectors_detected"] = bool(s.get("available"))
        ctx.add_part("tls self-test", **st)

    ctx.add_part("tls part", wall_s=round(time.time() - t_start, 1), connections_over_tls=total_conns, scenarios=nscen)
    ctx.assumptions += [
        "TLS part: the harness classifies bytes received outside an established TLS connection as handshake records / alerts / 'plain' (anything that is not a well-formed TLS record) - part of the trusted projection",
        "TLS part: demanded of the force-HTTPS listener: Location = \"https://\" + Host + request-target (query included) for a well-formed request with a Host header, no application content on port 80, "
        "the listener survives bad requests, early closes and silent clients; observed and accepted: one response per connection then close, a 200 notice without Host, no answer to a malformed request, "
        "empty Host / '*' / absolute-form targets pasted into the formula unchanged; a target with an EMPTY query ('/p?') is not generated (Request does not keep the '?')",
        "TLS part: a stalled handshake without a connection timeout holds its worker for as long as the client stays (by design, like an idle plain connection): a good client that then waits is only a violation "
        "when the model says a worker is free; waits escalate 4 s + 15 s (handshake) and 1 s + 4 s + 15 s (+ 8 s behind silent port-80 clients, whose read timeout is 5 s) before anything is called quiet",
        "TLS part: Humphrey closes TLS connections without close_notify (recorded per connection, not demanded)"]
    try:
        os.rmdir(vlib.workdir("C01tls"))
    except OSError:
        pass


if __name__ == "__main__":
    tier = sys.argv[1] if len(sys.argv) > 1 else "quick"
    vlib.EVIDENCE = os.path.join(vlib.WORK, "C01tls", "evidence")      # never /verif/evidence/C01.json
    vlib.REPLAYS = os.path.join(vlib.WORK, "C01tls", "replays")
    c = vlib.Ctx("C01", tier, "model_checking")
    try:
        run_part(c, tier)
    except vlib.ToolError as e:
        print("TOOL ERROR: %s" % e, file=sys.stderr)
        if c.violations:
            c.finish()
            sys.exit(1)
        sys.exit(2)
    for r in c.cov["tlc_runs"]:
        print("  %-105s distinct=%-8d generated=%-9d %6.1fs %s" % (r["name"][:105], r["distinct"], r["generated"], r["wall_s"], r["result"]))
    for k, v in c.cov["parts"].items():
        print("  part %-28s %s" % (k, json.dumps(v)))
    rc = c.finish()
    sys.exit(rc)
